package main

import (
	"fmt"
	"math"

	"github.com/sahandsafizadeh/qeep/component/metrics"
	"qmc/core"
	"qmc/enum"
	"qmc/ref"
	"qmc/rt"
)

/*
Length sweeps. The small-scope enumerations keep every dimension <= 3 (a few
up to 40); code that treats long dimensions differently (block-wise kernels,
worker splits, fast paths above a threshold, remainder handling) is outside
them. Every check therefore also runs a fixed family of operation
configurations for EVERY length L of sweepLengths along one designated
dimension (all other dimensions 1..3): all lengths 1..40 (thorough 1..300), and
beyond that every power of two up to 8192 with both neighbours, plus the usual
"round" sizes. Oracle: the same reference model as the small-scope cases.
*/

func sweepLengths(thorough bool) []int {
	dense := 40
	if thorough {
		dense = 300
	}
	seen := map[int]bool{}
	var out []int
	add := func(n int) {
		if n >= 1 && !seen[n] {
			seen[n] = true
			out = append(out, n)
		}
	}
	for n := 1; n <= dense; n++ {
		add(n)
	}
	for p := 32; p <= 4096; p *= 2 {
		add(p - 1)
		add(p)
		add(p + 1)
	}
	for _, n := range []int{48, 96, 100, 192, 200, 250, 300, 384, 500, 640, 768, 1000, 1500, 2000, 3000, 3072} {
		add(n)
	}
	if thorough {
		for _, n := range []int{5000, 6000, 8191, 8192, 8193, 10000} {
			add(n)
		}
	}
	// integer constants written in the library's current source (block sizes,
	// worker counts, thresholds), with both neighbours and small multiples
	for _, n := range core.CodeInts(2, 1<<17) {
		add(n - 1)
		add(n)
		add(n + 1)
		if n >= 4 && n <= 1<<12 {
			add(2*n - 1)
			add(2 * n)
			add(2*n + 1)
			add(3*n + 1)
		}
	}
	return out
}

// operandCounts: numbers of tensors in an n-ary call (Concat): small ones
// densely, then powers of two with neighbours, plus code-derived ones.
func operandCounts(thorough bool) []int {
	seen := map[int]bool{}
	var out []int
	add := func(n int) {
		if n >= 2 && n <= 1100 && !seen[n] {
			seen[n] = true
			out = append(out, n)
		}
	}
	for n := 2; n <= 10; n++ {
		add(n)
	}
	for _, n := range []int{15, 16, 17, 31, 32, 33, 63, 64, 65, 100, 127, 128, 129} {
		add(n)
	}
	if thorough {
		for _, n := range []int{255, 256, 257, 511, 512, 513, 1000, 1024, 1025} {
			add(n)
		}
	}
	for _, n := range core.CodeInts(2, 1024) {
		add(n - 1)
		add(n)
		add(n + 1)
	}
	return out
}

// bigCounts: element counts at which whole-tensor thresholds may sit: a few
// defaults plus every code-derived integer up to 2^20.
func bigCounts(thorough bool) []int {
	seen := map[int]bool{}
	var out []int
	add := func(n int) {
		if n >= 256 && !seen[n] {
			seen[n] = true
			out = append(out, n)
		}
	}
	add(4096)
	add(16384)
	add(65536)
	if thorough {
		add(1 << 18)
		add(1 << 20)
	}
	for _, n := range core.CodeInts(256, 1<<20) {
		add(n)
	}
	return out
}

// bigShapes: shapes whose element count is just above n, of rank 2 and 3, with
// first dimensions covering all residues modulo 4 and a long-thin variant.
func bigShapes(thorough bool) [][]int {
	var out [][]int
	seen := map[string]bool{}
	add := func(s ...int) {
		k := fmt.Sprint(s)
		if !seen[k] {
			seen[k] = true
			out = append(out, s)
		}
	}
	for _, n := range bigCounts(thorough) {
		s := int(math.Ceil(math.Sqrt(float64(n))))
		for d := 0; d < 4; d++ {
			add(s+d, s+d)
		}
		add(s, s+1)
		add(n/2+1, 2)
		add(2, n/2+1)
		add(n/3+1, 3)
		cb := int(math.Ceil(math.Cbrt(float64(n))))
		add(cb, cb, cb)
		add(cb+1, cb, cb+2)
		add(n + 1)
	}
	return out
}

// shorter list for families whose cost per case is superlinear or that run a whole history
func sweepLengthsShort(thorough bool) []int {
	var out []int
	for _, n := range sweepLengths(thorough) {
		if n <= 40 || (n <= 1100 && (n&(n-1) == 0 || (n-1)&(n-2) == 0 || (n+1)&n == 0 || n%100 == 0)) {
			out = append(out, n)
		}
	}
	return out
}

type fwdFam struct {
	name string
	mk   func(L int) (ref.Op, []*ref.T, bool)
}

func gen(s []int, salt uint64) *ref.T    { return enum.Generic(s, salt, 0.5, 3, true) }
func genPos(s []int, salt uint64) *ref.T { return enum.Generic(s, salt, 0.5, 3, false) }

func runFwdSweep(c *core.Ctx, fams []fwdFam, exact bool) {
	for _, f := range fams {
		for _, L := range sweepLengths(c.Thorough()) {
			f, L := f, L
			c.Case(fmt.Sprintf("sweep/%s/L%d", f.name, L), L > 1, func() core.Verdict {
				op, in, ok := f.mk(L)
				if !ok {
					return core.Skip()
				}
				v := applyBoth(op, in, exact)
				if !v.OK && !v.Skip {
					v.Detail = fmt.Sprintf("length sweep %s, L=%d: %s", f.name, L, v.Detail)
				}
				return v
			})
		}
	}
}

type gradFam struct {
	name string
	mk   func(L int) (op ref.Op, in []*ref.T, ok bool)
}

// runGradSweep: one node over tracked leaves, a non-uniform upstream weighting, gradCase.
func runGradSweep(c *core.Ctx, fams []gradFam, o gradOpts) {
	for _, f := range fams {
		for _, L := range sweepLengths(c.Thorough()) {
			f, L := f, L
			c.Case(fmt.Sprintf("sweep/%s/L%d", f.name, L), L > 1, func() core.Verdict {
				op, in, ok := f.mk(L)
				if !ok {
					return core.Skip()
				}
				p := &ref.Program{Leaves: in}
				ids := make([]int, len(in))
				for i := range in {
					p.Tracked = append(p.Tracked, true)
					ids[i] = i
				}
				p.Nodes = []ref.Node{{Op: op, In: ids}}
				if _, ok := p.Forward(); !ok {
					return core.Fail("HARNESS: model rejects sweep configuration %s L=%d", f.name, L)
				}
				q, root := withWeighting(p, len(in), 77)
				v := gradCase(q, root, o)
				if !v.OK && !v.Skip {
					v.Detail = fmt.Sprintf("length sweep %s, L=%d: %s :: %s", f.name, L, describeProgram(q), v.Detail)
				}
				return v
			})
		}
	}
}

func un(k string, f float64, shape func(L int) []int) func(L int) (ref.Op, []*ref.T, bool) {
	return func(L int) (ref.Op, []*ref.T, bool) {
		x := gen(shape(L), 11)
		if k == "Log" || k == "Pow" {
			x = genPos(shape(L), 11)
		}
		return ref.Op{K: k, F: f}, []*ref.T{x}, true
	}
}

func bin(k string, sa, sb func(L int) []int) func(L int) (ref.Op, []*ref.T, bool) {
	return func(L int) (ref.Op, []*ref.T, bool) {
		return ref.Op{K: k}, []*ref.T{gen(sa(L), 12), genPos(sb(L), 13)}, true
	}
}

func along(k string, dim int, shape func(L int) []int) func(L int) (ref.Op, []*ref.T, bool) {
	return func(L int) (ref.Op, []*ref.T, bool) {
		s := shape(L)
		if (k == "VarAlong" || k == "StdAlong") && s[dim] < 2 {
			return ref.Op{}, nil, false
		}
		return ref.Op{K: k, Dim: dim}, []*ref.T{gen(s, 14)}, true
	}
}

var (
	shL   = func(L int) []int { return []int{L} }
	shL1  = func(L int) []int { return []int{L, 1} }
	sh1L  = func(L int) []int { return []int{1, L} }
	shL2  = func(L int) []int { return []int{L, 2} }
	sh2L  = func(L int) []int { return []int{2, L} }
	shL3  = func(L int) []int { return []int{L, 3} }
	sh12  = func(L int) []int { return []int{1, 2} }
	sh1   = func(L int) []int { return []int{1} }
	sh2L1 = func(L int) []int { return []int{2, L, 1} }
	shL12 = func(L int) []int { return []int{L, 1, 2} }
	shL21 = func(L int) []int { return []int{L, 2, 1} }
)

/* ---------- C03 ---------- */

func sweepC03(c *core.Ctx) {
	var fams []fwdFam
	for _, u := range []struct {
		k string
		f float64
	}{{"Scale", -1.5}, {"Pow", 2}, {"Pow", 0.5}, {"Exp", 0}, {"Log", 0}, {"Sin", 0}, {"Tanh", 0}} {
		for si, sh := range []func(int) []int{shL, shL2, sh2L} {
			fams = append(fams, fwdFam{fmt.Sprintf("%s(%g)/s%d", u.k, u.f, si), un(u.k, u.f, sh)})
		}
	}
	for _, k := range []string{"Add", "Sub", "Mul", "Div", "ElMax", "ElMin", "Gt", "Eq", "Le"} {
		fams = append(fams,
			fwdFam{k + "/[L],[L]", bin(k, shL, shL)},
			fwdFam{k + "/[L,2],[L,2]", bin(k, shL2, shL2)},
			fwdFam{k + "/[2,L],[2,L]", bin(k, sh2L, sh2L)})
		if k == "Add" || k == "Sub" || k == "Mul" || k == "Div" {
			fams = append(fams,
				fwdFam{k + "/[L,1],[1,2]", bin(k, shL1, sh12)},
				fwdFam{k + "/[L],[1]", bin(k, shL, sh1)},
				fwdFam{k + "/[1],[L]", bin(k, sh1, shL)},
				fwdFam{k + "/[2,L],[L]", bin(k, sh2L, shL)},
				fwdFam{k + "/[L,1],[L,2]", bin(k, shL1, shL2)})
		}
	}
	runFwdSweep(c, fams, false)
}

/* ---------- C04 ---------- */

func sweepC04(c *core.Ctx) {
	mm := func(sa, sb func(int) []int) func(L int) (ref.Op, []*ref.T, bool) {
		return func(L int) (ref.Op, []*ref.T, bool) {
			return ref.Op{K: "MatMul"}, []*ref.T{gen(sa(L), 21), gen(sb(L), 22)}, true
		}
	}
	dot := func(sa, sb func(int) []int) func(L int) (ref.Op, []*ref.T, bool) {
		return func(L int) (ref.Op, []*ref.T, bool) {
			return ref.Op{K: "Dot"}, []*ref.T{gen(sa(L), 23), gen(sb(L), 24)}, true
		}
	}
	sh21 := func(L int) []int { return []int{2, 1} }
	sh23 := func(L int) []int { return []int{2, 3} }
	sh32 := func(L int) []int { return []int{3, 2} }
	shL3_ := func(L int) []int { return []int{L, 3} }
	sh3L := func(L int) []int { return []int{3, L} }
	fams := []fwdFam{
		{"MatMul/inner/[1,L]x[L,1]", mm(sh1L, shL1)},
		{"MatMul/inner/[2,L]x[L,3]", mm(sh2L, shL3_)},
		{"MatMul/rows/[L,2]x[2,1]", mm(shL2, sh21)},
		{"MatMul/rows/[L,2]x[2,3]", mm(shL2, sh23)},
		{"MatMul/cols/[3,2]x[2,L]", mm(sh32, sh2L)},
		{"MatMul/batch/[L,1,2]x[L,2,1]", mm(shL12, shL21)},
		{"MatMul/batch/[L,1,2]x[2,1]", mm(shL12, sh21)},
		{"Dot/[L].[L]", dot(shL, shL)},
		{"Dot/[2,L].[2,L]", dot(sh2L, sh2L)},
		{"Dot/[L,2].[L,2]", dot(shL2, shL2)},
		{"Dot/[2,L].[L]", dot(sh2L, shL)},
		{"Transpose/[L,2]", func(L int) (ref.Op, []*ref.T, bool) { return ref.Op{K: "Transpose"}, []*ref.T{gen(shL2(L), 25)}, true }},
		{"Transpose/[2,L]", func(L int) (ref.Op, []*ref.T, bool) { return ref.Op{K: "Transpose"}, []*ref.T{gen(sh2L(L), 25)}, true }},
		{"Transpose/[3,L]", func(L int) (ref.Op, []*ref.T, bool) { return ref.Op{K: "Transpose"}, []*ref.T{gen(sh3L(L), 25)}, true }},
		{"Transpose/[L,1,2]", func(L int) (ref.Op, []*ref.T, bool) { return ref.Op{K: "Transpose"}, []*ref.T{gen(shL12(L), 25)}, true }},
	}
	runFwdSweep(c, fams, false)
}

/* ---------- C05 (Along reducers; the global reducers are swept inside checkC05) ---------- */

func sweepShapes05(thorough bool) [][]int {
	var out [][]int
	for _, L := range sweepLengths(thorough) {
		if L > 40 || thorough {
			out = append(out, []int{L}, []int{L, 2}, []int{2, L})
		}
	}
	return out
}

/* ---------- C06 ---------- */

func sweepC06(c *core.Ctx) {
	lab := func(s []int) *ref.T { return enum.Labels(s, 1) }
	fams := []fwdFam{
		{"Slice/[L]/tail", func(L int) (ref.Op, []*ref.T, bool) {
			return ref.Op{K: "Slice", Index: []ref.Range{{From: L / 2, To: L}}}, []*ref.T{lab(shL(L))}, true
		}},
		{"Slice/[L]/inner", func(L int) (ref.Op, []*ref.T, bool) {
			if L < 3 {
				return ref.Op{}, nil, false
			}
			return ref.Op{K: "Slice", Index: []ref.Range{{From: 1, To: L - 1}}}, []*ref.T{lab(shL(L))}, true
		}},
		{"Slice/[L,2]/col", func(L int) (ref.Op, []*ref.T, bool) {
			return ref.Op{K: "Slice", Index: []ref.Range{{From: 0, To: 0}, {From: 1, To: 2}}}, []*ref.T{lab(shL2(L))}, true
		}},
		{"Slice/[2,L]/last", func(L int) (ref.Op, []*ref.T, bool) {
			return ref.Op{K: "Slice", Index: []ref.Range{{From: 1, To: 2}, {From: L - 1, To: L}}}, []*ref.T{lab(sh2L(L))}, true
		}},
		{"Patch/[L]/middle", func(L int) (ref.Op, []*ref.T, bool) {
			if L < 3 {
				return ref.Op{}, nil, false
			}
			return ref.Op{K: "Patch", Index: []ref.Range{{From: 1, To: L - 1}}}, []*ref.T{lab(shL(L)), enum.Labels([]int{L - 2}, 100000)}, true
		}},
		{"Patch/[L,2]/lastrow", func(L int) (ref.Op, []*ref.T, bool) {
			return ref.Op{K: "Patch", Index: []ref.Range{{From: L - 1, To: L}}}, []*ref.T{lab(shL2(L)), enum.Labels([]int{1, 2}, 100000)}, true
		}},
		{"Concat/[L],[L]", func(L int) (ref.Op, []*ref.T, bool) {
			return ref.Op{K: "Concat", Dim: 0}, []*ref.T{lab(shL(L)), enum.Labels(shL(L), 100000)}, true
		}},
		{"Concat/[2,L],[2,3]/dim1", func(L int) (ref.Op, []*ref.T, bool) {
			return ref.Op{K: "Concat", Dim: 1}, []*ref.T{lab(sh2L(L)), enum.Labels([]int{2, 3}, 100000)}, true
		}},
		{"Concat/[L,2]x3/dim1", func(L int) (ref.Op, []*ref.T, bool) {
			return ref.Op{K: "Concat", Dim: 1}, []*ref.T{lab(shL2(L)), enum.Labels(shL1(L), 100000), enum.Labels(shL2(L), 200000)}, true
		}},
		{"Reshape/[L]->[L,1]", func(L int) (ref.Op, []*ref.T, bool) {
			return ref.Op{K: "Reshape", Shape: shL1(L)}, []*ref.T{lab(shL(L))}, true
		}},
		{"Reshape/[L,2]->[2,L]", func(L int) (ref.Op, []*ref.T, bool) {
			return ref.Op{K: "Reshape", Shape: sh2L(L)}, []*ref.T{lab(shL2(L))}, true
		}},
		{"Reshape/[2,L]->[2L]", func(L int) (ref.Op, []*ref.T, bool) {
			return ref.Op{K: "Reshape", Shape: []int{2 * L}}, []*ref.T{lab(sh2L(L))}, true
		}},
		{"Flatten/[L,2,1]", func(L int) (ref.Op, []*ref.T, bool) {
			return ref.Op{K: "Flatten", Dim: 0}, []*ref.T{lab(shL21(L))}, true
		}},
		{"Flatten/[2,L,1]/1", func(L int) (ref.Op, []*ref.T, bool) {
			return ref.Op{K: "Flatten", Dim: 1}, []*ref.T{lab(sh2L1(L))}, true
		}},
		{"UnSqueeze/[L]/1", func(L int) (ref.Op, []*ref.T, bool) {
			return ref.Op{K: "UnSqueeze", Dim: 1}, []*ref.T{lab(shL(L))}, true
		}},
		{"UnSqueeze/[L]/0", func(L int) (ref.Op, []*ref.T, bool) {
			return ref.Op{K: "UnSqueeze", Dim: 0}, []*ref.T{lab(shL(L))}, true
		}},
		{"Squeeze/[L,1]", func(L int) (ref.Op, []*ref.T, bool) {
			return ref.Op{K: "Squeeze", Dim: 1}, []*ref.T{lab(shL1(L))}, true
		}},
		{"Squeeze/[1,L]", func(L int) (ref.Op, []*ref.T, bool) {
			return ref.Op{K: "Squeeze", Dim: 0}, []*ref.T{lab(sh1L(L))}, true
		}},
		{"Broadcast/[1]->[L]", func(L int) (ref.Op, []*ref.T, bool) {
			return ref.Op{K: "Broadcast", Shape: shL(L)}, []*ref.T{lab(sh1(L))}, true
		}},
		{"Broadcast/[L,1]->[L,2]", func(L int) (ref.Op, []*ref.T, bool) {
			return ref.Op{K: "Broadcast", Shape: shL2(L)}, []*ref.T{lab(shL1(L))}, true
		}},
		{"Broadcast/[1,2]->[L,2]", func(L int) (ref.Op, []*ref.T, bool) {
			return ref.Op{K: "Broadcast", Shape: shL2(L)}, []*ref.T{lab(sh12(L))}, true
		}},
		{"Broadcast/[L]->[2,L]", func(L int) (ref.Op, []*ref.T, bool) {
			return ref.Op{K: "Broadcast", Shape: sh2L(L)}, []*ref.T{lab(shL(L))}, true
		}},
	}
	runFwdSweep(c, fams, true)
}

/* ---------- C02 / C07 / C01 ---------- */

func sweepC02(c *core.Ctx) {
	var fams []gradFam
	for _, k := range ref.AlongKinds {
		fams = append(fams,
			gradFam{k + "/[L]/0", along(k, 0, shL)},
			gradFam{k + "/[L,2]/0", along(k, 0, shL2)},
			gradFam{k + "/[2,L]/1", along(k, 1, sh2L)},
			gradFam{k + "/[L,2]/1", along(k, 1, shL2)})
	}
	for _, u := range []struct {
		k string
		f float64
	}{{"Scale", -1.5}, {"Pow", 2}, {"Exp", 0}, {"Log", 0}, {"Tanh", 0}} {
		fams = append(fams, gradFam{u.k + "/[L]", un(u.k, u.f, shL)}, gradFam{u.k + "/[L,2]", un(u.k, u.f, shL2)})
	}
	for _, k := range []string{"Add", "Mul", "Div", "ElMax"} {
		fams = append(fams, gradFam{k + "/[L],[L]", bin(k, shL, shL)}, gradFam{k + "/[2,L],[2,L]", bin(k, sh2L, sh2L)})
	}
	sh21 := func(L int) []int { return []int{2, 1} }
	fams = append(fams,
		gradFam{"Dot/[L].[L]", bin("Dot", shL, shL)},
		gradFam{"Dot/[2,L].[2,L]", bin("Dot", sh2L, sh2L)},
		gradFam{"MatMul/[1,L]x[L,1]", bin("MatMul", sh1L, shL1)},
		gradFam{"MatMul/[2,L]x[L,3]", bin("MatMul", sh2L, shL3)},
		gradFam{"MatMul/[L,2]x[2,1]", bin("MatMul", shL2, sh21)},
		gradFam{"MatMul/[L,1,2]x[L,2,1]", bin("MatMul", shL12, shL21)},
		gradFam{"Transpose/[L,2]", un("Transpose", 0, shL2)},
		gradFam{"Concat/[L],[L]", func(L int) (ref.Op, []*ref.T, bool) {
			return ref.Op{K: "Concat", Dim: 0}, []*ref.T{gen(shL(L), 31), gen(shL(L), 32)}, true
		}},
		gradFam{"Concat/[2,L],[2,3]/1", func(L int) (ref.Op, []*ref.T, bool) {
			return ref.Op{K: "Concat", Dim: 1}, []*ref.T{gen(sh2L(L), 31), gen([]int{2, 3}, 32)}, true
		}},
		gradFam{"Slice/[L]/inner", func(L int) (ref.Op, []*ref.T, bool) {
			if L < 3 {
				return ref.Op{}, nil, false
			}
			return ref.Op{K: "Slice", Index: []ref.Range{{From: 1, To: L - 1}}}, []*ref.T{gen(shL(L), 33)}, true
		}},
		gradFam{"Patch/[L]/middle", func(L int) (ref.Op, []*ref.T, bool) {
			if L < 3 {
				return ref.Op{}, nil, false
			}
			return ref.Op{K: "Patch", Index: []ref.Range{{From: 1, To: L - 1}}}, []*ref.T{gen(shL(L), 34), gen([]int{L - 2}, 35)}, true
		}},
		gradFam{"Reshape/[L,2]->[2,L]", func(L int) (ref.Op, []*ref.T, bool) {
			return ref.Op{K: "Reshape", Shape: sh2L(L)}, []*ref.T{gen(shL2(L), 36)}, true
		}},
		gradFam{"Flatten/[L,2,1]", func(L int) (ref.Op, []*ref.T, bool) {
			return ref.Op{K: "Flatten", Dim: 0}, []*ref.T{gen(shL21(L), 37)}, true
		}},
	)
	runGradSweep(c, fams, gradOpts{})
}

func sweepC07(c *core.Ctx) {
	fams := []gradFam{
		{"Broadcast/[1]->[L]", func(L int) (ref.Op, []*ref.T, bool) {
			return ref.Op{K: "Broadcast", Shape: shL(L)}, []*ref.T{gen(sh1(L), 41)}, true
		}},
		{"Broadcast/[L,1]->[L,3]", func(L int) (ref.Op, []*ref.T, bool) {
			return ref.Op{K: "Broadcast", Shape: shL3(L)}, []*ref.T{gen(shL1(L), 41)}, true
		}},
		{"Broadcast/[1,2]->[L,2]", func(L int) (ref.Op, []*ref.T, bool) {
			return ref.Op{K: "Broadcast", Shape: shL2(L)}, []*ref.T{gen(sh12(L), 41)}, true
		}},
		{"Broadcast/[L]->[2,L]", func(L int) (ref.Op, []*ref.T, bool) {
			return ref.Op{K: "Broadcast", Shape: sh2L(L)}, []*ref.T{gen(shL(L), 41)}, true
		}},
		{"Add/[L,1]+[1,2]", bin("Add", shL1, sh12)},
		{"Mul/[L]*[1]", bin("Mul", shL, sh1)},
		{"Mul/[2,L]*[L]", bin("Mul", sh2L, shL)},
		{"Div/[1,2]/[L,1]", bin("Div", sh12, shL1)},
		{"Dot/[2,L].[L]", bin("Dot", sh2L, shL)},
		{"MatMul/[L,1,2]x[2,1]", bin("MatMul", shL12, func(int) []int { return []int{2, 1} })},
	}
	runGradSweep(c, fams, gradOpts{allowKF: true})
}

// C01: reconverging programs over one long leaf
func sweepC01(c *core.Ctx) {
	for pi := 0; pi < 3; pi++ {
		for si, sh := range []func(int) []int{shL, shL2} {
			for _, L := range sweepLengths(c.Thorough()) {
				pi, si, sh, L := pi, si, sh, L
				c.Case(fmt.Sprintf("sweep/dag%d/s%d/L%d", pi, si, L), L > 1, func() core.Verdict {
					p := &ref.Program{Leaves: []*ref.T{gen(sh(L), 51)}, Tracked: []bool{true}}
					add := func(op ref.Op, in ...int) int {
						p.Nodes = append(p.Nodes, ref.Node{Op: op, In: in})
						return p.NTensors() - 1
					}
					var root int
					switch pi {
					case 0: // h = 2x; r = h + sin(h)
						h := add(ref.Op{K: "Scale", F: 2}, 0)
						s := add(ref.Op{K: "Sin"}, h)
						root = add(ref.Op{K: "Add"}, h, s)
					case 1: // r = sum_along_0(x*x) used twice
						m := add(ref.Op{K: "Mul"}, 0, 0)
						s := add(ref.Op{K: "SumAlong", Dim: 0}, m)
						t := add(ref.Op{K: "Tanh"}, s)
						root = add(ref.Op{K: "Mul"}, s, t)
					case 2: // Concat([x,h]) sliced back, plus x
						h := add(ref.Op{K: "Exp"}, add(ref.Op{K: "Scale", F: 0.1}, 0))
						cc := add(ref.Op{K: "Concat", Dim: 0}, 0, h)
						sl := add(ref.Op{K: "Slice", Index: []ref.Range{{From: L / 2, To: L/2 + L}}}, cc)
						root = add(ref.Op{K: "Mul"}, sl, 0)
					}
					q, r := withWeighting(p, root, 78)
					v := gradCase(q, r, gradOpts{})
					if !v.OK && !v.Skip {
						v.Detail = fmt.Sprintf("length sweep L=%d: %s :: %s", L, describeProgram(q), v.Detail)
					}
					return v
				})
			}
		}
	}
}

/* ---------- C12 / C13 (losses over long batches / many classes) ---------- */

func sweepLossInputs(kind string, L int, variant int) (p, t *ref.T) {
	shape := []int{L}
	if kind == "CE" {
		shape = []int{L, 2}
		if variant == 1 {
			shape = []int{2, L}
		}
	}
	p = enum.Generic(shape, 61, 0.05, 0.95, false)
	t = enum.Generic(shape, 62, 0.05, 0.95, false)
	if variant == 2 { // hard labels
		for i := range t.V {
			t.V[i] = float64((i / 3) % 2)
		}
	}
	return p, t
}

func sweepC12(c *core.Ctx) {
	for _, kind := range []string{"MSE", "BCE", "CE"} {
		for variant := 0; variant < 3; variant++ {
			if variant == 1 && kind != "CE" {
				continue
			}
			for _, L := range sweepLengths(c.Thorough()) {
				kind, variant, L := kind, variant, L
				c.Case(fmt.Sprintf("sweep/%s/v%d/L%d", kind, variant, L), L > 1, func() core.Verdict {
					p, t := sweepLossInputs(kind, L, variant)
					v := c12Case(kind, p, t)
					if !v.OK && !v.Skip && len(v.Detail) > 600 {
						v.Detail = fmt.Sprintf("length sweep %s L=%d variant %d: %s ... %s", kind, L, variant, v.Detail[:200], v.Detail[len(v.Detail)-300:])
					}
					return v
				})
			}
		}
	}
}

func sweepC13(c *core.Ctx) {
	for _, kind := range []string{"MSE", "BCE", "CE"} {
		for variant := 0; variant < 3; variant++ {
			if variant == 1 && kind != "CE" {
				continue
			}
			for _, L := range sweepLengths(c.Thorough()) {
				kind, variant, L := kind, variant, L
				c.Case(fmt.Sprintf("sweep/%s/v%d/L%d", kind, variant, L), L > 1, func() core.Verdict {
					p, t := sweepLossInputs(kind, L, variant)
					v := c13Run(kind, p, t, 0, variant == 0)
					if !v.OK && !v.Skip && len(v.Detail) > 900 {
						v.Detail = fmt.Sprintf("length sweep %s L=%d variant %d: ... %s", kind, L, variant, v.Detail[len(v.Detail)-700:])
					}
					return v
				})
			}
		}
	}
}

/* ---------- C14 / C15 ---------- */

func sweepC14(c *core.Ctx) {
	type fam struct {
		a  actCfg
		sh func(int) []int
	}
	var fams []fam
	for _, a := range []actCfg{{kind: "Relu"}, {kind: "Sigmoid"}, {kind: "Tanh"}, {kind: "LeakyRelu", nilCfg: true}, {kind: "LeakyRelu", m: 1.5}} {
		fams = append(fams, fam{a, shL}, fam{a, shL2})
	}
	fams = append(fams,
		fam{actCfg{kind: "Softmax", dim: 0}, shL}, fam{actCfg{kind: "Softmax", nilCfg: true}, shL},
		fam{actCfg{kind: "Softmax", dim: 1}, sh2L}, fam{actCfg{kind: "Softmax", dim: 0}, shL2},
		fam{actCfg{kind: "Softmax", dim: 1}, shL2}, fam{actCfg{kind: "Softmax", dim: 0}, sh2L})
	for fi, f := range fams {
		for _, L := range sweepLengths(c.Thorough()) {
			fi, f, L := fi, f, L
			c.Case(fmt.Sprintf("sweep/%s/f%d/L%d", f.a, fi, L), L > 1, func() core.Verdict {
				v := c14Case(f.a, gen(f.sh(L), 71))
				if !v.OK && !v.Skip {
					v.Detail = fmt.Sprintf("length sweep L=%d: %s", L, v.Detail)
				}
				return v
			})
		}
	}
}

func sweepC15(c *core.Ctx) {
	type fam struct {
		op ref.Op
		sh func(int) []int
	}
	var fams []fam
	for _, op := range []ref.Op{{K: "Relu"}, {K: "LeakyRelu", F: 0.01}, {K: "LeakyRelu", F: 1.5}, {K: "Sigmoid"}, {K: "TanhAct"}} {
		fams = append(fams, fam{op, shL}, fam{op, shL2})
	}
	fams = append(fams, fam{ref.Op{K: "Softmax", Dim: 0}, shL}, fam{ref.Op{K: "Softmax", Dim: 1}, sh2L}, fam{ref.Op{K: "Softmax", Dim: 0}, shL2}, fam{ref.Op{K: "Softmax", Dim: 1}, shL2})
	for fi, f := range fams {
		for _, L := range sweepLengths(c.Thorough()) {
			fi, f, L := fi, f, L
			c.Case(fmt.Sprintf("sweep/%s/f%d/L%d", f.op, fi, L), L > 1, func() core.Verdict {
				v := c15Run(f.op, gen(f.sh(L), 72), 0, 2)
				if !v.OK && !v.Skip && len(v.Detail) > 900 {
					v.Detail = fmt.Sprintf("length sweep %s L=%d: ... %s", f.op, L, v.Detail[len(v.Detail)-700:])
				}
				return v
			})
		}
	}
}

/* ---------- C16 ---------- */

func sweepC16(c *core.Ctx) {
	dims := func(kind int, L int) (B, D, O int) {
		switch kind {
		case 0:
			return L, 2, 3
		case 1:
			return 2, L, 2
		}
		return 2, 2, L
	}
	for kind := 0; kind < 3; kind++ {
		for _, L := range sweepLengths(c.Thorough()) {
			kind, L := kind, L
			c.Case(fmt.Sprintf("sweep/FC/k%d/L%d", kind, L), L > 1, func() core.Verdict {
				B, D, O := dims(kind, L)
				x := enum.Generic([]int{B, D}, 81, 0.1, 1, true)
				if D > 3 {
					x = ref.Map(x, func(v float64) float64 { return v * 3 / float64(D) })
				}
				w, b := gen([]int{O}, 82), gen([]int{O}, 83)
				if v := applyBoth(ref.Op{K: "FC"}, []*ref.T{x, w, b}, false); !v.OK {
					v.Detail = fmt.Sprintf("length sweep FC batch %d inputs %d outputs %d (forward): %s", B, D, O, v.Detail)
					return v
				}
				p := &ref.Program{Leaves: []*ref.T{x, w, b}, Tracked: []bool{true, true, true}}
				p.Nodes = []ref.Node{{Op: ref.Op{K: "FC"}, In: []int{0, 1, 2}}}
				q, root := withWeighting(p, 3, 84)
				v := gradCase(q, root, gradOpts{allowKF: true})
				if !v.OK && !v.Skip {
					d := v.Detail
					if len(d) > 700 {
						d = d[:700]
					}
					v.Detail = fmt.Sprintf("length sweep FC batch %d inputs %d outputs %d (gradients): %s", B, D, O, d)
				}
				return v
			})
		}
	}
}

/* ---------- C19 ---------- */

func sweepC19(c *core.Ctx) {
	for _, L := range sweepLengths(c.Thorough()) {
		if L <= 64 {
			continue // every (n, k) pair is enumerated there
		}
		L := L
		c.Case(fmt.Sprintf("sweep/n%d", L), true, func() core.Verdict {
			layouts := [][]int{{}, {0}, {L - 1}, {L / 2}, {L - 2, L - 1}, {L - 7, L - 6, L - 5, L - 4, L - 3, L - 2, L - 1}, {0, L / 3, L / 2, 2 * L / 3, L - 1}}
			for li, mism := range layouts {
				p, t := make([]float64, L), make([]float64, L)
				for i := 0; i < L; i++ {
					p[i] = float64(i % 3)
					t[i] = p[i]
				}
				for _, pos := range mism {
					t[pos] = p[pos] + 1
				}
				{
					m := metrics.NewAccuracy()
					ev := c19Ev{Kind: "batch", P: p, T: t}
					if err, _ := c19Apply(m, ev); err != nil {
						return core.Fail("Accumulate of a batch of %d: %v", L, err)
					}
					r, _ := m.Result()
					if exp := float64(L-len(mism)) / float64(L); !accEq(r, exp) {
						return core.Fail("one batch of %d positions with mismatches at %v (layout %d): Result %v, expected %v", L, mism, li, r, exp)
					}
					// the same batch in two halves on one metric
					m2 := metrics.NewAccuracy()
					c19Apply(m2, c19Ev{Kind: "batch", P: p[:L/2], T: t[:L/2]})
					c19Apply(m2, c19Ev{Kind: "batch", P: p[L/2:], T: t[L/2:]})
					if r2, _ := m2.Result(); !accEq(r2, r) {
						return core.Fail("%d positions, mismatches at %v: Result %v as one batch, %v in two halves", L, mism, r, r2)
					}
				}
			}
			return core.Pass()
		})
	}
}

// cumulative totals: ONE metric object whose total passes a count n (defaults
// and every code-derived integer up to 2^21) and keeps accumulating afterwards
func sweepC19Totals(c *core.Ctx) {
	counts := bigCounts(c.Thorough())
	for _, n := range core.CodeInts(1<<20+1, 1<<21) {
		counts = append(counts, n)
	}
	for _, n := range counts {
		n := n
		c.Case(fmt.Sprintf("sweep/total%d", n), true, func() core.Verdict {
			m := metrics.NewAccuracy()
			total, correct := 0, 0
			for bi, size := range []int{n/2 + 3, n/2 + 3, 7, 100, 1, n / 4, 6} {
				p, t := make([]float64, size), make([]float64, size)
				for i := range p {
					p[i] = float64(i % 3)
					t[i] = p[i]
					if (i+bi)%5 < 2 { // 40% mismatches: counts share many common factors
						t[i] = p[i] + 1
					} else {
						correct++
					}
					total++
				}
				if err, _ := c19Apply(m, c19Ev{Kind: "batch", P: p, T: t}); err != nil {
					return core.Fail("batch %d of %d positions: %v", bi, size, err)
				}
				if r, _ := m.Result(); !accEq(r, float64(correct)/float64(total)) {
					return core.Fail("one metric, batches so far %v...: after batch %d (size %d) Result %v, expected %d/%d = %v", []int{n/2 + 3, n/2 + 3, 7, 100, 1, n / 4, 6}[:bi+1], bi, size, r, correct, total, float64(correct)/float64(total))
				}
			}
			return core.Pass()
		})
	}
}

// extremeLabelsC19: label VALUES are arbitrary finite numbers: huge values of equal sign in one
// batch (their sum overflows), the largest finite value, subnormals, negative zero vs zero
// (equal), in every partition of the same data.
func extremeLabelsC19(c *core.Ctx) {
	// (positions 10..12: labels closer than the library's equality tolerance 1e-240 count as equal,
	// as for Eq / Equals, in EVERY partition - also in a batch of one)
	P := []float64{1e308, 1.5e308, -1.7e308, math.MaxFloat64, 5e-324, 0, 1e308, -1e308, 2, 1.7e308, 1e-300, -4e-280, 3e-250}
	T := []float64{1e308, 1.5e308, -1.7e308, math.MaxFloat64, 5e-324, math.Copysign(0, -1), 1.1e308, 1e308, 2, 1.7e308, 0, 4e-280, 0}
	// positions whose labels are closer than 1e-240 may count as equal (the library's tolerance for
	// Eq) or as different (exact comparison): both are readings of "equal"; what IS demanded is that
	// every partition gives the same answer
	wantExact, wantTol := 0, 0
	for i := range P {
		if P[i] == T[i] {
			wantExact++
		}
		if math.Abs(P[i]-T[i]) <= ref.EqTolerance {
			wantTol++
		}
	}
	n := len(P)
	whole := func() float64 {
		m := metrics.NewAccuracy()
		c19Apply(m, c19Ev{Kind: "batch", P: P, T: T})
		r, _ := m.Result()
		return r
	}
	for cut1 := 0; cut1 <= n; cut1++ {
		for cut2 := cut1; cut2 <= n; cut2++ {
			cut1, cut2 := cut1, cut2
			c.Case(fmt.Sprintf("extreme/%d,%d", cut1, cut2), true, func() core.Verdict {
				ref0 := whole()
				if !accEq(ref0, float64(wantExact)/float64(n)) && !accEq(ref0, float64(wantTol)/float64(n)) {
					return core.Fail("labels %v vs %v as ONE batch: Result %v, expected %d/%d (or %d/%d if labels closer than 1e-240 count as equal)", P, T, ref0, wantExact, n, wantTol, n)
				}
				m := metrics.NewAccuracy()
				for _, r := range [][2]int{{0, cut1}, {cut1, cut2}, {cut2, n}} {
					if r[0] == r[1] {
						continue
					}
					if err, _ := c19Apply(m, c19Ev{Kind: "batch", P: P[r[0]:r[1]], T: T[r[0]:r[1]]}); err != nil {
						return core.Fail("a valid batch of finite labels %v / %v was rejected: %v", P[r[0]:r[1]], T[r[0]:r[1]], err)
					}
				}
				if r, _ := m.Result(); !accEq(r, ref0) {
					return core.Fail("labels %v vs %v in batches cut at %d and %d: Result %v, but %v as one batch (the result depends on how the data were split)", P, T, cut1, cut2, r, ref0)
				}
				return core.Pass()
			})
		}
	}
}

// accEq: two accuracy values agree (1e-12: correct/total computed in another order differs by an ulp)
func accEq(a, b float64) bool { return math.Abs(a-b) <= 1e-12 }

// producedC19: predictions / targets that are results of operations (every
// producer of the composition cases, comparison results, tracked tensors), and
// the same tensor object as prediction AND target.
func producedC19(c *core.Ctx) {
	for _, n := range []int{1, 4, 6} {
		for _, pr := range producersOf([]int{n}) {
			for role := 0; role < 3; role++ {
				n, pr, role := n, pr, role
				c.Case(fmt.Sprintf("produced/%s/n%d/role%d", pr.name, n, role), true, func() core.Verdict {
					vals, _ := pr.prog.Forward()
					y := vals[len(vals)-1]
					ts, failed, err := rt.RunProgram(pr.prog)
					if err != nil {
						return core.Fail("producer %s node %d: %v", pr.name, failed, err)
					}
					ry := ts[len(ts)-1]
					y = rt.Read(ry) // labels are built from what the library actually produced (another rounding of a product is as good)
					other := y.Clone()
					want := 0
					for i := range other.V {
						if i%2 == 1 {
							other.V[i] += 1
						} else {
							want++
						}
					}
					m := metrics.NewAccuracy()
					var aerr error
					switch role {
					case 0:
						aerr = m.Accumulate(ry, rt.Make(other, false))
					case 1:
						aerr = m.Accumulate(rt.Make(other, true), ry)
					default: // the same object in both roles: everything matches
						aerr = m.Accumulate(ry, ry)
						want = n
					}
					if aerr != nil {
						return core.Fail("Accumulate with a tensor produced by %s (role %d): %v", pr.name, role, aerr)
					}
					if r, _ := m.Result(); !accEq(r, float64(want)/float64(n)) {
						return core.Fail("Accumulate with a tensor produced by %s (values %v, role %d: 0 prediction, 1 target, 2 both): Result %v, expected %d/%d", pr.name, y.V, role, r, want, n)
					}
					if ok, msg := core.ExactEq(rt.Read(ry), y); !ok {
						return core.Fail("Accumulate changed the tensor produced by %s: %s", pr.name, msg)
					}
					return core.Pass()
				})
			}
		}
		// comparison results as labels
		n := n
		c.Case(fmt.Sprintf("produced/comparison/n%d", n), true, func() core.Verdict {
			a := enum.Generic([]int{n}, 41, 0.5, 3, true)
			b := a.Clone()
			want := 0
			for i := range b.V {
				if i%3 == 0 {
					b.V[i] += 1
				}
			}
			ra, rb := rt.Make(a, false), rt.Make(b, false)
			gt, err1 := rb.Gt(ra) // 1 where b > a
			ne, err2 := ra.Ne(rb) // the same labels
			eq, err3 := ra.Eq(rb) // the complement
			if err1 != nil || err2 != nil || err3 != nil {
				return core.Fail("comparisons: %v %v %v", err1, err2, err3)
			}
			m := metrics.NewAccuracy()
			if err := m.Accumulate(gt, ne); err != nil {
				return core.Fail("Accumulate(Gt result, Ne result): %v", err)
			}
			if r, _ := m.Result(); !accEq(r, 1) {
				return core.Fail("Accumulate(Gt result, Ne result) with identical labels: Result %v, expected 1", r)
			}
			if err := m.Accumulate(gt, eq); err != nil {
				return core.Fail("Accumulate(Gt result, Eq result): %v", err)
			}
			_ = want
			if r, _ := m.Result(); !accEq(r, 0.5) {
				return core.Fail("after a second batch of complementary labels: Result %v, expected 0.5", r)
			}
			return core.Pass()
		})
	}
}

var _ = math.Abs

/* ---------- operand counts (n-ary Concat) ---------- */

// concatN: k tensors of shape piece, concatenated along dim.
func concatNInputs(k int, piece []int, labels bool) []*ref.T {
	in := make([]*ref.T, k)
	for i := range in {
		if labels {
			in[i] = enum.Labels(piece, float64(1000*(i+1)))
		} else {
			in[i] = gen(piece, uint64(200+i))
		}
	}
	return in
}

func sweepConcatN(c *core.Ctx, grad bool) {
	type lay struct {
		piece []int
		dim   int
	}
	for li, l := range []lay{{[]int{2}, 0}, {[]int{2, 1}, 1}, {[]int{1, 2, 2}, 0}, {[]int{2, 3}, 1}} {
		for _, k := range operandCounts(c.Thorough()) {
			li, l, k := li, l, k
			c.Case(fmt.Sprintf("sweep/ConcatN/l%d/k%d", li, k), true, func() core.Verdict {
				op := ref.Op{K: "Concat", Dim: l.dim}
				if !grad {
					v := applyBoth(op, concatNInputs(k, l.piece, true), true)
					if !v.OK && !v.Skip {
						d := v.Detail
						if len(d) > 600 {
							d = d[:600]
						}
						v.Detail = fmt.Sprintf("Concat of %d tensors of shape %v along %d: %s", k, l.piece, l.dim, d)
					}
					return v
				}
				// gradients: three tracking patterns (all, only the last, every third)
				for pat := 0; pat < 3; pat++ {
					in := concatNInputs(k, l.piece, false)
					p := &ref.Program{Leaves: in}
					ids := make([]int, k)
					for i := range in {
						p.Tracked = append(p.Tracked, pat == 0 || (pat == 1 && i == k-1) || (pat == 2 && i%3 == 2))
						ids[i] = i
					}
					p.Nodes = []ref.Node{{Op: op, In: ids}}
					q, root := withWeighting(p, k, 91)
					v := gradCase(q, root, gradOpts{})
					if !v.OK && !v.Skip {
						d := v.Detail
						if len(d) > 600 {
							d = d[:600]
						}
						return core.Fail("Concat of %d tensors of shape %v along %d, tracking pattern %d (0 all, 1 only the last, 2 every third): %s", k, l.piece, l.dim, pat, d)
					}
				}
				return core.Pass()
			})
		}
	}
}
