package main

import (
	"fmt"
	"runtime"
	"time"

	"github.com/sahandsafizadeh/qeep/component/metrics"
	"qmc/core"
	"qmc/enum"
	"qmc/ref"
	"qmc/rt"
)

/*
Soak histories: every other case builds its objects, runs a handful of calls
and ends. State that depends on the HISTORY OF THE PROCESS - a memo keyed by an
address that the garbage collector hands to a later object, a table that is
right until its N-th entry, something initialised by whichever operation ran
first - needs a long run in one process with collections in between. Each soak
case runs several hundred steps (thorough: several thousand) of a rotating
list of small configurations of the check's own alphabet, with FRESH operands
per step, ONE set of component objects for the whole run, and runtime.GC()
every 8 steps; every step is compared with the reference model as usual.
Two orders of the rotation are run (ascending, and a stride), so that "which
configuration came first" differs.
*/

func soakSteps(c *core.Ctx) int {
	if c.Thorough() {
		return 4000
	}
	return 640
}

func soakOpCases() []OpCase {
	var out []OpCase
	forEachOpCase(opCaseOpts{shapes: [][]int{{3}, {2, 3}, {2, 1, 2}}, maxIndexRank: 1, concatSizes: []int{1, 2}, concat3: true}, func(oc OpCase) {
		if oc.Op.K == "Pow" && oc.Op.F != 2 && oc.Op.F != 0.5 {
			return
		}
		if oc.Op.K == "Scale" && oc.Op.F != 2 {
			return
		}
		out = append(out, oc)
	})
	return out
}

// soak runs the step function under the soak regime as ONE case.
func soak(c *core.Ctx, id string, n int, step func(k, i int) core.Verdict) {
	for order := 0; order < 2; order++ {
		order := order
		saved := c.CaseTimeout
		c.CaseTimeout = 30 * time.Minute // one case = one long history
		defer func() { c.CaseTimeout = saved }()
		c.Case(fmt.Sprintf("soak/%s/order%d", id, order), true, func() core.Verdict {
			rt.ObjCache = map[string]any{}
			defer func() { rt.ObjCache = nil }()
			steps := soakSteps(c)
			for k := 0; k < steps; k++ {
				i := k % n
				if order == 1 {
					i = (k*7 + 3) % n
				}
				v := step(k, i)
				if v.KF != "" {
					continue // the listed finding is reported by the small-scope cases
				}
				if !v.OK && !v.Skip {
					d := v.Detail
					if len(d) > 900 {
						d = d[:900]
					}
					return core.Fail("step %d of a %d-step history in one process (fresh operands per step, one set of component objects, runtime.GC() every 8 steps): %s", k+1, steps, d)
				}
				if k%8 == 7 {
					runtime.GC()
				}
			}
			return core.Pass()
		})
	}
}

// soakForward: forward values of the op cases selected by keep.
func soakForward(c *core.Ctx, id string, keep func(oc OpCase) bool, exact bool) {
	var ocs []OpCase
	for _, oc := range soakOpCases() {
		if keep(oc) {
			ocs = append(ocs, oc)
		}
	}
	if len(ocs) == 0 {
		return
	}
	soak(c, id, len(ocs), func(k, i int) core.Verdict {
		oc := ocs[i]
		v := applyBoth(oc.Op, genInputs(oc.Op, oc.In, uint64(3000+k)), exact)
		if !v.OK && !v.Skip {
			v.Detail = oc.ID() + ": " + v.Detail
		}
		return v
	})
}

// soakGrad: gradients of one-node programs (tracked subset rotates with the step).
func soakGrad(c *core.Ctx, id string, keep func(oc OpCase) bool, o gradOpts) {
	var ocs []OpCase
	for _, oc := range soakOpCases() {
		if keep(oc) {
			ocs = append(ocs, oc)
		}
	}
	if len(ocs) == 0 {
		return
	}
	soak(c, id, len(ocs), func(k, i int) core.Verdict {
		oc := ocs[i]
		in := genInputs(oc.Op, oc.In, uint64(4000+k))
		p := &ref.Program{Leaves: in}
		ids := make([]int, len(in))
		mask := 1 + (k/len(ocs))%((1<<len(in))-1)
		for j := range in {
			p.Tracked = append(p.Tracked, mask&(1<<j) != 0)
			ids[j] = j
		}
		p.Nodes = []ref.Node{{Op: oc.Op, In: ids}}
		q, root := withWeighting(p, len(in), uint64(50+k))
		v := gradCase(q, root, o)
		if !v.OK && !v.Skip {
			v.Detail = fmt.Sprintf("%s tracked mask %b: %s", oc.ID(), mask, v.Detail)
		}
		return v
	})
}

func isKind(ks ...string) func(oc OpCase) bool {
	return func(oc OpCase) bool {
		for _, k := range ks {
			if oc.Op.K == k {
				return true
			}
		}
		return false
	}
}

func soakC01(c *core.Ctx) {
	// two-node reconverging programs over the op alphabet
	ocs := soakOpCases()
	soak(c, "dag", len(ocs), func(k, i int) core.Verdict {
		oc := ocs[i]
		if len(oc.In) != 1 {
			return core.Skip()
		}
		x := genInputs(oc.Op, oc.In, uint64(5000+k))
		p := &ref.Program{Leaves: x, Tracked: []bool{true}}
		p.Nodes = []ref.Node{{Op: ref.Op{K: "Scale", F: 0.5}, In: []int{0}}, {Op: oc.Op, In: []int{1}}, {Op: oc.Op, In: []int{0}}, {Op: ref.Op{K: "Add"}, In: []int{2, 3}}}
		if _, ok := p.Forward(); !ok {
			return core.Skip()
		}
		q, root := withWeighting(p, 4, uint64(60+k))
		v := gradCase(q, root, gradOpts{})
		if !v.OK && !v.Skip {
			v.Detail = describeProgram(q) + " :: " + v.Detail
		}
		return v
	})
}

func soakC02(c *core.Ctx) {
	soakGrad(c, "rules", func(oc OpCase) bool { return true }, gradOpts{})
	soakGrad(c, "matmul", isKind("MatMul", "Dot", "Transpose"), gradOpts{})
}
func soakC03(c *core.Ctx) {
	soakForward(c, "elementwise", isKind("Scale", "Pow", "Exp", "Log", "Sin", "Cos", "Tan", "Sinh", "Cosh", "Tanh", "Add", "Sub", "Mul", "Div", "ElMax", "ElMin"), false)
}
func soakC04(c *core.Ctx) { soakForward(c, "linalg", isKind("MatMul", "Dot", "Transpose"), false) }
func soakC05(c *core.Ctx) { soakForward(c, "along", isKind(ref.AlongKinds...), false) }
func soakC06(c *core.Ctx) {
	soakForward(c, "move", isKind("Slice", "Patch", "Concat", "Reshape", "Flatten", "UnSqueeze", "Squeeze"), true)
}

// components: one object per kind for the whole history
func soakComponents(c *core.Ctx, id string, ops []ref.Op, shapesFor func(op ref.Op, k int) [][]int, grad bool, o gradOpts) {
	soak(c, id, len(ops), func(k, i int) core.Verdict {
		op := ops[i]
		shapes := shapesFor(op, k)
		in := make([]*ref.T, len(shapes))
		p := &ref.Program{}
		ids := make([]int, len(shapes))
		for j, s := range shapes {
			switch {
			case op.K == "BCE" || op.K == "CE" || (op.K == "MSE" && j == 1):
				in[j] = enum.Generic(s, uint64(6000+k*3+j), 0.05, 0.95, false)
			default:
				in[j] = enum.Generic(s, uint64(6000+k*3+j), 0.2, 1.5, true)
			}
			p.Leaves = append(p.Leaves, in[j])
			p.Tracked = append(p.Tracked, grad && (j == 0 || op.K == "FC"))
			ids[j] = j
		}
		p.Nodes = []ref.Node{{Op: op, In: ids}}
		if !grad {
			v := forwardCase(p)
			if !v.OK && !v.Skip {
				v.Detail = fmt.Sprintf("%s on %v: %s", op, shapes, v.Detail)
			}
			return v
		}
		q, root := withWeighting(p, len(in), uint64(70+k))
		v := gradCase(q, root, o)
		if !v.OK && !v.Skip {
			v.Detail = fmt.Sprintf("%s on %v: %s", op, shapes, v.Detail)
		}
		return v
	})
}

var soakActs = []ref.Op{{K: "Relu"}, {K: "LeakyRelu", F: 0.3}, {K: "Sigmoid"}, {K: "TanhAct"}, {K: "Softmax", Dim: 0}, {K: "Softmax", Dim: 1}}
var soakLosses = []ref.Op{{K: "MSE"}, {K: "BCE"}, {K: "CE"}}

func actShapes(op ref.Op, k int) [][]int {
	return [][]int{[][]int{{4, 5}, {2, 3}, {4, 5}, {3, 3}}[k%4]}
}
func lossShapes(op ref.Op, k int) [][]int {
	if op.K == "CE" {
		s := [][]int{{4, 3}, {2, 2}, {4, 3}}[k%3]
		return [][]int{s, s}
	}
	s := [][]int{{4}, {7}, {4}}[k%3]
	return [][]int{s, s}
}
func fcShapes(op ref.Op, k int) [][]int {
	return [][]int{{[]int{4, 1, 4, 2}[k%4], 5}, {3}, {3}}
}

func soakC12(c *core.Ctx) { soakComponents(c, "losses", soakLosses, lossShapes, false, gradOpts{}) }
func soakC13(c *core.Ctx) {
	soakComponents(c, "losses", soakLosses, lossShapes, true, gradOpts{elementwise: true})
}
func soakC14(c *core.Ctx) { soakComponents(c, "activations", soakActs, actShapes, false, gradOpts{}) }
func soakC15(c *core.Ctx) {
	soakComponents(c, "activations", soakActs, actShapes, true, gradOpts{allowKF: true})
}
func soakC16(c *core.Ctx) {
	soakComponents(c, "fc/forward", []ref.Op{{K: "FC"}}, fcShapes, false, gradOpts{})
	soakComponents(c, "fc/gradients", []ref.Op{{K: "FC"}}, fcShapes, true, gradOpts{allowKF: true})
}

func soakC17(c *core.Ctx) {
	shapes := [][]int{{3}, {2, 2}, {4}, {1, 3}, {}}
	soak(c, "sgd", len(shapes), func(k, i int) core.Verdict {
		v := c17UpdateCase(shapes[i], c17LRs[k%len(c17LRs)], k%5)
		if !v.OK && !v.Skip {
			v.Detail = fmt.Sprintf("weight shape %v: %s", shapes[i], v.Detail)
		}
		return v
	})
}

func soakC19(c *core.Ctx) {
	// ONE metric per history; total and correct follow the model through hundreds of batches
	for order := 0; order < 2; order++ {
		order := order
		c.Case(fmt.Sprintf("soak/accuracy/order%d", order), true, func() core.Verdict {
			m := metrics.NewAccuracy()
			total, correct := 0, 0
			steps := soakSteps(c)
			for k := 0; k < steps; k++ {
				n := 1 + (k*(3+order))%9
				p, t := make([]float64, n), make([]float64, n)
				for i := range p {
					p[i] = float64((i + k) % 3)
					t[i] = float64((i*(k+1) + order) % 3)
					total++
					if p[i] == t[i] {
						correct++
					}
				}
				if err, _ := c19Apply(m, c19Ev{Kind: "batch", P: p, T: t}); err != nil {
					return core.Fail("batch %d: %v", k, err)
				}
				if r, _ := m.Result(); !accEq(r, float64(correct)/float64(total)) {
					return core.Fail("after %d batches on one metric (runtime.GC() every 8): Result %v, expected %d/%d", k+1, r, correct, total)
				}
				if k%8 == 7 {
					runtime.GC()
				}
			}
			return core.Pass()
		})
	}
}
