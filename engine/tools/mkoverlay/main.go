// mkoverlay writes the `go build -overlay` file with which the checks are
// built: the sync / sync/atomic shim packages are mapped into the repository's
// module as <module>/verifsync[/atomic], and every non-test file of the
// repository that imports "sync" or "sync/atomic", or contains a go statement,
// is replaced by a rewritten copy:
//
//	import "sync"         ->  import sync "<module>/verifsync"
//	import "sync/atomic"  ->  import atomic "<module>/verifsync/atomic"
//	go f(a, b)            ->  { t0, t1 := a, b; verifsyncgo.Go(func() { f(t0, t1) }) }
//
// (function value and arguments are evaluated at the go statement, as the
// language defines). The repository itself is never modified.
//
// usage: mkoverlay -repo <dir> -shim <dir> -out <dir> [-nogo]
package main

import (
	"bytes"
	"encoding/json"
	"flag"
	"fmt"
	"go/ast"
	"go/parser"
	"go/printer"
	"go/token"
	"os"
	"path/filepath"
	"strconv"
	"strings"
)

const modPath = "github.com/sahandsafizadeh/qeep"

func main() {
	repo := flag.String("repo", "/repo", "")
	shim := flag.String("shim", "", "")
	out := flag.String("out", "", "")
	nogo := flag.Bool("nogo", false, "do not rewrite go statements")
	flag.Parse()
	replace := map[string]string{
		filepath.Join(*repo, "verifsync", "sync.go"):             filepath.Join(*shim, "sync", "sync.go"),
		filepath.Join(*repo, "verifsync", "atomic", "atomic.go"): filepath.Join(*shim, "sync", "atomic", "atomic.go"),
	}
	os.RemoveAll(filepath.Join(*out, "files"))
	os.MkdirAll(*out, 0o755)
	type stat struct {
		File            string `json:"file"`
		SyncImports     int    `json:"sync_imports"`
		GoStatements    int    `json:"go_statements"`
		ChannelOps      int    `json:"channel_operations_not_intercepted"`
		GoNotIntercepte int    `json:"go_statements_not_intercepted"`
	}
	var stats []stat
	// package-level constant names per directory (arguments that are constants stay inline)
	consts := map[string]map[string]bool{}
	var files []string
	filepath.Walk(*repo, func(p string, info os.FileInfo, err error) error {
		if err != nil {
			return nil
		}
		if info.IsDir() {
			n := info.Name()
			if p != *repo && (strings.HasPrefix(n, ".") || strings.HasPrefix(n, "_") || n == "testdata" || n == "verifsync" || n == "vendor") {
				return filepath.SkipDir
			}
			return nil
		}
		if strings.HasSuffix(p, ".go") && !strings.HasSuffix(p, "_test.go") {
			files = append(files, p)
		}
		return nil
	})
	fset := token.NewFileSet()
	parsed := map[string]*ast.File{}
	for _, p := range files {
		f, err := parser.ParseFile(fset, p, nil, parser.ParseComments)
		if err != nil {
			continue // the build reports it
		}
		parsed[p] = f
		dir := filepath.Dir(p)
		if consts[dir] == nil {
			consts[dir] = map[string]bool{}
		}
		for _, d := range f.Decls {
			if gd, ok := d.(*ast.GenDecl); ok && gd.Tok == token.CONST {
				for _, s := range gd.Specs {
					for _, n := range s.(*ast.ValueSpec).Names {
						consts[dir][n.Name] = true
					}
				}
			}
		}
	}
	for _, p := range files {
		f := parsed[p]
		if f == nil {
			continue
		}
		st := stat{File: strings.TrimPrefix(p, *repo+"/")}
		pkgNames := map[string]bool{}
		for _, im := range f.Imports {
			path, _ := strconv.Unquote(im.Path.Value)
			name := filepath.Base(path)
			if im.Name != nil {
				name = im.Name.Name
			}
			pkgNames[name] = true
			switch path {
			case "sync":
				if im.Name == nil {
					im.Name = ast.NewIdent("sync")
				}
				im.Path.Value = strconv.Quote(modPath + "/verifsync")
				st.SyncImports++
			case "sync/atomic":
				if im.Name == nil {
					im.Name = ast.NewIdent("atomic")
				}
				im.Path.Value = strconv.Quote(modPath + "/verifsync/atomic")
				st.SyncImports++
			}
		}
		nTemp := 0
		var rewriteList func(list []ast.Stmt)
		rewriteStmt := func(s ast.Stmt) ast.Stmt {
			g, ok := s.(*ast.GoStmt)
			if !ok {
				return s
			}
			st.GoStatements++
			if *nogo {
				st.GoNotIntercepte++
				return s
			}
			call := g.Call
			var lhs []ast.Expr
			var rhs []ast.Expr
			temp := func(e ast.Expr) ast.Expr {
				nTemp++
				id := ast.NewIdent(fmt.Sprintf("verifGoArg%d", nTemp))
				lhs = append(lhs, id)
				rhs = append(rhs, e)
				return ast.NewIdent(id.Name)
			}
			inlineOK := func(e ast.Expr) bool {
				switch v := e.(type) {
				case *ast.BasicLit, *ast.FuncLit:
					return true
				case *ast.Ident:
					return v.Name == "nil" || v.Name == "true" || v.Name == "false" || consts[filepath.Dir(p)][v.Name]
				}
				return false
			}
			fun := call.Fun
			switch v := fun.(type) {
			case *ast.FuncLit, *ast.Ident:
				// closure created in the new thread captures the same variables; a named function is not re-bound
			case *ast.SelectorExpr:
				if x, ok := v.X.(*ast.Ident); !(ok && pkgNames[x.Name]) {
					fun = temp(fun) // method value: receiver is evaluated at the go statement
				}
			default:
				fun = temp(fun)
			}
			args := make([]ast.Expr, len(call.Args))
			for i, a := range call.Args {
				if inlineOK(a) {
					args[i] = a
				} else {
					args[i] = temp(a)
				}
			}
			newCall := &ast.CallExpr{Fun: fun, Args: args, Ellipsis: call.Ellipsis}
			if call.Ellipsis == token.NoPos {
				newCall.Ellipsis = token.NoPos
			} else {
				newCall.Ellipsis = 1
			}
			spawn := &ast.ExprStmt{X: &ast.CallExpr{
				Fun:  &ast.SelectorExpr{X: ast.NewIdent("verifsyncgo"), Sel: ast.NewIdent("Go")},
				Args: []ast.Expr{&ast.FuncLit{Type: &ast.FuncType{Params: &ast.FieldList{}}, Body: &ast.BlockStmt{List: []ast.Stmt{&ast.ExprStmt{X: newCall}}}}},
			}}
			blk := &ast.BlockStmt{}
			if len(lhs) > 0 {
				blk.List = append(blk.List, &ast.AssignStmt{Lhs: lhs, Tok: token.DEFINE, Rhs: rhs})
			}
			blk.List = append(blk.List, spawn)
			return blk
		}
		rewriteList = func(list []ast.Stmt) {
			for i := range list {
				list[i] = rewriteStmt(list[i])
			}
		}
		ast.Inspect(f, func(n ast.Node) bool {
			switch v := n.(type) {
			case *ast.BlockStmt:
				rewriteList(v.List)
			case *ast.CaseClause:
				rewriteList(v.Body)
			case *ast.CommClause:
				rewriteList(v.Body)
				st.ChannelOps++
			case *ast.LabeledStmt:
				v.Stmt = rewriteStmt(v.Stmt)
			case *ast.SendStmt:
				st.ChannelOps++
			case *ast.UnaryExpr:
				if v.Op == token.ARROW {
					st.ChannelOps++
				}
			case *ast.IfStmt:
				// bodies are BlockStmts; else may be a single go statement only inside a block
			}
			return true
		})
		if st.SyncImports == 0 && st.GoStatements == 0 {
			if st.ChannelOps > 0 {
				stats = append(stats, st)
			}
			continue
		}
		var buf bytes.Buffer
		if err := (&printer.Config{Mode: printer.UseSpaces | printer.TabIndent, Tabwidth: 8}).Fprint(&buf, fset, f); err != nil {
			fmt.Fprintln(os.Stderr, "mkoverlay:", p, err)
			os.Exit(1)
		}
		if st.GoStatements > 0 && !*nogo {
			// the import for Go(): a separate import declaration right after the package clause
			src := buf.String()
			lines := strings.SplitAfter(src, "\n")
			done := false
			for i, l := range lines {
				if strings.HasPrefix(l, "package ") {
					lines[i] = l + "\nimport verifsyncgo " + strconv.Quote(modPath+"/verifsync") + "\n"
					done = true
					break
				}
			}
			if !done {
				fmt.Fprintln(os.Stderr, "mkoverlay: no package clause in", p)
				os.Exit(1)
			}
			buf.Reset()
			buf.WriteString(strings.Join(lines, ""))
		}
		dst := filepath.Join(*out, "files", st.File)
		os.MkdirAll(filepath.Dir(dst), 0o755)
		if err := os.WriteFile(dst, buf.Bytes(), 0o644); err != nil {
			fmt.Fprintln(os.Stderr, "mkoverlay:", err)
			os.Exit(1)
		}
		replace[p] = dst
		stats = append(stats, st)
	}
	js, _ := json.MarshalIndent(map[string]any{"Replace": replace}, "", " ")
	if err := os.WriteFile(filepath.Join(*out, "overlay.json"), js, 0o644); err != nil {
		fmt.Fprintln(os.Stderr, "mkoverlay:", err)
		os.Exit(1)
	}
	mode := "sync+go"
	if *nogo {
		mode = "sync"
	}
	js, _ = json.MarshalIndent(map[string]any{"mode": mode, "files_scanned": len(files), "files": stats}, "", " ")
	os.WriteFile(filepath.Join(*out, "overlay.stats.json"), js, 0o644)
}
