// Package enum holds the deterministic, simplest-first generators of the
// bounded configuration spaces.
package enum

import (
	"math"
	"sort"

	"qmc/ref"
)

// Shapes returns all shapes with rank <= maxRank and sizes from the set,
// ordered by rank and then lexicographically (simplest first).
func Shapes(maxRank int, sizes []int) [][]int {
	out := [][]int{{}}
	level := [][]int{{}}
	for r := 1; r <= maxRank; r++ {
		var next [][]int
		for _, s := range level {
			for _, d := range sizes {
				next = append(next, append(ref.CopyShape(s), d))
			}
		}
		out = append(out, next...)
		level = next
	}
	return out
}

func key(s []int) string {
	b := make([]byte, 0, len(s)*2)
	for _, d := range s {
		b = append(b, byte('0'+d), ',')
	}
	return string(b)
}

func dedup(ss [][]int) [][]int {
	seen := map[string]bool{}
	var out [][]int
	for _, s := range ss {
		k := key(s)
		if !seen[k] {
			seen[k] = true
			out = append(out, s)
		}
	}
	return out
}

// ShapeSet is the standard shape set of a tier (DESIGN §3.2):
// quick: S(4,{1,2,3}); thorough: S(5,{1,2,3}) + S(6,{1,2}) + rank-6 shapes over
// {1,2} with exactly one dimension replaced by 3.
func ShapeSet(thorough bool) [][]int {
	if !thorough {
		return Shapes(4, []int{1, 2, 3})
	}
	out := Shapes(5, []int{1, 2, 3})
	if Deep {
		// thorough tier only (DESIGN 9.11): sizes 4 and 5 in every position of the lower ranks
		out = append(out, Shapes(4, []int{1, 2, 3, 4})...)
		out = append(out, Shapes(3, []int{1, 2, 3, 4, 5})...)
		out = append(out, Shapes(2, []int{1, 2, 3, 4, 5, 6, 7, 8})...)
	}
	out = append(out, Shapes(6, []int{1, 2})...)
	for _, s := range Shapes(6, []int{1, 2}) {
		if len(s) != 6 {
			continue
		}
		for i := 0; i < 6; i++ {
			t := ref.CopyShape(s)
			t[i] = 3
			out = append(out, t)
		}
	}
	out = dedup(out)
	sort.SliceStable(out, func(i, j int) bool { return len(out[i]) < len(out[j]) })
	return out
}

// SmallShapeSet: used where two or three shapes are combined.
func SmallShapeSet(thorough bool) [][]int {
	if !thorough {
		return Shapes(3, []int{1, 2, 3})
	}
	if Deep {
		return dedup(append(Shapes(4, []int{1, 2, 3}), Shapes(3, []int{1, 2, 3, 4})...))
	}
	return Shapes(4, []int{1, 2, 3})
}

// Deep is set for the thorough tier: the shape sets then also contain sizes 4..8 in the lower ranks.
var Deep bool

// BroadcastSources returns every shape that broadcasts to target: any number
// of leading dimensions dropped, every kept dimension either equal or 1.
func BroadcastSources(target []int) [][]int {
	var out [][]int
	n := len(target)
	for drop := n; drop >= 0; drop-- {
		kept := target[drop:]
		var rec func(i int, cur []int)
		rec = func(i int, cur []int) {
			if i == len(kept) {
				out = append(out, ref.CopyShape(cur))
				return
			}
			if kept[i] != 1 {
				rec(i+1, append(cur, 1))
			}
			rec(i+1, append(cur, kept[i]))
		}
		rec(0, nil)
	}
	return dedup(out)
}

// BroadcastPairs returns all (A,B) with broadcast(A,B) == target exactly.
func BroadcastPairs(target []int) [][2][]int {
	srcs := BroadcastSources(target)
	var out [][2][]int
	for _, a := range srcs {
		for _, b := range srcs {
			if r, ok := ref.BroadcastShape(a, b); ok && ref.SameShape(r, target) {
				out = append(out, [2][]int{a, b})
			}
		}
	}
	return out
}

// RangesOfDim: every explicit half-open range inside [0,d], plus the
// whole-dimension form {0,0} (first).
func RangesOfDim(d int) []ref.Range {
	out := []ref.Range{{From: 0, To: 0}}
	for w := 1; w <= d; w++ {
		for f := 0; f+w <= d; f++ {
			out = append(out, ref.Range{From: f, To: f + w})
		}
	}
	return out
}

// IndexLists: every valid []Range for dims, of every length 0..rank, mixing
// explicit, whole ({0,0}) and omitted (short list) forms. nil is included as
// the length-0 list.
func IndexLists(dims []int) [][]ref.Range {
	out := [][]ref.Range{nil}
	level := [][]ref.Range{nil}
	for i := 0; i < len(dims); i++ {
		var next [][]ref.Range
		for _, pre := range level {
			for _, r := range RangesOfDim(dims[i]) {
				l := append(append([]ref.Range{}, pre...), r)
				next = append(next, l)
			}
		}
		out = append(out, next...)
		level = next
	}
	return out
}

// PatchIndexLists: every valid index list for patching a source of shape src
// into dst: for each dimension covered by the list either {0,0} or an
// explicit range of exactly the source's size at every position.
func PatchIndexLists(src, dst []int) [][]ref.Range {
	out := [][]ref.Range{nil}
	level := [][]ref.Range{nil}
	for i := 0; i < len(dst); i++ {
		var next [][]ref.Range
		for _, pre := range level {
			opts := []ref.Range{{From: 0, To: 0}}
			for f := 0; f+src[i] <= dst[i]; f++ {
				opts = append(opts, ref.Range{From: f, To: f + src[i]})
			}
			for _, r := range opts {
				next = append(next, append(append([]ref.Range{}, pre...), r))
			}
		}
		out = append(out, next...)
		level = next
	}
	return out
}

// SubShapes: all shapes s with the same rank and 1 <= s[i] <= dst[i].
func SubShapes(dst []int) [][]int {
	out := [][]int{{}}
	for i := range dst {
		var next [][]int
		for _, pre := range out {
			for d := 1; d <= dst[i]; d++ {
				next = append(next, append(ref.CopyShape(pre), d))
			}
		}
		out = next
	}
	return out
}

// SameCountShapes: all shapes of the set with exactly n elements.
func SameCountShapes(set [][]int, n int) [][]int {
	var out [][]int
	for _, s := range set {
		if ref.Size(s) == n {
			out = append(out, s)
		}
	}
	return out
}

/* ---------- values ---------- */

// Labels fills a tensor with the all-distinct values base+1 .. base+N.
func Labels(shape []int, base float64) *ref.T {
	t := ref.New(shape)
	for i := range t.V {
		t.V[i] = base + float64(i+1)
	}
	return t
}

func mix(x uint64) uint64 {
	x ^= x >> 33
	x *= 0xff51afd7ed558ccd
	x ^= x >> 33
	x *= 0xc4ceb9fe1a85ec53
	x ^= x >> 33
	return x
}

// SeedMix perturbs the generic value generator (set from VERIF_SEED; 0 for the
// default seed 1). The enumerated configuration space is the same for every
// seed; only the irregular values change.
var SeedMix uint64

// SetSeed derives SeedMix from the run's seed.
func SetSeed(seed int64) {
	if seed == 1 {
		SeedMix = 0
		return
	}
	SeedMix = mix(uint64(seed) * 0x9e3779b97f4a7c15)
}

// Generic fills a tensor with irregular, pairwise distinct values whose
// absolute values lie in [lo,hi] and are separated by at least (hi-lo)/(4N);
// signs are mixed when neg is set. Different salts give independent
// assignments. The values are a deterministic function of (shape, salt).
func Generic(shape []int, salt uint64, lo, hi float64, neg bool) *ref.T {
	salt ^= SeedMix
	t := ref.New(shape)
	n := len(t.V)
	if n == 0 {
		return t
	}
	// a salted permutation of a jittered grid
	perm := make([]int, n)
	for i := range perm {
		perm[i] = i
	}
	sort.SliceStable(perm, func(a, b int) bool {
		return mix(uint64(perm[a])*0x9e3779b97f4a7c15+salt) < mix(uint64(perm[b])*0x9e3779b97f4a7c15+salt)
	})
	step := (hi - lo) / float64(n)
	for i := range t.V {
		j := perm[i]
		jit := float64(mix(uint64(j)+salt*31)%1000) / 1000.0 // [0,1)
		v := lo + step*(float64(j)+0.25+0.5*jit)
		if neg && mix(uint64(i)*7+salt)%2 == 0 {
			v = -v
		}
		t.V[i] = v
	}
	return t
}

// Weights: a non-uniform upstream weighting for a result of this shape.
func Weights(shape []int, salt uint64) *ref.T {
	return Generic(shape, salt^0xabcdef, 0.5, 2.0, true)
}

func MaxAbs(ts ...*ref.T) float64 {
	m := 0.
	for _, t := range ts {
		if t == nil {
			continue
		}
		for _, v := range t.V {
			if a := math.Abs(v); a > m && !math.IsInf(a, 0) {
				m = a
			}
		}
	}
	return m
}
