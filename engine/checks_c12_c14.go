package main

import (
	"fmt"
	"math"

	"github.com/sahandsafizadeh/qeep/component/layers/activations"
	"github.com/sahandsafizadeh/qeep/component/losses"
	"github.com/sahandsafizadeh/qeep/tensor"
	"qmc/core"
	"qmc/enum"
	"qmc/ref"
	"qmc/rt"
)

const lossEps = 1e-12

func clipF(x, lo, hi float64) float64 { return math.Max(lo, math.Min(x, hi)) }

// lossModel: the scalar formulas of the statement.
func lossModel(kind string, p, t *ref.T) float64 {
	switch kind {
	case "MSE":
		s := 0.
		for i := range p.V {
			d := t.V[i] - p.V[i]
			s += d * d
		}
		return s / float64(len(p.V))
	case "BCE":
		s := 0.
		for i := range p.V {
			tt := clipF(t.V[i], 0, 1)
			pp := clipF(p.V[i], lossEps, 1-lossEps)
			s += tt*math.Log(pp) + (1-tt)*math.Log(1-pp)
		}
		return -s / float64(len(p.V))
	case "CE":
		s := 0.
		for i := range p.V {
			tt := clipF(t.V[i], 0, 1)
			pp := clipF(p.V[i], lossEps, 1-lossEps)
			s += tt * math.Log(pp)
		}
		return -s / float64(p.Shape[0])
	}
	panic("lossModel")
}

func lossCompute(kind string, p, t tensor.Tensor) (tensor.Tensor, error) {
	switch kind {
	case "MSE":
		return losses.NewMSE().Compute(p, t)
	case "BCE":
		return losses.NewBCE().Compute(p, t)
	}
	return losses.NewCE().Compute(p, t)
}

var c12Preds = []float64{-1e6, -1, 0, 1e-13, 1e-12, 3e-12, 0.3, 0.5, 1 - 3e-12, 1 - 1e-12, 1 - 1e-13, 1, 2, 1e6}
var c12Targets = []float64{-1, 0, 0.3, 1, 2, 1e6}

func c12Case(kind string, p, t *ref.T) core.Verdict {
	exp := lossModel(kind, p, t)
	var first float64
	for combo := 0; combo < 4; combo++ {
		rp, rtg := rt.Make(p, combo&1 != 0), rt.Make(t, combo&2 != 0)
		l, err := lossCompute(kind, rp, rtg)
		if err != nil {
			return core.Fail("%s.Compute(%v,%v): %v", kind, p, t, err)
		}
		if l == nil || len(l.Shape()) != 0 {
			return core.Fail("%s result is not a scalar tensor: %v", kind, l)
		}
		v, _ := l.At()
		if math.IsNaN(v) || math.IsInf(v, 0) {
			return core.Fail("%s(%v,%v) = %v (not finite), expected %v", kind, p, t, v, exp)
		}
		if v < 0 {
			return core.Fail("%s(%v,%v) = %v is negative", kind, p, t, v)
		}
		tol := 1e-7 * math.Max(1, math.Abs(exp))
		if kind == "BCE" {
			// "1 - p" for a prediction clipped to the upper bound: the float 1-(1-1e-12) is 9.99978e-13, the
			// real number is 1e-12; their logarithms differ by 2.2e-5 and both are readings of the statement
			for i := range p.V {
				if p.V[i] >= 1-lossEps {
					tol += 3e-5 * (1 - clipF(t.V[i], 0, 1)) / float64(len(p.V))
				}
			}
		}
		if math.Abs(v-exp) > tol {
			return core.Fail("%s(%v,%v) = %v, expected %v", kind, p, t, v, exp)
		}
		if combo == 0 {
			first = v
		} else if math.Abs(v-first) > 1e-12*math.Max(1, math.Abs(first)) {
			return core.Fail("%s(%v,%v) depends on tracking: %v (untracked) vs %v (combo %d)", kind, p, t, first, v, combo)
		}
	}
	return core.Pass()
}

func checkC12(c *core.Ctx) {
	defer specialReuse(c, "loss", false)
	defer sweepC12(c)
	defer scalingCases(c, "MSE")
	defer selfCases(c, false, "loss")
	defer soakC12(c)
	defer gridC12C13(c, false)
	np, nt := len(c12Preds), len(c12Targets)
	pairs := np * nt
	pt := func(code int) (float64, float64) { return c12Preds[code%np], c12Targets[code/np%nt] }
	type cfg struct {
		kind  string
		shape []int
	}
	var small, large []cfg
	for _, k := range []string{"MSE", "BCE"} {
		small = append(small, cfg{k, []int{1}}, cfg{k, []int{2}})
		large = append(large, cfg{k, []int{3}}, cfg{k, []int{4}})
	}
	small = append(small, cfg{"CE", []int{1, 1}}, cfg{"CE", []int{1, 2}}, cfg{"CE", []int{2, 1}})
	large = append(large, cfg{"CE", []int{2, 2}}, cfg{"CE", []int{1, 3}}, cfg{"CE", []int{3, 1}}, cfg{"CE", []int{2, 3}}, cfg{"CE", []int{4, 1}})
	if c.Thorough() {
		large = append(large, cfg{"CE", []int{3, 2}}, cfg{"CE", []int{3, 3}}, cfg{"CE", []int{4, 3}})
	}
	// all tuples for <= 2 elements
	for _, cf := range small {
		n := ref.Size(cf.shape)
		total := 1
		for i := 0; i < n; i++ {
			total *= pairs
		}
		for code := 0; code < total; code++ {
			cf, code := cf, code
			c.Case(fmt.Sprintf("%s/%v/all/%d", cf.kind, cf.shape, code), true, func() core.Verdict {
				p, t := ref.New(cf.shape), ref.New(cf.shape)
				x := code
				for i := 0; i < n; i++ {
					p.V[i], t.V[i] = pt(x % pairs)
					x /= pairs
				}
				return c12Case(cf.kind, p, t)
			})
		}
	}
	// larger: every pair of value classes placed at every pair of positions
	for _, cf := range large {
		n := ref.Size(cf.shape)
		for i := 0; i < n; i++ {
			for j := i + 1; j < n; j++ {
				for code := 0; code < pairs*pairs; code++ {
					cf, i, j, code := cf, i, j, code
					c.Case(fmt.Sprintf("%s/%v/pos%d,%d/%d", cf.kind, cf.shape, i, j, code), true, func() core.Verdict {
						p, t := ref.FullOf(cf.shape, 0.3), ref.FullOf(cf.shape, 0.3)
						for k := range p.V {
							p.V[k] = 0.2 + 0.1*float64(k)
							t.V[k] = 0.9 - 0.1*float64(k)
						}
						p.V[i], t.V[i] = pt(code % pairs)
						p.V[j], t.V[j] = pt(code / pairs)
						return c12Case(cf.kind, p, t)
					})
				}
			}
		}
	}
	// larger batches / class counts with generic values (thresholds beyond 4)
	for _, cf := range []cfg{{"MSE", []int{5}}, {"MSE", []int{33}}, {"BCE", []int{7}}, {"BCE", []int{64}}, {"CE", []int{5, 4}}, {"CE", []int{2, 9}}, {"CE", []int{33, 2}}} {
		for vi := 0; vi < 3; vi++ {
			cf, vi := cf, vi
			c.Case(fmt.Sprintf("%s/%v/generic%d", cf.kind, cf.shape, vi), true, func() core.Verdict {
				p := enum.Generic(cf.shape, uint64(160+vi), 0.05, 0.95, false)
				t := enum.Generic(cf.shape, uint64(170+vi), 0.05, 0.95, false)
				if vi == 2 { // some predictions and targets outside [0,1]
					for i := range p.V {
						if i%3 == 0 {
							p.V[i] = 1.5 + p.V[i]
							t.V[i] = -t.V[i]
						}
					}
				}
				return c12Case(cf.kind, p, t)
			})
		}
	}
	reuseLosses(c, false)
}

/* ---------------- C14 ---------------- */

var c14Values = []float64{-700, -300, -100, -40, -20, -1, math.Copysign(0, -1), 0, 1e-9, 1, 20, 40, 700}

func actModel(kind string, m float64, dim int, x *ref.T) *ref.T {
	switch kind {
	case "Relu":
		return ref.Map(x, func(v float64) float64 { return math.Max(0, v) })
	case "LeakyRelu":
		return ref.Map(x, func(v float64) float64 { return math.Max(0, v) + m*math.Min(0, v) })
	case "Sigmoid":
		return ref.Map(x, func(v float64) float64 { return 1 / (1 + math.Exp(-v)) })
	case "Tanh":
		return ref.Map(x, math.Tanh)
	case "Softmax":
		r := ref.New(x.Shape)
		ref.Fibres(x, dim, func(ro int, offs []int) {
			s := 0.
			for _, o := range offs {
				s += math.Exp(x.V[o])
			}
			for _, o := range offs {
				r.V[o] = math.Exp(x.V[o]) / s
			}
		})
		return r
	}
	panic("actModel")
}

type actCfg struct {
	kind   string
	m      float64
	nilCfg bool
	dim    int
}

func (a actCfg) String() string {
	switch a.kind {
	case "LeakyRelu":
		if a.nilCfg {
			return "LeakyRelu(nil)"
		}
		return fmt.Sprintf("LeakyRelu(%g)", a.m)
	case "Softmax":
		if a.nilCfg {
			return "Softmax(nil)"
		}
		return fmt.Sprintf("Softmax(%d)", a.dim)
	}
	return a.kind
}

func actForward(a actCfg, x tensor.Tensor) (tensor.Tensor, error) {
	switch a.kind {
	case "Relu":
		return activations.NewRelu().Forward(x)
	case "LeakyRelu":
		if a.nilCfg {
			return activations.NewLeakyRelu(nil).Forward(x)
		}
		return activations.NewLeakyRelu(&activations.LeakyReluConfig{M: a.m}).Forward(x)
	case "Sigmoid":
		return activations.NewSigmoid().Forward(x)
	case "Tanh":
		return activations.NewTanh().Forward(x)
	case "Softmax":
		var sm *activations.Softmax
		var err error
		if a.nilCfg {
			sm, err = activations.NewSoftmax(nil)
		} else {
			sm, err = activations.NewSoftmax(&activations.SoftmaxConfig{Dim: a.dim})
		}
		if err != nil {
			return nil, fmt.Errorf("NewSoftmax: %w", err)
		}
		return sm.Forward(x)
	}
	panic("actForward")
}

func (a actCfg) modelM() float64 {
	if a.nilCfg {
		return 0.01
	}
	return a.m
}

func actConfigs(rank int) []actCfg {
	out := []actCfg{{kind: "Relu"}, {kind: "Sigmoid"}, {kind: "Tanh"}, {kind: "LeakyRelu", nilCfg: true}}
	for _, m := range []float64{0, 0.3, 1, -0.5, 1.5, 4, -2, 0.123456789, 1e-50} {
		out = append(out, actCfg{kind: "LeakyRelu", m: m})
	}
	if rank >= 1 {
		out = append(out, actCfg{kind: "Softmax", nilCfg: true})
	}
	for d := 0; d < rank; d++ {
		out = append(out, actCfg{kind: "Softmax", dim: d})
	}
	return out
}

func c14Case(a actCfg, x *ref.T) core.Verdict {
	exp := actModel(a.kind, a.modelM(), a.dim, x)
	y, err := actForward(a, rt.Make(x, false))
	if err != nil {
		return core.Fail("%s on %v: %v", a, x.Shape, err)
	}
	got := rt.Read(y)
	rel, floor := 1e-9, 1e-3
	if a.kind == "Sigmoid" {
		// 1/(1+e^-x) is positive and well-conditioned for every finite x: tiny outputs for very
		// negative inputs are judged relative to themselves (down to 1e-300), with a loose factor
		rel, floor = 1e-6, 1e-300
	}
	if a.kind == "Sigmoid" {
		if ok, msg := relCloseFloor(got, exp, 1e-6, 1e-300); !ok {
			return core.Fail("%s on %v (x=%v): %s", a, x.Shape, shortT(x), msg)
		}
	} else if ok, msg := core.RelClose(got, exp, rel, floor); !ok {
		return core.Fail("%s on %v (x=%v): %s", a, x.Shape, shortT(x), msg)
	}
	if a.kind == "Softmax" {
		for _, v := range got.V {
			if v < 0 {
				return core.Fail("%s: negative value %v", a, v)
			}
		}
		bad := ""
		ref.Fibres(got, a.dim, func(ro int, offs []int) {
			s := 0.
			for _, o := range offs {
				s += got.V[o]
			}
			if math.Abs(s-1) > 1e-12*math.Max(1, float64(len(offs))/256) {
				bad = fmt.Sprintf("fibre %d along dim %d sums to %v", ro, a.dim, s)
			}
		})
		if bad != "" {
			return core.Fail("%s on %v: %s", a, x.Shape, bad)
		}
	}
	return core.Pass()
}

func shortT(t *ref.T) string {
	if len(t.V) > 12 {
		return fmt.Sprintf("%v%v...", t.Shape, t.V[:12])
	}
	return t.String()
}

func checkC14(c *core.Ctx) {
	defer specialReuse(c, "act", false)
	defer sweepC14(c)
	defer scalingCases(c, "Relu", "LeakyRelu")
	defer soakC14(c)
	defer gridC14(c)
	var shapes [][]int
	if c.Thorough() {
		shapes = enum.Shapes(5, []int{1, 2, 3})
	} else {
		shapes = enum.Shapes(4, []int{1, 2, 3})
	}
	shapes = append(shapes, []int{5}, []int{33}, []int{2, 7}, []int{8, 2}, []int{4, 5, 2}, []int{16}, []int{600}, []int{2, 1000}, []int{1030, 2})
	for _, s := range shapes {
		for _, a := range actConfigs(len(s)) {
			s, a := s, a
			nontrivial := ref.Size(s) > 1
			if a.kind == "Softmax" {
				nontrivial = s[a.dim] > 1
			}
			// generic values (two assignments) and a rotation of the value classes
			for vi := 0; vi < 3; vi++ {
				vi := vi
				c.Case(fmt.Sprintf("%s/%v/v%d", a, s, vi), nontrivial, func() core.Verdict {
					var x *ref.T
					if vi < 2 {
						x = enum.Generic(s, uint64(400+vi), 0.1, 3, true)
					} else {
						x = ref.New(s)
						for i := range x.V {
							x.V[i] = c14Values[(i*4+len(s))%len(c14Values)]
						}
					}
					return c14Case(a, x)
				})
			}
		}
	}
	// value classes exhaustively over 1, 2 and (Softmax width) 3 element inputs
	for _, a := range actConfigs(1) {
		a := a
		for n := 1; n <= 3; n++ {
			total := 1
			for i := 0; i < n; i++ {
				total *= len(c14Values)
			}
			for code := 0; code < total; code++ {
				n, code := n, code
				c.Case(fmt.Sprintf("%s/class/n%d/%d", a, n, code), true, func() core.Verdict {
					x := ref.New([]int{n})
					k := code
					for i := 0; i < n; i++ {
						x.V[i] = c14Values[k%len(c14Values)]
						k /= len(c14Values)
					}
					return c14Case(a, x)
				})
			}
		}
	}
	// huge finite inputs ("for every finite input") for the element-wise activations
	for _, a := range actConfigs(0) {
		a := a
		for _, v := range []float64{1e300, -1e300, 8.9e307, 9.1e307, 1e308, -1e308, 1.7e308, -1.7e308, 5e-324, -5e-324} {
			v := v
			c.Case(fmt.Sprintf("%s/huge/%v", a, v), true, func() core.Verdict {
				return c14Case(a, &ref.T{Shape: []int{2}, V: []float64{v, -0.5}})
			})
		}
	}
	// rank-0 input for the element-wise activations
	for _, a := range actConfigs(0) {
		a := a
		for _, v := range c14Values {
			v := v
			c.Case(fmt.Sprintf("%s/scalar/%v", a, v), false, func() core.Verdict {
				return c14Case(a, &ref.T{Shape: []int{}, V: []float64{v}})
			})
		}
	}
	// configs are decoupled: one config struct reused with different settings
	c.Case("config/decoupled", true, func() core.Verdict {
		x := enum.Generic([]int{2, 3, 2}, 480, 0.2, 2, true)
		sc := &activations.SoftmaxConfig{}
		var sms []*activations.Softmax
		for d := 0; d < 3; d++ {
			sc.Dim = d
			sm, err := activations.NewSoftmax(sc)
			if err != nil {
				return core.Fail("NewSoftmax: %v", err)
			}
			sms = append(sms, sm)
		}
		sc.Dim = 2
		for d, sm := range sms {
			y, err := sm.Forward(rt.Make(x, false))
			if err != nil {
				return core.Fail("Softmax(%d).Forward: %v", d, err)
			}
			if ok, msg := core.RelClose(rt.Read(y), actModel("Softmax", 0, d, x), 1e-9, 1e-3); !ok {
				return core.Fail("Softmax layer constructed with Dim %d (config struct reused afterwards): %s", d, msg)
			}
		}
		lc := &activations.LeakyReluConfig{M: 0.2}
		l1 := activations.NewLeakyRelu(lc)
		lc.M = 5
		l2 := activations.NewLeakyRelu(lc)
		lc.M = -3
		for k, e := range []struct {
			l *activations.LeakyRelu
			m float64
		}{{l1, 0.2}, {l2, 5}} {
			y, err := e.l.Forward(rt.Make(x, false))
			if err != nil {
				return core.Fail("LeakyRelu.Forward: %v", err)
			}
			if ok, msg := core.RelClose(rt.Read(y), actModel("LeakyRelu", e.m, 0, x), 1e-9, 1e-3); !ok {
				return core.Fail("LeakyRelu layer %d constructed with M=%v (config struct changed afterwards): %s", k+1, e.m, msg)
			}
		}
		return core.Pass()
	})
	reuseActivations(c, false)
}
