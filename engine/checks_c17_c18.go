package main

import (
	"fmt"
	"math"
	"sort"
	"time"

	"github.com/sahandsafizadeh/qeep/component/initializers"
	"github.com/sahandsafizadeh/qeep/component/optimizers"
	"github.com/sahandsafizadeh/qeep/tensor"
	xrand "golang.org/x/exp/rand"
	"gonum.org/v1/gonum/stat/distuv"
	"qmc/core"
	"qmc/enum"
	"qmc/ref"
	"qmc/rt"
)

/* ---------------- C17 ---------------- */

type lrCfg struct {
	nilCfg bool
	lr     float64
}

func (l lrCfg) opt() *optimizers.SGD {
	if l.nilCfg {
		return optimizers.NewSGD(nil)
	}
	return optimizers.NewSGD(&optimizers.SGDConfig{LearningRate: l.lr})
}
func (l lrCfg) value() float64 {
	if l.nilCfg {
		return 0.01
	}
	return l.lr
}

var c17LRs = []lrCfg{{nilCfg: true}, {lr: 0.01}, {lr: 0.5}, {lr: 0}, {lr: -0.3}}

// c17AwkwardLRs: learning rates no narrower type holds (checks_scalararg.go), used by the value-class family.
var c17AwkwardLRs = []lrCfg{{lr: 0.1}, {lr: 1e-50}, {lr: -2.5e40}, {lr: 123456789.125}, {lr: 1 + 1.0/(1<<40)}, {lr: 3e-320}}

func checkC17(c *core.Ctx) {
	defer gridC17(c)
	defer soakC17(c)
	// length sweep (see checks_sweep.go)
	for si, sh := range []func(int) []int{shL, sh1L, shL1, shL2, sh2L} {
		for _, L := range sweepLengths(c.Thorough()) {
			si, sh, L := si, sh, L
			c.Case(fmt.Sprintf("sweep/update/s%d/L%d", si, L), L > 1, func() core.Verdict {
				v := c17UpdateCase(sh(L), c17LRs[(L+si)%len(c17LRs)], (L+si)%5)
				if !v.OK && !v.Skip {
					v.Detail = fmt.Sprintf("length sweep, weight shape %v: %s", sh(L), v.Detail)
				}
				return v
			})
		}
	}
	shapes := enum.Shapes(4, []int{1, 2, 3})
	if c.Thorough() {
		shapes = enum.Shapes(5, []int{1, 2, 3})
	}
	shapes = append(shapes, []int{5}, []int{33}, []int{4, 7}, []int{130}, []int{2, 600}, []int{1, 2048}, []int{3, 1, 7, 64}, []int{1024}, []int{2049}, []int{40, 40})
	for _, s := range shapes {
		for li, l := range c17LRs {
			for gm := 0; gm < 5; gm++ {
				s, l, gm := s, l, gm
				c.Case(fmt.Sprintf("update/%v/lr%d/g%d", s, li, gm), ref.Size(s) > 1, func() core.Verdict {
					return c17UpdateCase(s, l, gm)
				})
			}
		}
	}
	// gradient / weight value classes: cancelling gradients (sum exactly 0),
	// all-zero gradients, huge and tiny magnitudes (w, g, lr*g and w-lr*g finite)
	type vc struct {
		name string
		w, g []float64
	}
	classes := []vc{
		{"cancel", []float64{1, 2, 3, 4}, []float64{1, -1, 2, -2}},
		{"cancel2", []float64{0.5, -0.5, 7, 0}, []float64{3, 0, -3, 0}},
		{"zero", []float64{1, -2, 3, 4}, []float64{0, 0, 0, 0}},
		{"huge", []float64{1, -1, 2, 0.5}, []float64{3e160, -2e200, 1e300, 1e154}},
		{"hugeW", []float64{1e300, -1e250, 1e200, -1e154}, []float64{1, -2, 3, 4}},
		{"tiny", []float64{1e-300, -1e-250, 5e-324, 0}, []float64{1e-300, 2e-250, -1e-200, 1e-320}},
		{"mixed", []float64{1e10, -1e-10, 0, 1}, []float64{1e-10, 1e10, 1e160, -1e-160}},
	}
	for _, cl := range classes {
		for _, shape := range [][]int{{4}, {2, 2}, {1, 4, 1}} {
			for li, l := range append(append([]lrCfg{}, c17LRs...), c17AwkwardLRs...) {
				cl, shape, l := cl, shape, l
				c.Case(fmt.Sprintf("class/%s/%v/lr%d", cl.name, shape, li), true, func() core.Verdict {
					w0 := &ref.T{Shape: shape, V: cl.w}
					g0 := &ref.T{Shape: shape, V: cl.g}
					w := rt.Make(w0, true)
					y, err := w.Mul(rt.Make(g0, false))
					if err != nil {
						return core.Fail("Mul: %v", err)
					}
					if err := tensor.BackPropagate(y); err != nil {
						return core.Fail("BackPropagate: %v", err)
					}
					if w.Gradient() == nil {
						return core.Fail("no gradient")
					}
					if ok, msg := core.RelClose(rt.Read(w.Gradient()), g0, 1e-12, 0); !ok {
						return core.Fail("gradient before update: %s", msg)
					}
					ptr := w
					if err := l.opt().Update(&ptr); err != nil {
						return core.Fail("Update with finite weights %v and finite gradient %v (lr %v) returned an error: %v", cl.w, cl.g, l.value(), err)
					}
					exp := ref.New(shape)
					finite := true
					for i := range exp.V {
						exp.V[i] = w0.V[i] - l.value()*g0.V[i]
						if math.IsInf(exp.V[i], 0) || math.IsNaN(exp.V[i]) {
							finite = false
						}
					}
					if !finite {
						return core.Skip()
					}
					if ok, msg := core.RelClose(rt.Read(ptr), exp, 1e-12, 0); !ok {
						return core.Fail("updated weight for w=%v g=%v lr=%v: %s", cl.w, cl.g, l.value(), msg)
					}
					if ok, msg := core.ExactEq(rt.Read(w), w0); !ok {
						return core.Fail("previous tensor changed: %s", msg)
					}
					// the tensor now behind the pointer has no gradient: another Update must be refused
					keep := ptr
					if err := l.opt().Update(&ptr); err == nil {
						return core.Fail("w=%v g=%v lr=%v: a second Update (no back-propagation in between) returned no error: the tensor behind the pointer still carries the old gradient", cl.w, cl.g, l.value())
					}
					if ptr != keep {
						return core.Fail("refused Update replaced the tensor")
					}
					return core.Pass()
				})
			}
		}
	}
	// the optimizer keeps the learning rate it was constructed with, whatever
	// the caller does with the config struct afterwards
	c.Case("config/decoupled", true, func() core.Verdict {
		conf := &optimizers.SGDConfig{LearningRate: 0.5}
		opt1 := optimizers.NewSGD(conf)
		conf.LearningRate = -0.25
		opt2 := optimizers.NewSGD(conf)
		conf.LearningRate = 7
		for k, oe := range []struct {
			o  *optimizers.SGD
			lr float64
		}{{opt1, 0.5}, {opt2, -0.25}} {
			w0 := enum.Generic([]int{3}, 560, 0.5, 3, true)
			cc := enum.Generic([]int{3}, 561, 0.5, 3, true)
			w := rt.Make(w0, true)
			y, _ := w.Mul(rt.Make(cc, false))
			if err := tensor.BackPropagate(y); err != nil {
				return core.Fail("BackPropagate: %v", err)
			}
			if err := oe.o.Update(&w); err != nil {
				return core.Fail("Update: %v", err)
			}
			exp := ref.New([]int{3})
			for i := range exp.V {
				exp.V[i] = w0.V[i] - oe.lr*cc.V[i]
			}
			if ok, msg := core.Close(rt.Read(w), exp, 10); !ok {
				return core.Fail("optimizer %d was constructed with learning rate %v; after the caller changed its config struct: %s", k+1, oe.lr, msg)
			}
		}
		return core.Pass()
	})
	// ONE optimizer object updating tensors of different shapes one after the other
	for li, l := range c17LRs {
		l := l
		c.Case(fmt.Sprintf("reuse/lr%d", li), true, func() core.Verdict {
			opt := l.opt()
			var w tensor.Tensor // ONE pointer variable for every update (a slot whose tensor changes shape)
			for k, s := range [][]int{{3}, {2, 3}, {3}, {2, 2}, {4}, {}, {1, 4}, {33}, {2, 2}, {5, 7}} {
				w0 := enum.Generic(s, uint64(520+k), 0.5, 3, true)
				cc := enum.Generic(s, uint64(540+k), 0.5, 3, true)
				w = rt.Make(w0, true)
				y, err := w.Mul(rt.Make(cc, false))
				if err != nil {
					return core.Fail("Mul: %v", err)
				}
				if err := tensor.BackPropagate(y); err != nil {
					return core.Fail("BackPropagate: %v", err)
				}
				if err := opt.Update(&w); err != nil {
					return core.Fail("call %d on one SGD object (shape %v): %v", k+1, s, err)
				}
				exp := ref.New(s)
				for i := range exp.V {
					exp.V[i] = w0.V[i] - l.value()*cc.V[i]
				}
				if ok, msg := core.Close(rt.Read(w), exp, 10); !ok {
					return core.Fail("call %d on one SGD object (shape %v): %s", k+1, s, msg)
				}
			}
			return core.Pass()
		})
	}
	// the SAME tensor object stepped several times by one optimizer while its gradient keeps
	// accumulating (micro-batches: all graphs built first, back-propagated one by one, the
	// original tensor handed to Update after each): every Update uses the CURRENT gradient
	for li, l := range c17LRs {
		for _, s := range [][]int{{4}, {2, 3}, {}} {
			l, s := l, s
			c.Case(fmt.Sprintf("restep/%v/lr%d", s, li), true, func() core.Verdict {
				opt := l.opt()
				w0 := enum.Generic(s, 560, 0.5, 3, true)
				w := rt.Make(w0, true)
				const nb = 4
				var ys []tensor.Tensor
				var cs []*ref.T
				for k := 0; k < nb; k++ {
					cc := enum.Generic(s, uint64(570+k), 0.5, 3, true)
					y, err := w.Mul(rt.Make(cc, false))
					if err != nil {
						return core.Fail("Mul: %v", err)
					}
					ys, cs = append(ys, y), append(cs, cc)
				}
				acc := ref.New(s)
				for k := 0; k < nb; k++ {
					if err := tensor.BackPropagate(ys[k]); err != nil {
						return core.Fail("BackPropagate %d: %v", k, err)
					}
					for i := range acc.V {
						acc.V[i] += cs[k].V[i]
					}
					for rep := 0; rep < 2; rep++ { // the second Update of the same tensor with an unchanged gradient gives the same tensor values
						p := w
						if err := opt.Update(&p); err != nil {
							return core.Fail("Update %d of the same tensor object: %v", k, err)
						}
						exp := ref.New(s)
						for i := range exp.V {
							exp.V[i] = w0.V[i] - l.value()*acc.V[i]
						}
						if ok, msg := core.Close(rt.Read(p), exp, 10); !ok {
							return core.Fail("the same tensor object handed to Update after %d accumulated back-propagations (repeat %d): result is not w - lr*(current gradient): %s", k+1, rep, msg)
						}
						if ok, msg := core.ExactEq(rt.Read(w), w0); !ok {
							return core.Fail("the stepped tensor itself changed: %s", msg)
						}
					}
				}
				return core.Pass()
			})
		}
	}
	// a tensor that is the RESULT of operations (not a leaf) and received a gradient is stepped like any other
	for li, l := range c17LRs {
		for hi, hop := range []ref.Op{{K: "Scale", F: 2}, {K: "Tanh"}, {K: "Reshape", Shape: []int{3, 2}}, {K: "Add"}, {K: "Concat"}} {
			l, hop, hi := l, hop, hi
			c.Case(fmt.Sprintf("nonleaf/%s/lr%d", hop, li), true, func() core.Verdict {
				x0 := enum.Generic([]int{2, 3}, uint64(580+hi), 0.5, 2, true)
				x := rt.Make(x0, true)
				in := []tensor.Tensor{x}
				min := []*ref.T{x0}
				if hop.Arity() != 1 {
					in = append(in, rt.Make(x0, false))
					min = append(min, x0)
				}
				h, err := rt.Apply(hop, in)
				if err != nil {
					return core.Fail("%s: %v", hop, err)
				}
				h0, _ := ref.Eval(hop, min)
				cc := enum.Generic(h0.Shape, 590, 0.5, 3, true)
				y, err := h.Mul(rt.Make(cc, false))
				if err != nil {
					return core.Fail("Mul: %v", err)
				}
				if err := tensor.BackPropagate(y); err != nil {
					return core.Fail("BackPropagate: %v", err)
				}
				if h.Gradient() == nil {
					return core.Fail("the intermediate tensor has no gradient after back-propagation")
				}
				p := h
				if err := l.opt().Update(&p); err != nil {
					return core.Fail("Update of a tensor that is the result of %s and has a gradient: %v", hop, err)
				}
				exp := ref.New(h0.Shape)
				for i := range exp.V {
					exp.V[i] = h0.V[i] - l.value()*cc.V[i]
				}
				if ok, msg := core.Close(rt.Read(p), exp, 10); !ok {
					return core.Fail("Update of a tensor that is the result of %s: %s", hop, msg)
				}
				if ok, msg := core.ExactEq(rt.Read(h), h0); !ok {
					return core.Fail("the stepped tensor itself changed: %s", msg)
				}
				return core.Pass()
			})
		}
	}
	// error paths
	for li, l := range c17LRs {
		l := l
		c.Case(fmt.Sprintf("errors/lr%d", li), true, func() core.Verdict {
			if err := l.opt().Update(nil); err == nil {
				return core.Fail("Update(nil pointer): no error")
			}
			var nilT tensor.Tensor
			if err := l.opt().Update(&nilT); err == nil || nilT != nil {
				return core.Fail("Update(pointer to nil tensor): err=%v, tensor=%v", err, nilT)
			}
			w := rt.Make(enum.Generic([]int{2, 2}, 5, 0.5, 2, true), true)
			keep := w
			if err := l.opt().Update(&w); err == nil || w != keep {
				return core.Fail("Update(tensor without gradient): err=%v, replaced=%v", err, w != keep)
			}
			u := rt.Make(enum.Generic([]int{2, 2}, 5, 0.5, 2, true), false)
			keep = u
			_ = tensor.BackPropagate(u)
			if err := l.opt().Update(&u); err == nil || u != keep {
				return core.Fail("Update(untracked tensor, no gradient): err=%v, replaced=%v", err, u != keep)
			}
			return core.Pass()
		})
	}
}

/* ---------------- C18 ---------------- */

type initCall struct {
	Name   string
	A, B   float64 // distribution parameters as configured
	FanIn  int
	FanOut int
	Nil    bool
	Shape  []int
}

func (ic initCall) String() string {
	return fmt.Sprintf("%s(a=%g,b=%g,fi=%d,fo=%d,nil=%v)%v", ic.Name, ic.A, ic.B, ic.FanIn, ic.FanOut, ic.Nil, ic.Shape)
}

// objCache, when non-nil, makes run() reuse ONE initializer object per
// configuration (the way a model builder holds on to its initializers).
var c18ObjCache map[string]interface {
	Init([]int) (tensor.Tensor, error)
}

// run executes the real call; returns the tensor and whether it must be tracked.
func (ic initCall) run() (tensor.Tensor, bool, error) {
	sh := ref.CopyShape(ic.Shape)
	key := fmt.Sprintf("%s|%g|%g|%d|%d|%v", ic.Name, ic.A, ic.B, ic.FanIn, ic.FanOut, ic.Nil)
	if c18ObjCache != nil && ic.Name != "RandU" && ic.Name != "RandN" {
		if o, ok := c18ObjCache[key]; ok {
			t, err := o.Init(sh)
			return t, true, err
		}
	}
	var in interface {
		Init([]int) (tensor.Tensor, error)
	}
	var err error
	switch ic.Name {
	case "RandU":
		t, err := tensor.RandU(sh, ic.A, ic.B, rt.Conf(false))
		return t, false, err
	case "RandN":
		t, err := tensor.RandN(sh, ic.A, ic.B, rt.Conf(true))
		return t, true, err
	case "Full":
		if ic.Nil {
			in = initializers.NewFull(nil)
		} else {
			in = initializers.NewFull(&initializers.FullConfig{Value: ic.A})
		}
	case "Uniform":
		if ic.Nil {
			in, err = initializers.NewUniform(nil)
		} else {
			in, err = initializers.NewUniform(&initializers.UniformConfig{Lower: ic.A, Upper: ic.B})
		}
	case "Normal":
		if ic.Nil {
			in, err = initializers.NewNormal(nil)
		} else {
			in, err = initializers.NewNormal(&initializers.NormalConfig{Mean: ic.A, StdDev: ic.B})
		}
	case "HeUniform":
		in, err = initializers.NewHeUniform(&initializers.HeUniformConfig{FanIn: ic.FanIn})
	case "HeNormal":
		in, err = initializers.NewHeNormal(&initializers.HeNormalConfig{FanIn: ic.FanIn})
	case "XavierUniform":
		in, err = initializers.NewXavierUniform(&initializers.XavierUniformConfig{FanIn: ic.FanIn, FanOut: ic.FanOut})
	case "XavierNormal":
		in, err = initializers.NewXavierNormal(&initializers.XavierNormalConfig{FanIn: ic.FanIn, FanOut: ic.FanOut})
	}
	if err != nil {
		return nil, true, err
	}
	if c18ObjCache != nil {
		c18ObjCache[key] = in
	}
	t, err := in.Init(sh)
	return t, true, err
}

// dist: the distribution of the statement for this call.
func (ic initCall) dist() (kind string, a, b float64) {
	switch ic.Name {
	case "RandU":
		return "U", ic.A, ic.B
	case "RandN":
		return "N", ic.A, ic.B
	case "Full":
		if ic.Nil {
			return "C", 0, 0
		}
		return "C", ic.A, 0
	case "Uniform":
		if ic.Nil {
			return "U", -0.05, 0.05
		}
		return "U", ic.A, ic.B
	case "Normal":
		if ic.Nil {
			return "N", 0, 0.05
		}
		return "N", ic.A, ic.B
	case "HeUniform":
		r := math.Sqrt(6 / float64(ic.FanIn))
		return "U", -r, r
	case "HeNormal":
		return "N", 0, math.Sqrt(2 / float64(ic.FanIn))
	case "XavierUniform":
		r := math.Sqrt(6 / float64(ic.FanIn+ic.FanOut))
		return "U", -r, r
	case "XavierNormal":
		return "N", 0, math.Sqrt(2 / float64(ic.FanIn+ic.FanOut))
	}
	panic("dist")
}

func c18Alphabet(thorough bool) []initCall {
	shapes := [][]int{{}, {3}, {2, 3}, {2, 1, 2}, {33}}
	if thorough {
		shapes = append(shapes, []int{1}, []int{1, 2, 2, 2}, []int{4, 4}, []int{5, 7}, []int{130})
	}
	var base []initCall
	base = append(base,
		initCall{Name: "RandU", A: -1, B: 3}, initCall{Name: "RandU", A: 0, B: 1e-3},
		initCall{Name: "RandN", A: 0, B: 0.05}, initCall{Name: "RandN", A: 1, B: 2},
		initCall{Name: "Full", Nil: true}, initCall{Name: "Full", A: 2.5},
		initCall{Name: "Uniform", Nil: true}, initCall{Name: "Uniform", A: -1, B: 3}, initCall{Name: "Uniform", A: 0, B: 1}, initCall{Name: "Uniform", A: -2, B: 0},
		initCall{Name: "Normal", A: 0, B: 1}, initCall{Name: "Full", A: 0},
		initCall{Name: "Normal", Nil: true}, initCall{Name: "Normal", A: 1, B: 2},
	)
	// parameters that no narrower type than float64 holds (checks_scalararg.go; round 14)
	base = append(base,
		initCall{Name: "Full", A: 0.1}, initCall{Name: "Full", A: 1e-50}, initCall{Name: "Full", A: -2.5e40}, initCall{Name: "Full", A: 123456789.125},
		initCall{Name: "Uniform", A: 0.1, B: 0.7}, initCall{Name: "Uniform", A: 1e-50, B: 3e-50}, initCall{Name: "Uniform", A: -2.5e40, B: 2.5e40},
		initCall{Name: "Normal", A: 0.3, B: 0.1}, initCall{Name: "Normal", A: 1e40, B: 1e38}, initCall{Name: "Normal", A: 0, B: 1e-50},
		initCall{Name: "RandU", A: 0.1, B: 0.7}, initCall{Name: "RandU", A: -2.5e40, B: 1e-50}, initCall{Name: "RandN", A: 0.3, B: 0.1}, initCall{Name: "RandN", A: 1e40, B: 1e38},
	)
	fans := []int{1, 2, 3}
	if thorough {
		fans = []int{1, 2, 3, 5, 6, 10}
	}
	for _, fi := range fans {
		base = append(base, initCall{Name: "HeUniform", FanIn: fi}, initCall{Name: "HeNormal", FanIn: fi})
		for _, fo := range fans {
			base = append(base, initCall{Name: "XavierUniform", FanIn: fi, FanOut: fo}, initCall{Name: "XavierNormal", FanIn: fi, FanOut: fo})
		}
	}
	var out []initCall
	for _, b := range base {
		for _, s := range shapes {
			x := b
			x.Shape = s
			out = append(out, x)
		}
	}
	return out
}

// c18Sequence: seed the global gonum source, run the calls, and require each
// call's elements to be (as a multiset) the next N draws of a private gonum
// distribution with the statement's exact parameters on an identically seeded
// source.
func c18Sequence(seed uint64, calls []initCall) core.Verdict {
	xrand.Seed(seed)
	got := make([]*ref.T, len(calls))
	var results []tensor.Tensor
	for i, ic := range calls {
		t, mustTrack, err := ic.run()
		if err != nil {
			return core.Fail("call %d %s: %v", i, ic, err)
		}
		if t == nil {
			return core.Fail("call %d %s: nil tensor", i, ic)
		}
		if !ref.SameShape(t.Shape(), ic.Shape) {
			return core.Fail("call %d %s: shape %v", i, ic, t.Shape())
		}
		tr, spent, g0, edges, _ := tensor.VerifGradState(t)
		if tr != mustTrack {
			return core.Fail("call %d %s: tracked=%v, expected %v", i, ic, tr, mustTrack)
		}
		// a FRESH tensor: a new object, no gradient, not spent, no history
		for j, prev := range results {
			if prev == t {
				return core.Fail("call %d %s returned the very tensor object that call %d returned (whatever the caller did with that one - a gradient, a back-propagation, a reset - shows on this one)", i, ic, j)
			}
		}
		results = append(results, t)
		if spent || g0 != nil || len(edges) != 0 {
			return core.Fail("call %d %s: the returned tensor is not fresh: spent=%v, has gradient=%v, back edges=%d", i, ic, spent, g0 != nil, len(edges))
		}
		// behavioural tracking check: back-propagating a result gives the tensor a gradient
		if mustTrack {
			if err := tensor.BackPropagate(t.Scale(2)); err != nil || t.Gradient() == nil {
				return core.Fail("call %d %s: tensor is not trainable (no gradient after back-propagation)", i, ic)
			}
		}
		got[i] = rt.Read(t)
	}
	src := xrand.New(xrand.NewSource(seed))
	for i, ic := range calls {
		n := ref.Size(ic.Shape)
		kind, a, b := ic.dist()
		exp := make([]float64, n)
		for k := range exp {
			switch kind {
			case "C":
				exp[k] = a
			case "U":
				exp[k] = distuv.Uniform{Min: a, Max: b, Src: src}.Rand()
			case "N":
				exp[k] = distuv.Normal{Mu: a, Sigma: b, Src: src}.Rand()
			}
		}
		g := append([]float64{}, got[i].V...)
		sort.Float64s(g)
		e := append([]float64{}, exp...)
		sort.Float64s(e)
		for k := range e {
			if g[k] != e[k] {
				return streamFallback(calls, got, i, fmt.Sprintf("call %d %s: elements are not the next %d draws of the seeded gonum stream with the statement's parameters (%s %g %g): sorted element %d is %v, expected %v", i, ic, n, kind, a, b, k, g[k], e[k]))
			}
		}
		if kind == "U" {
			for _, v := range got[i].V {
				if !(v >= a && v < b) {
					return core.Fail("call %d %s: element %v outside [%g,%g)", i, ic, v, a, b)
				}
			}
		}
	}
	return core.Pass()
}

// streamFallback: the implementation does not follow the gonum stream as the
// model expects. This is a violation (wrong parameters, reused draws, constant
// fill...) unless the necessary conditions that hold for every correct
// implementation are all satisfied, in which case the stream oracle abstains.
func streamFallback(calls []initCall, got []*ref.T, at int, msg string) core.Verdict {
	ic := calls[at]
	kind, a, b := ic.dist()
	vals := got[at].V
	// support
	if kind == "U" {
		for _, v := range vals {
			if !(v >= a && v < b) {
				return core.Fail("%s; and element %v is outside [%g,%g)", msg, v, a, b)
			}
		}
	}
	if kind == "C" {
		return core.Fail("%s", msg)
	}
	// pairwise distinct within the call and against every other random call
	// (a generator with 32 bits per variate - Go's ziggurat - repeats a value among n draws with
	// probability about n^2/2^33: a couple of coincidences prove nothing, many do)
	seen := map[float64]bool{}
	dups, ndraws := 0, 0
	var firstDup float64
	for j, g := range got {
		if k, _, _ := calls[j].dist(); k == "C" {
			continue
		}
		for _, v := range g.V {
			ndraws++
			if seen[v] {
				if dups == 0 {
					firstDup = v
				}
				dups++
			}
			seen[v] = true
		}
	}
	if lambda := float64(ndraws) * float64(ndraws) / (1 << 33); float64(dups) > 3+10*lambda {
		return core.Fail("%s; and %d of %d drawn values repeat an earlier one (first: %v): draws are reused / not fresh", msg, dups, ndraws, firstDup)
	}
	// The sampling part below costs thousands of library calls per case. For a library whose random constructors
	// do not follow the gonum stream at all, EVERY one of the millions of enumerated sequences ends up here; the
	// large-sample test of one call configuration is therefore done once per worker process (memo), and the
	// cross-call pooling only while the worker's fallback budget lasts - afterwards the oracle abstains for the
	// remaining sequences (reported: counter + not exhaustive). Found with the property-preserving bundle B10: a
	// worker of this check ran into its 20-minute limit and the check was reported broken (DESIGN 9.11).
	t0 := time.Now()
	defer func() { c18FallbackSpent += time.Since(t0) }()
	memoKey := ic.String()
	if r, ok := c18MomentMemo[memoKey]; ok {
		if r != "" {
			return core.Fail("%s; and %s", msg, r)
		}
		if c18FallbackSpent > c18FallbackBudget {
			c18FallbackSkipped++
			return core.Verdict{OK: true, Skip: true, Detail: "stream oracle abstains (fallback budget of this worker spent): " + msg}
		}
		return c18CrossCall(calls, got, at, msg)
	}
	// scale: a large sample of the same call must have moments within 6 sigma
	// (the SAME call, shape included, is repeated until 4096 elements are drawn:
	// a scale that depends on the requested shape must not escape)
	var x []float64
	for len(x) < 4096 {
		t, _, err := ic.run()
		if err != nil {
			return core.Fail("%s; and repeating the call fails: %v", msg, err)
		}
		v := rt.Read(t).V
		if len(v) == 0 {
			return core.Fail("%s; and a repeated call returns no elements", msg)
		}
		x = append(x, v...)
	}
	x = x[:4096]
	if m := distStats(kind, a, b, x); m != "" {
		// a 6-sigma excursion has probability ~1e-8 per statistic: it must repeat on a second, independent sample
		var x2 []float64
		for len(x2) < 4096 {
			t, _, err := ic.run()
			if err != nil {
				return core.Fail("%s; and repeating the call fails: %v", msg, err)
			}
			x2 = append(x2, rt.Read(t).V...)
		}
		if m2 := distStats(kind, a, b, x2[:4096]); m2 == "" {
			return core.Verdict{OK: true, Skip: true, Detail: "stream oracle abstains (a statistical excursion did not repeat): " + msg}
		}
		c18MomentMemo[memoKey] = m
		return core.Fail("%s; and %s", msg, m)
	}
	c18MomentMemo[memoKey] = ""
	return c18CrossCall(calls, got, at, msg)
}

var (
	c18MomentMemo      = map[string]string{}
	c18FallbackSpent   time.Duration
	c18FallbackBudget  = 90 * time.Second
	c18FallbackSkipped int64
)

// c18CrossCall: the cross-call part of the fallback (see streamFallback).
func c18CrossCall(calls []initCall, got []*ref.T, at int, msg string) core.Verdict {
	ic := calls[at]
	kind, a, b := ic.dist()
	if c18FallbackSpent > c18FallbackBudget {
		c18FallbackSkipped++
		return core.Verdict{OK: true, Skip: true, Detail: "stream oracle abstains (fallback budget of this worker spent): " + msg}
	}
	_ = ic
	// independence ACROSS calls: replay the whole sequence many times and pool, for the call in question, its
	// first and its last element - something left over from the previous call (a spare variate, a cached
	// draw) lands exactly there, once per replay, and is invisible in a large sample of one repeated call
	if len(calls) > 1 && len(got[at].V) > 0 {
		pool := func() (first, last []float64, err error) {
			for r := 0; r < 1024; r++ {
				for j, cj := range calls {
					t, _, e := cj.run()
					if e != nil {
						return nil, nil, e
					}
					if j == at {
						v := rt.Read(t).V
						first, last = append(first, v[0]), append(last, v[len(v)-1])
					}
				}
			}
			return first, last, nil
		}
		f1, l1, err := pool()
		if err != nil {
			return core.Fail("%s; and replaying the sequence fails: %v", msg, err)
		}
		for pi, smp := range [][]float64{f1, l1} {
			if m := distStats(kind, a, b, smp); m != "" {
				f2, l2, err := pool() // must repeat on an independent second pool
				if err != nil {
					return core.Fail("%s; and replaying the sequence fails: %v", msg, err)
				}
				if m2 := distStats(kind, a, b, [][]float64{f2, l2}[pi]); m2 != "" {
					return core.Fail("%s; and over 1024 replays of the call sequence the %s element of this call does not follow the configured distribution (%s): it depends on the calls made before", msg, []string{"first", "last"}[pi], m)
				}
			}
		}
	}
	return core.Verdict{OK: true, Skip: true, Detail: "stream oracle abstains: " + msg}
}

func checkC18(c *core.Ctx) {
	if c.Deep() {
		c18FallbackBudget = 8 * time.Minute
	}
	defer func() {
		if c18FallbackSkipped > 0 {
			c.P.Capped = true
			c.P.CapNote = fmt.Sprintf("the library's random constructors do not follow the seeded gonum stream; the sampling fallback's budget (%v per worker) was spent and the stream oracle abstained for %d further call sequences (support and duplicate checks still applied)", c18FallbackBudget, c18FallbackSkipped)
			c.Count("sequences_fallback_budget_spent", c18FallbackSkipped)
		}
	}()
	alpha := c18Alphabet(c.Thorough())
	seed := uint64(c.Seed)*7919 + 17
	// single calls: full alphabet
	for i := range alpha {
		i := i
		c.Case(fmt.Sprintf("one/%s", alpha[i]), ref.Size(alpha[i].Shape) > 1, func() core.Verdict {
			return c18Sequence(seed, []initCall{alpha[i]})
		})
	}
	// pairs: full alphabet
	for i := range alpha {
		if c.Expired() {
			break
		}
		for j := range alpha {
			i, j := i, j
			c.Case(fmt.Sprintf("two/%d,%d", i, j), true, func() core.Verdict {
				return c18Sequence(seed+1, []initCall{alpha[i], alpha[j]})
			})
		}
	}
	// configs are decoupled: mutating the config struct after construction
	// does not change what the initializer draws
	c.Case("config/decoupled", true, func() core.Verdict {
		uc := &initializers.UniformConfig{Lower: -1, Upper: 3}
		u, err1 := initializers.NewUniform(uc)
		uc.Lower, uc.Upper = 10, 20
		nc := &initializers.NormalConfig{Mean: 1, StdDev: 2}
		n, err2 := initializers.NewNormal(nc)
		nc.Mean, nc.StdDev = -50, 0.001
		hc := &initializers.HeUniformConfig{FanIn: 3}
		h, err3 := initializers.NewHeUniform(hc)
		hc.FanIn = 600
		xc := &initializers.XavierNormalConfig{FanIn: 1, FanOut: 1}
		x, err4 := initializers.NewXavierNormal(xc)
		xc.FanIn, xc.FanOut = 500, 500
		fc := &initializers.FullConfig{Value: 2.5}
		f := initializers.NewFull(fc)
		fc.Value = -9
		hnc := &initializers.HeNormalConfig{FanIn: 2}
		hn, err5 := initializers.NewHeNormal(hnc)
		hnc.FanIn = 800
		xuc := &initializers.XavierUniformConfig{FanIn: 2, FanOut: 1}
		xu, err6 := initializers.NewXavierUniform(xuc)
		xuc.FanIn, xuc.FanOut = 300, 300
		if err1 != nil || err2 != nil || err3 != nil || err4 != nil || err5 != nil || err6 != nil {
			return core.Fail("constructors: %v %v %v %v %v %v", err1, err2, err3, err4, err5, err6)
		}
		xrand.Seed(seed + 9)
		src := xrand.New(xrand.NewSource(seed + 9))
		type ini interface {
			Init([]int) (tensor.Tensor, error)
		}
		for k, e := range []struct {
			in   ini
			kind string
			a, b float64
		}{{u, "U", -1, 3}, {n, "N", 1, 2}, {h, "U", -math.Sqrt(2), math.Sqrt(2)}, {x, "N", 0, 1}, {f, "C", 2.5, 0}, {hn, "N", 0, 1}, {xu, "U", -math.Sqrt(2), math.Sqrt(2)}} {
			t, err := e.in.Init([]int{5})
			if err != nil {
				return core.Fail("Init: %v", err)
			}
			got := append([]float64{}, rt.Read(t).V...)
			exp := make([]float64, 5)
			for i := range exp {
				switch e.kind {
				case "C":
					exp[i] = e.a
				case "U":
					exp[i] = distuv.Uniform{Min: e.a, Max: e.b, Src: src}.Rand()
				case "N":
					exp[i] = distuv.Normal{Mu: e.a, Sigma: e.b, Src: src}.Rand()
				}
			}
			sort.Float64s(got)
			sort.Float64s(exp)
			for i := range exp {
				if got[i] != exp[i] {
					// not the seeded stream: judge support and, from 4096 more draws of the SAME object, the scale
					for _, v := range got {
						if (e.kind == "U" && !(v >= e.a && v < e.b)) || (e.kind == "N" && math.Abs(v-e.a) > 8*e.b) || (e.kind == "C" && v != e.a) {
							return core.Fail("initializer %d drew %v after the caller changed its config struct (constructed with %s %v %v)", k, v, e.kind, e.a, e.b)
						}
					}
					if e.kind != "C" {
						var xs []float64
						for len(xs) < 4096 {
							t, err := e.in.Init([]int{64})
							if err != nil {
								return core.Fail("Init: %v", err)
							}
							xs = append(xs, rt.Read(t).V...)
						}
						if m := distStats(e.kind, e.a, e.b, xs[:4096]); m != "" {
							var ys []float64
							for len(ys) < 4096 {
								t, err := e.in.Init([]int{64})
								if err != nil {
									return core.Fail("Init: %v", err)
								}
								ys = append(ys, rt.Read(t).V...)
							}
							if m2 := distStats(e.kind, e.a, e.b, ys[:4096]); m2 != "" {
								return core.Fail("initializer %d (constructed with %s %v %v) after the caller changed its config struct: %s (and again on a second sample: %s)", k, e.kind, e.a, e.b, m, m2)
							}
						}
					}
					break
				}
			}
		}
		return core.Pass()
	})
	// object reuse: ONE initializer object per configuration serves the whole
	// sequence (same configuration, different shapes; interleaved with others)
	var byCfg [][]initCall
	{
		idx := map[string]int{}
		for _, ic := range alpha {
			if ic.Name == "RandU" || ic.Name == "RandN" {
				continue
			}
			k := fmt.Sprintf("%s|%g|%g|%d|%d|%v", ic.Name, ic.A, ic.B, ic.FanIn, ic.FanOut, ic.Nil)
			if _, ok := idx[k]; !ok {
				idx[k] = len(byCfg)
				byCfg = append(byCfg, nil)
			}
			byCfg[idx[k]] = append(byCfg[idx[k]], ic)
		}
	}
	for gi, g := range byCfg {
		for gj, h := range byCfg {
			if gj > gi+2 && gj%5 != 0 {
				continue // every configuration with itself, its two successors and a fifth of the rest
			}
			g, h := g, h
			c.Case(fmt.Sprintf("reuse/%d,%d", gi, gj), true, func() core.Verdict {
				c18ObjCache = map[string]interface {
					Init([]int) (tensor.Tensor, error)
				}{}
				defer func() { c18ObjCache = nil }()
				var seq []initCall
				for k := 0; k < len(g) && k < 4; k++ {
					seq = append(seq, g[k], h[(k+1)%len(h)])
				}
				seq = append(seq, g[0], g[0])
				return c18Sequence(seed+4, seq)
			})
		}
	}
	// triples (thorough: quadruples) over a reduced alphabet: one shape per call kind
	var red []initCall
	for _, ic := range alpha {
		if fmt.Sprint(ic.Shape) == "[2 3]" && (ic.FanIn <= 1 && ic.FanOut <= 1) {
			red = append(red, ic)
		}
	}
	for i := range red {
		for j := range red {
			for k := range red {
				i, j, k := i, j, k
				c.Case(fmt.Sprintf("three/%d,%d,%d", i, j, k), true, func() core.Verdict {
					return c18Sequence(seed+2, []initCall{red[i], red[j], red[k]})
				})
				if c.Thorough() && !c.Expired() {
					for l := range red {
						l := l
						c.Case(fmt.Sprintf("four/%d,%d,%d,%d", i, j, k, l), true, func() core.Verdict {
							return c18Sequence(seed+3, []initCall{red[i], red[j], red[k], red[l]})
						})
					}
				}
			}
		}
	}
}

// c17UpdateCase: one weight tensor of shape s with a gradient produced in one of
// three ways, one Update; the new tensor equals w - lr*g, the previous tensor
// object and its gradient are untouched, a second Update fails.
func c17UpdateCase(s []int, l lrCfg, gm int) core.Verdict {
	w0 := enum.Generic(s, 501, 0.5, 3, true)
	cc := enum.Generic(s, 502, 0.5, 3, true)
	w := rt.Make(w0, true)
	var expG *ref.T
	switch gm {
	case 0: // gradient c from w*c
		y, err := w.Mul(rt.Make(cc, false))
		if err != nil {
			return core.Fail("Mul: %v", err)
		}
		if err := tensor.BackPropagate(y); err != nil {
			return core.Fail("BackPropagate: %v", err)
		}
		expG = cc
	case 1: // gradient 2w from w^2
		if err := tensor.BackPropagate(w.Pow(2)); err != nil {
			return core.Fail("BackPropagate: %v", err)
		}
		expG = ref.Map(w0, func(v float64) float64 { return 2 * v })
	case 2: // two accumulated back-propagations: c + 3
		y1, _ := w.Mul(rt.Make(cc, false))
		y2 := w.Scale(3)
		if err := tensor.BackPropagate(y1); err != nil {
			return core.Fail("BackPropagate: %v", err)
		}
		if err := tensor.BackPropagate(y2); err != nil {
			return core.Fail("BackPropagate: %v", err)
		}
		expG = ref.Map(cc, func(v float64) float64 { return v + 3 })
	case 3: // the weight meets a partner of HIGHER rank whose extra leading dimensions are 1 (a batch of one): gradient c, of the weight's own shape
		hs := append([]int{1, 1}, s...)
		y, err := w.Mul(rt.Make(&ref.T{Shape: hs, V: cc.V}, false))
		if err != nil {
			return core.Fail("Mul with a [1,1,...] partner: %v", err)
		}
		if err := tensor.BackPropagate(y); err != nil {
			return core.Fail("BackPropagate: %v", err)
		}
		expG = cc
	case 4: // the partner is the receiver, the weight the lower-rank argument, plus a second contribution of the same kind through Add
		hs := append([]int{1}, s...)
		h := rt.Make(&ref.T{Shape: hs, V: cc.V}, false)
		y1, err := h.Mul(w)
		if err != nil {
			return core.Fail("Mul with a [1,...] receiver: %v", err)
		}
		y2, err := h.Add(w)
		if err != nil {
			return core.Fail("Add with a [1,...] receiver: %v", err)
		}
		if err := tensor.BackPropagate(y1); err != nil {
			return core.Fail("BackPropagate: %v", err)
		}
		if err := tensor.BackPropagate(y2); err != nil {
			return core.Fail("BackPropagate: %v", err)
		}
		expG = ref.Map(cc, func(v float64) float64 { return v + 1 })
	}
	old := w
	oldG := w.Gradient()
	if oldG == nil {
		return core.Fail("no gradient after back-propagation")
	}
	if ok, msg := core.Close(rt.Read(oldG), expG, 10); !ok {
		return core.Fail("gradient before update: %s", msg)
	}
	ptr := w
	if err := l.opt().Update(&ptr); err != nil {
		return core.Fail("Update: %v", err)
	}
	exp := ref.New(s)
	for i := range exp.V {
		exp.V[i] = w0.V[i] - l.value()*expG.V[i]
	}
	if ptr == nil {
		return core.Fail("Update replaced the tensor by nil")
	}
	if ok, msg := core.Close(rt.Read(ptr), exp, 10); !ok {
		return core.Fail("updated weight (lr=%v): %s", l.value(), msg)
	}
	// the previous tensor object and its gradient are unchanged
	if ok, msg := core.ExactEq(rt.Read(old), w0); !ok {
		return core.Fail("previous tensor object changed by Update: %s", msg)
	}
	if old.Gradient() == nil {
		return core.Fail("previous tensor's gradient was removed by Update")
	}
	if ok, msg := core.Close(rt.Read(old.Gradient()), expG, 10); !ok {
		return core.Fail("previous tensor's gradient changed by Update: %s", msg)
	}
	// a second Update without a new gradient must fail and replace nothing
	before := ptr
	if err := l.opt().Update(&ptr); err == nil {
		return core.Fail("Update on a tensor without gradient returned no error")
	}
	if ptr != before {
		return core.Fail("failed Update replaced the tensor")
	}
	return core.Pass()
}

// distStats: 4096 draws x of a distribution claimed to be uniform on [a,b) ("U")
// or normal(a, b) ("N"): sample mean and deviation within 6 sigma, and the
// probability mass of a few windows within 6 sigma of the binomial count.
// Returns "" or a description of the first statistic that is off.
func distStats(kind string, a, b float64, x []float64) string {
	mean, sd := 0., 0.
	for _, v := range x {
		mean += v
	}
	mean /= float64(len(x))
	for _, v := range x {
		sd += (v - mean) * (v - mean)
	}
	sd = math.Sqrt(sd / float64(len(x)-1))
	var em, es float64
	if kind == "U" {
		em, es = (a+b)/2, (b-a)/math.Sqrt(12)
	} else {
		em, es = a, b
	}
	nn := float64(len(x))
	if math.Abs(mean-em) > 6*es/math.Sqrt(nn) || math.Abs(sd-es) > 6*es/math.Sqrt(2*nn)*1.5 {
		return fmt.Sprintf("sample moments of %d elements (mean %v, sd %v) are off the configured (mean %v, sd %v)", len(x), mean, sd, em, es)
	}
	// shape of the distribution: probability mass of a few windows, 6 sigma of
	// the binomial count (a truncated or otherwise reshaped law has the right
	// first two moments but not these)
	type win struct {
		name string
		p    float64
		in   func(v float64) bool
	}
	var wins []win
	if kind == "N" {
		wins = []win{
			{"|x-mu| > 2 sigma", 0.0455, func(v float64) bool { return math.Abs(v-a) > 2*b }},
			{"|x-mu| > 2.5 sigma", 0.01242, func(v float64) bool { return math.Abs(v-a) > 2.5*b }},
			{"|x-mu| < 0.5 sigma", 0.38292, func(v float64) bool { return math.Abs(v-a) < 0.5*b }},
			{"x > mu", 0.5, func(v float64) bool { return v > a }},
		}
	} else {
		q := (b - a) / 4
		wins = []win{
			{"first quarter of the support", 0.25, func(v float64) bool { return v < a+q }},
			{"last quarter of the support", 0.25, func(v float64) bool { return v >= b-q }},
			{"middle half of the support", 0.5, func(v float64) bool { return v >= a+q && v < b-q }},
		}
	}
	for _, w := range wins {
		cnt := 0.
		for _, v := range x {
			if w.in(v) {
				cnt++
			}
		}
		n := float64(len(x))
		if dev := 6 * math.Sqrt(n*w.p*(1-w.p)); math.Abs(cnt-n*w.p) > dev {
			return fmt.Sprintf("%v of the draws fall in the window '%s' (expected %.0f +- %.0f): not the configured %s distribution", cnt, w.name, n*w.p, dev, map[string]string{"N": "normal", "U": "uniform"}[kind])
		}
	}
	return ""
}
