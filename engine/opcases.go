package main

import (
	"fmt"
	"math"

	"qmc/enum"
	"qmc/ref"
)

// OpCase is one (operation, operand shapes) configuration without implicit
// expansion (binary operands share a shape; MatMul/Dot share batch dims).
type OpCase struct {
	Op ref.Op
	In [][]int
}

func (oc OpCase) ID() string { return fmt.Sprintf("%s%v", oc.Op.String(), oc.In) }

var powExponents = []float64{-2, -1, -0.5, 0, 0.5, 1, 1.7, 2, 3}
var scaleFactors = []float64{-1.5, 0, 0.1, 1, 2}

type opCaseOpts struct {
	shapes       [][]int // operand shape set
	maxIndexRank int     // Slice/Patch index products only for rank <= this
	concatSizes  []int
	concat3      bool
	// bigIndexLimit: shapes with more elements than this get only a few
	// representative Slice/Patch index lists instead of the full product (0 = no limit)
	bigIndexLimit int
}

// forEachOpCase enumerates, simplest first, every configuration of the 33
// differentiable operations other than Broadcast over the shape set.
func forEachOpCase(o opCaseOpts, f func(oc OpCase)) {
	for _, s := range o.shapes {
		sh := func() []int { return ref.CopyShape(s) }
		for _, a := range scaleFactors {
			f(OpCase{ref.Op{K: "Scale", F: a}, [][]int{sh()}})
		}
		for _, a := range powExponents {
			f(OpCase{ref.Op{K: "Pow", F: a}, [][]int{sh()}})
		}
		for _, k := range []string{"Exp", "Log", "Sin", "Cos", "Tan", "Sinh", "Cosh", "Tanh"} {
			f(OpCase{ref.Op{K: k}, [][]int{sh()}})
		}
		for _, k := range []string{"Add", "Sub", "Mul", "Div", "ElMax", "ElMin"} {
			f(OpCase{ref.Op{K: k}, [][]int{sh(), sh()}})
		}
		if len(s) >= 1 {
			f(OpCase{ref.Op{K: "Dot"}, [][]int{sh(), sh()}})
		}
		if len(s) >= 2 {
			for _, k := range []int{1, 2, 3} {
				b := sh()
				b[len(b)-2] = s[len(s)-1]
				b[len(b)-1] = k
				f(OpCase{ref.Op{K: "MatMul"}, [][]int{sh(), b}})
			}
			f(OpCase{ref.Op{K: "Transpose"}, [][]int{sh()}})
		}
		for _, t := range enum.SameCountShapes(o.shapes, ref.Size(s)) {
			f(OpCase{ref.Op{K: "Reshape", Shape: ref.CopyShape(t)}, [][]int{sh()}})
		}
		for d := 0; d <= len(s); d++ {
			f(OpCase{ref.Op{K: "UnSqueeze", Dim: d}, [][]int{sh()}})
		}
		for d := 0; d < len(s); d++ {
			if s[d] == 1 {
				f(OpCase{ref.Op{K: "Squeeze", Dim: d}, [][]int{sh()}})
			}
			f(OpCase{ref.Op{K: "Flatten", Dim: d}, [][]int{sh()}})
			for _, k := range ref.AlongKinds {
				f(OpCase{ref.Op{K: k, Dim: d}, [][]int{sh()}})
			}
		}
		maxD := 0
		for _, d := range s {
			if d > maxD {
				maxD = d
			}
		}
		if maxD > 3 || (o.bigIndexLimit > 0 && ref.Size(s) > o.bigIndexLimit) {
			// long dimensions: a window in the middle, a prefix, a partial index
			mid := make([]ref.Range, len(s))
			pre := make([]ref.Range, len(s))
			for i, d := range s {
				mid[i] = ref.Range{From: d / 3, To: d/3 + (d+1)/2}
				pre[i] = ref.Range{From: 0, To: (d + 1) / 2}
			}
			for _, ix := range [][]ref.Range{mid, pre, mid[:1]} {
				f(OpCase{ref.Op{K: "Slice", Index: ix}, [][]int{sh()}})
				src, _ := ref.ResultShape(ref.Op{K: "Slice", Index: ix}, [][]int{s})
				f(OpCase{ref.Op{K: "Patch", Index: ix}, [][]int{sh(), src}})
			}
		} else if len(s) <= o.maxIndexRank {
			for _, ix := range enum.IndexLists(s) {
				f(OpCase{ref.Op{K: "Slice", Index: ix}, [][]int{sh()}})
			}
			for _, src := range enum.SubShapes(s) {
				for _, ix := range enum.PatchIndexLists(src, s) {
					f(OpCase{ref.Op{K: "Patch", Index: ix}, [][]int{sh(), src}})
				}
			}
		}
		for d := 0; d < len(s); d++ {
			if s[d] != 1 { // enumerate each base (shape without the dim size) once
				continue
			}
			for _, d1 := range o.concatSizes {
				for _, d2 := range o.concatSizes {
					a, b := sh(), sh()
					a[d], b[d] = d1, d2
					f(OpCase{ref.Op{K: "Concat", Dim: d}, [][]int{a, b}})
					if o.concat3 {
						for _, d3 := range o.concatSizes {
							c := sh()
							c[d] = d3
							f(OpCase{ref.Op{K: "Concat", Dim: d}, [][]int{a, b, c}})
						}
					}
				}
			}
		}
	}
}

// genInputs produces generic operand values inside the operation's domain of
// differentiability.
func genInputs(op ref.Op, in [][]int, salt uint64) []*ref.T {
	out := make([]*ref.T, len(in))
	for i, s := range in {
		sl := salt*1315423911 + uint64(i)*2654435761 + 17
		switch op.K {
		case "Log":
			out[i] = enum.Generic(s, sl, 0.5, 3, false)
		case "Pow":
			if op.F != math.Trunc(op.F) {
				out[i] = enum.Generic(s, sl, 0.5, 3, false)
			} else {
				out[i] = enum.Generic(s, sl, 0.5, 2.5, true)
			}
		case "Tan":
			out[i] = enum.Generic(s, sl, 0.1, 1.2, true)
		case "Exp", "Sinh", "Cosh", "Tanh":
			out[i] = enum.Generic(s, sl, 0.1, 2.5, true)
		default:
			out[i] = enum.Generic(s, sl, 0.5, 3, true)
		}
	}
	return out
}
