package main

import (
	"fmt"
	"math"
	"strings"

	"github.com/sahandsafizadeh/qeep/tensor"
	"qmc/core"
	"qmc/enum"
	"qmc/ref"
	"qmc/rt"
)

/* C08: tracked / spent state machine, explored breadth-first over API histories */

type c08Ev struct {
	K    string // "leaf" "un" "bin" "cat" "cmp" "bp" "reset"
	I, J int
	B    bool
}

type c08T struct {
	tracked, spent, hasGrad bool
	leaf                    bool
	ops                     []int // model operands (creation kind)
	kind                    string
	shapeN                  int // 2 or 4
	val                     *ref.T
	grad                    *ref.T // accumulated model gradient
	nAcc                    int
	cmpOfSpent              bool
}

type c08Sys struct {
	maxPool int
	unary   []string // unary operation kinds of this search: "scale2", and the identity-like "bcast", "reshape", "slice", "scale1"
}

// c08UnaryOp: the model operation of a unary kind on a tensor of n elements.
func c08UnaryOp(kind string, n int) ref.Op {
	switch kind {
	case "bcast":
		return ref.Op{K: "Broadcast", Shape: []int{n}}
	case "reshape":
		return ref.Op{K: "Reshape", Shape: []int{n}}
	case "slice":
		return ref.Op{K: "Slice"}
	case "scale1":
		return ref.Op{K: "Scale", F: 1}
	}
	return ref.Op{K: "Scale", F: 2}
}

func (s *c08Sys) Name(e c08Ev) string {
	switch e.K {
	case "leaf":
		return fmt.Sprintf("leaf(%v)", e.B)
	case "un":
		return fmt.Sprintf("%s(%d)", s.unary[e.J], e.I)
	case "bin":
		return fmt.Sprintf("mul(%d,%d)", e.I, e.J)
	case "cat":
		return fmt.Sprintf("cat(%d,%d)", e.I, e.J)
	case "cmp":
		return fmt.Sprintf("gt(%d,%d)", e.I, e.J)
	case "bp":
		return fmt.Sprintf("bp(%d)", e.I)
	case "reset":
		return fmt.Sprintf("reset(%d,%v)", e.I, e.B)
	}
	return "?"
}

func c08LeafVal(k int) *ref.T {
	return &ref.T{Shape: []int{2}, V: []float64{0.5 + 0.37*float64(k+1), -1.25 + 0.81*float64(k+1)}}
}

// reach: tensors BP(r) passes through in the model: r and every tracked
// tensor reachable from it through tracked tensors.
func c08Reach(ts []*c08T, r int) []int {
	if !ts[r].tracked {
		return nil
	}
	seen := map[int]bool{r: true}
	order := []int{r}
	for k := 0; k < len(order); k++ {
		for _, o := range ts[order[k]].ops {
			if ts[o].tracked && !seen[o] {
				seen[o] = true
				order = append(order, o)
			}
		}
	}
	return order
}

// modelApply applies one event to the model state (returns false if the event
// is not enabled by the property's preconditions).
func (s *c08Sys) enabled(ts []*c08T, e c08Ev) bool {
	n := len(ts)
	switch e.K {
	case "leaf":
		return n < s.maxPool
	case "un":
		return n < s.maxPool && e.I < n
	case "bin":
		return n < s.maxPool && e.I < n && e.J < n && ts[e.I].shapeN == ts[e.J].shapeN
	case "cat":
		return n < s.maxPool && e.I < n && e.J < n && ts[e.I].shapeN == 2 && ts[e.J].shapeN == 2
	case "cmp":
		// the statement is silent on tensors computed from the comparison of
		// a spent tensor: do not generate them
		return n < s.maxPool && e.I < n && e.J < n && ts[e.I].shapeN == ts[e.J].shapeN && !ts[e.I].spent && !ts[e.J].spent
	case "bp":
		if e.I >= n {
			return false
		}
		// (a) no back-propagation passes through a non-leaf tensor that an
		// earlier one already passed through
		for _, id := range c08Reach(ts, e.I) {
			if !ts[id].leaf && ts[id].spent {
				return false
			}
		}
		return true
	case "reset":
		if e.I >= n {
			return false
		}
		// (b) no tracked, not yet back-propagated result computed from it
		// (directly or transitively)
		desc := map[int]bool{e.I: true}
		for j := e.I + 1; j < n; j++ {
			for _, o := range ts[j].ops {
				if desc[o] {
					desc[j] = true
				}
			}
			if desc[j] && ts[j].tracked && !ts[j].spent {
				return false
			}
		}
		return true
	}
	return false
}

func (s *c08Sys) modelApply(ts []*c08T, e c08Ev) []*c08T {
	switch e.K {
	case "leaf":
		return append(ts, &c08T{tracked: e.B, leaf: true, kind: "leaf", shapeN: 2, val: c08LeafVal(len(ts))})
	case "un", "bin", "cat", "cmp":
		ops := []int{e.I}
		if e.K != "un" {
			ops = []int{e.I, e.J}
		}
		t := &c08T{ops: ops, kind: e.K, shapeN: ts[e.I].shapeN}
		if e.K == "un" {
			t.kind = "un:" + s.unary[e.J]
		}
		anyTracked, anySpent := false, false
		for _, o := range ops {
			anyTracked = anyTracked || ts[o].tracked
			anySpent = anySpent || ts[o].spent
		}
		in := []*ref.T{ts[e.I].val}
		var op ref.Op
		switch e.K {
		case "un":
			op = c08UnaryOp(s.unary[e.J], ts[e.I].shapeN)
		case "bin":
			op = ref.Op{K: "Mul"}
			in = append(in, ts[e.J].val)
		case "cat":
			op = ref.Op{K: "Concat", Dim: 0}
			in = append(in, ts[e.J].val)
			t.shapeN = 4
		case "cmp":
			op = ref.Op{K: "Gt"}
			in = append(in, ts[e.J].val)
		}
		t.val, _ = ref.Eval(op, in)
		if e.K == "cmp" {
			t.ops = nil // comparison results carry no graph
			t.leaf = true
			return append(ts, t)
		}
		t.spent = anySpent
		t.tracked = anyTracked && !anySpent
		if !t.tracked {
			t.ops = ops // kept for the Reset precondition only
		}
		return append(ts, t)
	case "bp":
		reach := c08Reach(ts, e.I)
		if len(reach) == 0 {
			return ts
		}
		// model gradient values: reverse pass over the history's program
		p, idmap := c08Program(ts)
		vals, _ := p.Forward()
		grads, _ := p.Backward(vals, idmap[e.I], nil, false)
		for _, id := range reach {
			ts[id].spent = true
			ts[id].hasGrad = true
			ts[id].nAcc++
			g := grads[idmap[id]]
			if ts[id].grad == nil {
				ts[id].grad = g.Clone()
			} else {
				for k := range g.V {
					ts[id].grad.V[k] += g.V[k]
				}
			}
		}
		return ts
	case "reset":
		t := ts[e.I]
		t.tracked, t.spent, t.hasGrad, t.leaf, t.grad, t.nAcc = e.B, false, false, true, nil, 0
		// consumers keep e.I in their ops (needed for precondition (b)); the
		// tensor itself no longer has operands
		t.ops = nil
		t.kind = "leaf"
		return ts
	}
	panic("HARNESS: unknown event")
}

// c08Program renders the model state as a ref.Program whose tracked flags are
// the model's (so ref's reverse pass walks exactly the tracked sub-graph).
func c08Program(ts []*c08T) (*ref.Program, []int) {
	p := &ref.Program{}
	idmap := make([]int, len(ts))
	// leaves first (anything without graph operands), then nodes in creation order
	var nodes []int
	for i, t := range ts {
		if t.tracked && len(t.ops) > 0 {
			nodes = append(nodes, i)
		} else {
			idmap[i] = len(p.Leaves)
			p.Leaves = append(p.Leaves, t.val)
			p.Tracked = append(p.Tracked, t.tracked)
		}
	}
	L := len(p.Leaves)
	for k, i := range nodes {
		idmap[i] = L + k
	}
	tr := append([]bool{}, p.Tracked...)
	for _, i := range nodes {
		t := ts[i]
		in := make([]int, len(t.ops))
		for k, o := range t.ops {
			in[k] = idmap[o]
		}
		var op ref.Op
		switch {
		case strings.HasPrefix(t.kind, "un:"):
			op = c08UnaryOp(t.kind[3:], t.shapeN)
		}
		switch t.kind {
		case "bin":
			op = ref.Op{K: "Mul"}
		case "cat":
			op = ref.Op{K: "Concat", Dim: 0}
		}
		p.Nodes = append(p.Nodes, ref.Node{Op: op, In: in})
		tr = append(tr, true)
	}
	p.TrOverride = tr
	return p, idmap
}

func (s *c08Sys) modelRun(hist []c08Ev) []*c08T {
	var ts []*c08T
	for _, e := range hist {
		ts = s.modelApply(ts, e)
	}
	return ts
}

func (s *c08Sys) Enabled(hist []c08Ev) []c08Ev {
	ts := s.modelRun(hist)
	n := len(ts)
	var cands []c08Ev
	cands = append(cands, c08Ev{K: "leaf", B: true}, c08Ev{K: "leaf", B: false})
	for i := 0; i < n; i++ {
		for k := range s.unary {
			cands = append(cands, c08Ev{K: "un", I: i, J: k})
		}
	}
	for i := 0; i < n; i++ {
		for j := i; j < n; j++ {
			cands = append(cands, c08Ev{K: "bin", I: i, J: j}, c08Ev{K: "cmp", I: i, J: j})
		}
		for j := 0; j < n; j++ {
			cands = append(cands, c08Ev{K: "cat", I: i, J: j})
		}
	}
	for i := 0; i < n; i++ {
		cands = append(cands, c08Ev{K: "bp", I: i}, c08Ev{K: "reset", I: i, B: true}, c08Ev{K: "reset", I: i, B: false})
	}
	var out []c08Ev
	for _, e := range cands {
		if s.enabled(ts, e) {
			out = append(out, e)
		}
	}
	return out
}

func c08Key(ts []*c08T) string {
	var b strings.Builder
	for _, t := range ts {
		fmt.Fprintf(&b, "%s%v|%v%v%v%v|%d|%d;", t.kind, t.ops, t.tracked, t.spent, t.hasGrad, t.leaf, t.shapeN, t.nAcc)
	}
	return b.String()
}

func (s *c08Sys) Step(hist []c08Ev) (string, core.Verdict) {
	// model
	ts := s.modelRun(hist)
	// real
	var rs []tensor.Tensor
	for step, e := range hist {
		switch e.K {
		case "leaf":
			rs = append(rs, rt.Make(c08LeafVal(len(rs)), e.B))
		case "un":
			r, err := rt.Apply(c08UnaryOp(s.unary[e.J], ts[e.I].shapeN), []tensor.Tensor{rs[e.I]})
			if err != nil {
				return "", core.Fail("step %d %s: %v", step, s.Name(e), err)
			}
			rs = append(rs, r)
		case "bin":
			r, err := rs[e.I].Mul(rs[e.J])
			if err != nil {
				return "", core.Fail("step %d %s: %v", step, s.Name(e), err)
			}
			rs = append(rs, r)
		case "cat":
			r, err := tensor.Concat([]tensor.Tensor{rs[e.I], rs[e.J]}, 0)
			if err != nil {
				return "", core.Fail("step %d %s: %v", step, s.Name(e), err)
			}
			rs = append(rs, r)
		case "cmp":
			r, err := rs[e.I].Gt(rs[e.J])
			if err != nil {
				return "", core.Fail("step %d %s: %v", step, s.Name(e), err)
			}
			rs = append(rs, r)
		case "bp":
			if err := tensor.BackPropagate(rs[e.I]); err != nil {
				return "", core.Fail("step %d %s: BackPropagate error %v", step, s.Name(e), err)
			}
		case "reset":
			rs[e.I].ResetGradContext(e.B)
		}
	}
	// oracles on EVERY tensor after the last event
	for i, t := range ts {
		r := rs[i]
		if ok, msg := core.Close(rt.Read(r), t.val, 100); !ok {
			return "", core.Fail("tensor %d forward value (tracking must never change forward values): %s", i, msg)
		}
		g := r.Gradient()
		if (g != nil) != t.hasGrad {
			return "", core.Fail("tensor %d: Gradient()!=nil is %v, model says %v [model tracked=%v spent=%v]", i, g != nil, t.hasGrad, t.tracked, t.spent)
		}
		tracked, dirty, _, targets, ok := tensor.VerifGradState(r)
		if !ok {
			return "", core.Fail("HARNESS: VerifGradState failed")
		}
		if tracked != t.tracked {
			return "", core.Fail("tensor %d: real tracked=%v, model tracked=%v (kind %s ops %v)", i, tracked, t.tracked, t.kind, t.ops)
		}
		if dirty != t.spent {
			return "", core.Fail("tensor %d: real spent flag=%v, model spent=%v (kind %s ops %v)", i, dirty, t.spent, t.kind, t.ops)
		}
		isNode := t.tracked && len(t.ops) > 0
		if !t.spent && isNode != (len(targets) > 0) {
			return "", core.Fail("tensor %d: has %d back edges, model says graph node=%v", i, len(targets), isNode)
		}
		if g != nil {
			if ok, msg := core.Close(rt.Read(g), t.grad, 1000); !ok {
				return "", core.Fail("tensor %d gradient after %d accumulation(s): %s", i, t.nAcc, msg)
			}
			gt, _, gg, _, _ := tensor.VerifGradState(g)
			if gt || gg != nil || g.Gradient() != nil {
				return "", core.Fail("tensor %d: its gradient tensor is tracked=%v / has a gradient itself", i, gt)
			}
		}
	}
	// behavioural probe of 'spent': a result computed from every tensor
	// together with a fresh tracked leaf is tracked iff the tensor is not spent
	for i, t := range ts {
		fresh := rt.Make(ref.FullOf([]int{t.shapeN}, 1), true)
		pr, err := rs[i].Mul(fresh)
		if err != nil {
			return "", core.Fail("probe Mul on tensor %d: %v", i, err)
		}
		ptr, _, _, _, _ := tensor.VerifGradState(pr)
		if ptr != !t.spent {
			return "", core.Fail("tensor %d (model spent=%v): result computed from it and a fresh tracked leaf has tracked=%v", i, t.spent, ptr)
		}
	}
	return c08Key(ts), core.Pass()
}

// c08OpTable: for EVERY differentiable operation (each has its own copy of the
// tracking prelude in gradtrack) and every combination of operand states
// {fresh tracked, fresh untracked, spent tracked, untracked result of a spent
// tensor}, the result is tracked iff some operand is tracked and none is spent,
// and spent iff some operand is spent; forward values never depend on it.
// gradSnap / gradChanged: "did this tensor receive (more) gradient" judged by VALUE (nil-ness and
// elements), so that a Gradient() accessor that hands out a defensive copy is as good as one that
// returns the stored tensor.
func gradSnap(t tensor.Tensor) *ref.T {
	if g := t.Gradient(); g != nil {
		return rt.Read(g)
	}
	return nil
}

func gradChanged(before *ref.T, t tensor.Tensor) bool {
	after := gradSnap(t)
	if (before == nil) != (after == nil) {
		return true
	}
	if before == nil {
		return false
	}
	ok, _ := core.ExactEq(after, before)
	return !ok
}

func c08OpTable(c *core.Ctx) {
	states := []string{"T", "U", "S", "D"}
	mkState := func(x *ref.T, st string) tensor.Tensor {
		switch st {
		case "T":
			return rt.Make(x, true)
		case "U":
			return rt.Make(x, false)
		case "S": // tracked leaf that took part in a back-propagation
			t := rt.Make(x, true)
			if err := tensor.BackPropagate(t.Scale(1)); err != nil {
				panic("BackPropagate from Scale(1) of a fresh tracked leaf failed: " + err.Error())
			}
			return t
		}
		// "D": untracked result computed from a spent tensor (same values)
		t := rt.Make(x, true)
		if err := tensor.BackPropagate(t.Scale(1)); err != nil {
			panic("BackPropagate from Scale(1) of a fresh tracked leaf failed: " + err.Error())
		}
		return t.Scale(1)
	}
	opts := opCaseOpts{shapes: [][]int{{2}, {2, 2}, {1, 2, 2}}, maxIndexRank: 1, concatSizes: []int{1}, concat3: true}
	seen := map[string]bool{}
	forEachOpCase(opts, func(oc OpCase) {
		// one representative configuration per (operation kind, arity) is enough here
		key := fmt.Sprintf("%s/%d", oc.Op.K, len(oc.In))
		if oc.Op.K == "Scale" || oc.Op.K == "Pow" {
			key = fmt.Sprintf("%s/%g", oc.Op.K, oc.Op.F) // a constant exponent / factor may get its own shortcut
		}
		if oc.Op.K == "Patch" && len(oc.In) == 2 {
			key = fmt.Sprintf("Patch/full%v", ref.SameShape(oc.In[0], oc.In[1])) // a source that replaces the whole target may get its own shortcut
		}
		if oc.Op.K == "Slice" && len(oc.In) == 1 {
			sh, _ := ref.ResultShape(oc.Op, oc.In)
			key = fmt.Sprintf("Slice/whole%v", ref.SameShape(sh, oc.In[0]))
		}
		if oc.Op.K == "Reshape" || oc.Op.K == "Flatten" || oc.Op.K == "Broadcast" {
			sh, _ := ref.ResultShape(oc.Op, oc.In)
			key = fmt.Sprintf("%s/same%v", oc.Op.K, ref.SameShape(sh, oc.In[0])) // a shape operation that changes nothing
		}
		if seen[key] {
			return
		}
		seen[key] = true
		n := len(oc.In)
		total := 1
		for i := 0; i < n; i++ {
			total *= len(states)
		}
		for code := 0; code < total*5; code++ {
			// dv > 0: special operand DATA (round 16): operand 0 above / below everything else, operand 0 all zeros,
			// the last operand all zeros - tracking must not depend on the values
			code, dv := code%total, code/total
			if dv > 0 && !c08DataVariantOps[oc.Op.K] {
				continue
			}
			c.Case(fmt.Sprintf("optable/%s/%d%s", oc.ID(), code, []string{"", "/dominates0", "/dominated0", "/zeros0", "/zerosLast"}[dv]), true, func() core.Verdict {
				in := genInputs(oc.Op, oc.In, 61)
				switch dv {
				case 1:
					in[0] = ref.Map(in[0], func(v float64) float64 { return math.Abs(v) + 10 })
				case 2:
					in[0] = ref.Map(in[0], func(v float64) float64 { return -math.Abs(v) - 10 })
				case 3:
					in[0] = ref.FullOf(in[0].Shape, 0)
				case 4:
					in[len(in)-1] = ref.FullOf(in[len(in)-1].Shape, 0)
				}
				rin := make([]tensor.Tensor, n)
				anyTracked, anySpent := false, false
				x := code
				desc := ""
				for i := 0; i < n; i++ {
					st := states[x%len(states)]
					x /= len(states)
					desc += st
					rin[i] = mkState(in[i], st)
					anyTracked = anyTracked || st == "T" || st == "S"
					anySpent = anySpent || st == "S" || st == "D"
				}
				y, err := rt.Apply(oc.Op, rin)
				if err != nil {
					return core.Fail("%s with operand states %s: %v", oc.ID(), desc, err)
				}
				exp, _ := ref.Eval(oc.Op, in)
				if ok, msg := core.Close(rt.Read(y), exp, scaleOf(append(in, exp)...)); !ok {
					return core.Fail("%s with operand states %s: forward value depends on tracking: %s", oc.ID(), desc, msg)
				}
				tr, dirty, g, _, _ := tensor.VerifGradState(y)
				wantTr := anyTracked && !anySpent
				if tr != wantTr || dirty != anySpent || g != nil {
					return core.Fail("%s with operand states %s (T tracked, U untracked, S spent, D derived from spent): result tracked=%v spent=%v hasGradient=%v, expected tracked=%v spent=%v no gradient", oc.ID(), desc, tr, dirty, g != nil, wantTr, anySpent)
				}
				// behavioural: back-propagating the result reaches exactly the fresh tracked operands
				before := make([]*ref.T, n)
				for i := range rin {
					before[i] = gradSnap(rin[i])
				}
				if err := tensor.BackPropagate(y); err != nil {
					return core.Fail("%s with operand states %s: BackPropagate: %v", oc.ID(), desc, err)
				}
				x = code
				for i := 0; i < n; i++ {
					st := states[x%len(states)]
					x /= len(states)
					changed := gradChanged(before[i], rin[i])
					want := wantTr && st == "T"
					if changed != want {
						return core.Fail("%s with operand states %s: operand %d (%s) gradient assigned=%v, expected %v", oc.ID(), desc, i, st, changed, want)
					}
				}
				return core.Pass()
			})
		}
	})
	// implicitly broadcasting operations with operands of DIFFERENT rank / shape (a scalar argument, a
	// scalar receiver, a lower-rank argument, mutual expansion): the same table
	for _, k := range []string{"Add", "Sub", "Mul", "Div", "Dot", "MatMul"} {
		for pi, pair := range [][2][]int{{{2}, {}}, {{}, {2}}, {{2, 2}, {2}}, {{2}, {2, 2}}, {{2, 1}, {1, 2}}, {{1, 2, 2}, {2, 2}}, {{2, 2}, {1, 2, 2}}} {
			if k == "MatMul" && (len(pair[0]) < 2 || len(pair[1]) < 2) {
				continue
			}
			if k == "Dot" && (len(pair[0]) == 0 || len(pair[1]) == 0) {
				continue
			}
			op := ref.Op{K: k}
			if _, ok := ref.ResultShape(op, [][]int{pair[0], pair[1]}); !ok {
				continue
			}
			for code := 0; code < 16; code++ {
				k, pi, pair, code := k, pi, pair, code
				c.Case(fmt.Sprintf("optable/mixed/%s/%d/%d", k, pi, code), true, func() core.Verdict {
					in := []*ref.T{enum.Generic(pair[0], 63, 0.5, 2, false), enum.Generic(pair[1], 64, 0.5, 2, false)}
					sa, sb := states[code%4], states[code/4]
					rin := []tensor.Tensor{mkState(in[0], sa), mkState(in[1], sb)}
					anyTracked := sa == "T" || sa == "S" || sb == "T" || sb == "S"
					anySpent := sa == "S" || sa == "D" || sb == "S" || sb == "D"
					y, err := rt.Apply(op, rin)
					if err != nil {
						return core.Fail("%s on shapes %v with operand states %s%s: %v", k, pair, sa, sb, err)
					}
					tr, dirty, g, _, _ := tensor.VerifGradState(y)
					wantTr := anyTracked && !anySpent
					if tr != wantTr || dirty != anySpent || g != nil {
						return core.Fail("%s on shapes %v with operand states %s%s (T tracked, U untracked, S spent, D derived from spent): result tracked=%v spent=%v, expected tracked=%v spent=%v", k, pair, sa, sb, tr, dirty, wantTr, anySpent)
					}
					before := []*ref.T{gradSnap(rin[0]), gradSnap(rin[1])}
					if err := tensor.BackPropagate(y); err != nil {
						return core.Fail("%s on shapes %v with operand states %s%s: BackPropagate: %v", k, pair, sa, sb, err)
					}
					for i, st := range []string{sa, sb} {
						changed := gradChanged(before[i], rin[i])
						if want := wantTr && st == "T"; changed != want {
							return core.Fail("%s on shapes %v with operand states %s%s: operand %d gradient assigned=%v, expected %v", k, pair, sa, sb, i, changed, want)
						}
						if wantTr && st == "T" {
							// spent now: a later result of it is untracked and spent
							if tr2, d2, _, _, _ := tensor.VerifGradState(rin[i].Scale(2)); tr2 || !d2 {
								return core.Fail("%s on shapes %v: operand %d was back-propagated through but a later result of it is tracked=%v spent=%v", k, pair, i, tr2, d2)
							}
						}
					}
					return core.Pass()
				})
			}
		}
	}
	// n-ary Concat with MANY operands: all untracked except one (at the first,
	// middle or last position) in each of the states T, S, D
	for _, k := range operandCounts(c.Thorough()) {
		for _, pos := range []int{0, k / 2, k - 1} {
			for _, st := range []string{"T", "S", "D", "U"} {
				k, pos, st := k, pos, st
				c.Case(fmt.Sprintf("optable/ConcatN/k%d/p%d/%s", k, pos, st), true, func() core.Verdict {
					rin := make([]tensor.Tensor, k)
					for i := range rin {
						x := enum.Generic([]int{2}, uint64(700+i), 0.5, 2, true)
						if i == pos {
							rin[i] = mkState(x, st)
						} else {
							rin[i] = rt.Make(x, false)
						}
					}
					special := rin[pos]
					before := gradSnap(special)
					y, err := tensor.Concat(append([]tensor.Tensor{}, rin...), 0)
					if err != nil {
						return core.Fail("Concat of %d tensors: %v", k, err)
					}
					tr, dirty, g, _, _ := tensor.VerifGradState(y)
					wantTr := st == "T"
					wantSpent := st == "S" || st == "D"
					if tr != wantTr || dirty != wantSpent || g != nil {
						return core.Fail("Concat of %d tensors, all untracked except operand %d in state %s (T tracked, S spent, D derived from spent): result tracked=%v spent=%v, expected tracked=%v spent=%v", k, pos, st, tr, dirty, wantTr, wantSpent)
					}
					if err := tensor.BackPropagate(y); err != nil {
						return core.Fail("BackPropagate: %v", err)
					}
					if changed := gradChanged(before, special); changed != wantTr {
						return core.Fail("Concat of %d tensors, operand %d in state %s: gradient assigned=%v, expected %v", k, pos, st, changed, wantTr)
					}
					if wantTr {
						if ok, msg := core.ExactEq(rt.Read(special.Gradient()), ref.FullOf([]int{2}, 1)); !ok {
							return core.Fail("Concat of %d tensors, tracked operand %d: gradient %s", k, pos, msg)
						}
						// the operand is spent now: a later result computed from it is untracked and spent
						z := special.Scale(2)
						if tr2, d2, _, _, _ := tensor.VerifGradState(z); tr2 || !d2 {
							return core.Fail("Concat of %d tensors: operand %d was back-propagated through but a later result of it is tracked=%v spent=%v", k, pos, tr2, d2)
						}
					}
					return core.Pass()
				})
			}
		}
	}
	// comparisons: always untracked and fresh
	for _, k := range ref.CompareKinds {
		for code := 0; code < 16; code++ {
			k, code := k, code
			c.Case(fmt.Sprintf("optable/%s/%d", k, code), true, func() core.Verdict {
				in := genInputs(ref.Op{K: k}, [][]int{{2, 2}, {2, 2}}, 62)
				a, b := mkState(in[0], states[code%4]), mkState(in[1], states[code/4])
				y, err := rt.Apply(ref.Op{K: k}, []tensor.Tensor{a, b})
				if err != nil {
					return core.Fail("%s: %v", k, err)
				}
				tr, dirty, g, targets, _ := tensor.VerifGradState(y)
				spentOperand := code%4 >= 2 || code/4 >= 2
				if tr || g != nil || len(targets) != 0 || (dirty && !spentOperand) {
					return core.Fail("%s of operands in states %s%s: comparison result tracked=%v spent=%v hasGradient=%v (a comparison result is an untracked tensor)", k, states[code%4], states[code/4], tr, dirty, g != nil)
				}
				if spentOperand {
					// whether the comparison of a spent tensor counts as "computed from a spent tensor" is not
					// specified (DESIGN 5, C08): only "untracked, no gradient" is demanded, no successors are judged
					return core.Pass()
				}
				// the mask combined with a fresh tracked tensor gives a tracked result that back-propagates
				fresh := rt.Make(in[0], true)
				z, err := fresh.Mul(y)
				if err != nil {
					return core.Fail("Mul with a comparison result: %v", err)
				}
				if trz, dz, _, _, _ := tensor.VerifGradState(z); !trz || dz {
					return core.Fail("a fresh tracked tensor multiplied by the result of %s (operands in states %s%s) gives a result with tracked=%v spent=%v, expected tracked and not spent", k, states[code%4], states[code/4], trz, dz)
				}
				if err := tensor.BackPropagate(z); err != nil || fresh.Gradient() == nil {
					return core.Fail("back-propagating fresh*mask (mask = %s of operands in states %s%s): err=%v, gradient delivered=%v", k, states[code%4], states[code/4], err, fresh.Gradient() != nil)
				}
				if err := tensor.BackPropagate(y); err != nil || y.Gradient() != nil {
					return core.Fail("%s: BackPropagate from a comparison result changed something (err=%v)", k, err)
				}
				return core.Pass()
			})
		}
	}
}

func checkC08(c *core.Ctx) {
	c08OpTable(c)
	type bound struct{ pool, depth int }
	bounds := []bound{{5, 5}}
	if c.Thorough() {
		bounds = []bound{{5, 7}, {6, 6}}
	}
	for _, b := range bounds {
		sys := &c08Sys{maxPool: b.pool, unary: []string{"scale2"}}
		st := core.BFS[c08Ev](c, sys, b.depth, fmt.Sprintf("p%d/", b.pool))
		c.Note("pool<=%d depth<=%d: %d states, %d transitions, new states per depth %v", b.pool, b.depth, st.States, st.Transitions, st.PerDepth)
	}
	// second search: the unary operations are the identity-like ones (Broadcast
	// and Reshape to the tensor's own shape, whole Slice, Scale(1)), where a
	// "nothing to do" shortcut could hand back the operand itself
	ib := bound{4, 5}
	if c.Thorough() {
		ib = bound{5, 6}
	}
	sys := &c08Sys{maxPool: ib.pool, unary: []string{"bcast", "reshape", "slice", "scale1"}}
	st := core.BFS[c08Ev](c, sys, ib.depth, fmt.Sprintf("id%d/", ib.pool))
	c.Note("identity-like unary ops, pool<=%d depth<=%d: %d states, %d transitions, new states per depth %v", ib.pool, ib.depth, st.States, st.Transitions, st.PerDepth)
}

// c08DataVariantOps: operations defined (and with a finite result) for every finite operand value.
var c08DataVariantOps = map[string]bool{"Add": true, "Sub": true, "Mul": true, "ElMax": true, "ElMin": true, "Dot": true, "MatMul": true,
	"Scale": true, "Exp": true, "Tanh": true, "Sin": true, "SumAlong": true, "MeanAlong": true, "MaxAlong": true, "Reshape": true, "Transpose": true, "Slice": true, "Patch": true, "Concat": true}
