package main

import (
	"fmt"
	"math"

	"qmc/enum"
	"qmc/ref"
)

// refSelftest checks the reference model against itself: every analytic VJP
// and the DAG reverse pass are compared with central finite differences of the
// model's own forward evaluation. A wrong oracle would be a permanent false
// alarm (or a permanent blind spot), so this runs in setup and before the
// gradient checks.
func refSelftest() (fails int) {
	n := 0
	report := func(id string, msg string) {
		fails++
		if fails <= 10 {
			fmt.Printf("selftest FAIL %s: %s\n", id, msg)
		}
	}
	forEachOpCase(opCaseOpts{shapes: enum.Shapes(3, []int{1, 2, 3}), maxIndexRank: 2, concatSizes: []int{1, 2}, concat3: true}, func(oc OpCase) {
		in := genInputs(oc.Op, oc.In, 3)
		out, ok := ref.Eval(oc.Op, in)
		if !ok {
			report(oc.ID(), "model rejects an enumerated configuration")
			return
		}
		if !ref.Differentiable(oc.Op, in, out) {
			return
		}
		n++
		w := enum.Weights(out.Shape, 5)
		gs := ref.VJP(oc.Op, in, out, w, false)
		for k := range in {
			if !ref.SameShape(gs[k].Shape, in[k].Shape) {
				report(oc.ID(), fmt.Sprintf("VJP shape %v for operand %d of shape %v", gs[k].Shape, k, in[k].Shape))
				continue
			}
			for e := range in[k].V {
				fd := fdiff(func() float64 {
					o, _ := ref.Eval(oc.Op, in)
					s := 0.
					for i := range o.V {
						s += w.V[i] * o.V[i]
					}
					return s
				}, &in[k].V[e])
				if math.Abs(fd-gs[k].V[e]) > 1e-5*(1+math.Abs(fd)) {
					report(oc.ID(), fmt.Sprintf("operand %d elem %d: VJP %v vs finite difference %v", k, e, gs[k].V[e], fd))
					break
				}
			}
		}
	})
	// composite operations (activations, losses, FC): analytic VJP vs finite
	// differences, and the primitive mirror (Expand) vs the analytic formulas
	for ci, cp := range compositeSelftestPrograms() {
		vals, ok := cp.Forward()
		if !ok {
			report(fmt.Sprint("composite", ci), "invalid")
			continue
		}
		root := cp.NTensors() - 1
		grads, _ := cp.Backward(vals, root, nil, false)
		for li := range cp.Leaves {
			if !cp.Tracked[li] {
				continue
			}
			for e := range cp.Leaves[li].V {
				fd := fdiff(func() float64 {
					v, _ := cp.Forward()
					s := 0.
					for _, x := range v[root].V {
						s += x
					}
					return s
				}, &cp.Leaves[li].V[e])
				if math.Abs(fd-grads[li].V[e]) > 1e-5*(1+math.Abs(fd)) {
					report(fmt.Sprint("composite", ci, " ", cp.Nodes[len(cp.Nodes)-2].Op), fmt.Sprintf("leaf %d elem %d: analytic %v vs finite difference %v", li, e, grads[li].V[e], fd))
				}
			}
		}
		ex, idmap := cp.Expand()
		ev, ok := ex.Forward()
		if !ok {
			report(fmt.Sprint("composite", ci), "mirror invalid")
			continue
		}
		eg, _ := ex.Backward(ev, idmap[root], nil, false)
		for i := 0; i < cp.NTensors(); i++ {
			for k := range vals[i].V {
				if math.Abs(vals[i].V[k]-ev[idmap[i]].V[k]) > 1e-9*(1+math.Abs(vals[i].V[k])) {
					report(fmt.Sprint("composite", ci), "mirror forward differs from formula")
				}
			}
			if (grads[i] == nil) != (eg[idmap[i]] == nil) {
				report(fmt.Sprint("composite", ci), "mirror gradient nil-ness differs")
				continue
			}
			if grads[i] != nil {
				for k := range grads[i].V {
					if math.Abs(grads[i].V[k]-eg[idmap[i]].V[k]) > 1e-9*(1+math.Abs(grads[i].V[k])) {
						report(fmt.Sprint("composite", ci), fmt.Sprintf("mirror gradient of tensor %d differs from analytic: %v vs %v", i, eg[idmap[i]].V, grads[i].V))
						break
					}
				}
			}
		}
		n++
	}
	// the DAG reverse pass on programs with fan-out and reconvergence
	progs := selftestPrograms()
	for pi, p := range progs {
		vals, ok := p.Forward()
		if !ok {
			report(fmt.Sprint("program", pi), "invalid")
			continue
		}
		root := p.NTensors() - 1
		grads, _ := p.Backward(vals, root, nil, false)
		for li := range p.Leaves {
			for e := range p.Leaves[li].V {
				fd := fdiff(func() float64 {
					v, _ := p.Forward()
					s := 0.
					for _, x := range v[root].V {
						s += x
					}
					return s
				}, &p.Leaves[li].V[e])
				g := 0.
				if grads[li] != nil {
					g = grads[li].V[e]
				}
				if math.Abs(fd-g) > 1e-5*(1+math.Abs(fd)) {
					report(fmt.Sprint("program", pi), fmt.Sprintf("leaf %d elem %d: reverse pass %v vs finite difference %v", li, e, g, fd))
				}
			}
		}
		n++
	}
	fmt.Printf("selftest: %d model configurations compared with finite differences\n", n)
	return fails
}

func fdiff(f func() float64, x *float64) float64 {
	const h = 1e-6
	x0 := *x
	*x = x0 + h
	a := f()
	*x = x0 - h
	b := f()
	*x = x0
	return (a - b) / (2 * h)
}

func selftestPrograms() []*ref.Program {
	l := func() []*ref.T {
		return []*ref.T{enum.Generic([]int{2}, 1, 0.5, 1.5, true), enum.Generic([]int{2}, 2, 0.5, 1.5, true)}
	}
	tt := []bool{true, true}
	return []*ref.Program{
		{Leaves: l(), Tracked: tt, Nodes: []ref.Node{
			{Op: ref.Op{K: "Scale", F: 2}, In: []int{0}},
			{Op: ref.Op{K: "Scale", F: 3}, In: []int{2}},
			{Op: ref.Op{K: "Scale", F: 5}, In: []int{2}},
			{Op: ref.Op{K: "Add"}, In: []int{3, 4}},
		}},
		{Leaves: l(), Tracked: tt, Nodes: []ref.Node{
			{Op: ref.Op{K: "Mul"}, In: []int{0, 1}},
			{Op: ref.Op{K: "Sin"}, In: []int{2}},
			{Op: ref.Op{K: "Mul"}, In: []int{2, 3}},
			{Op: ref.Op{K: "Exp"}, In: []int{4}},
			{Op: ref.Op{K: "Sub"}, In: []int{5, 2}},
		}},
		{Leaves: l(), Tracked: tt, Nodes: []ref.Node{
			{Op: ref.Op{K: "Concat", Dim: 0}, In: []int{0, 1}},
			{Op: ref.Op{K: "Slice", Index: []ref.Range{{From: 1, To: 3}}}, In: []int{2}},
			{Op: ref.Op{K: "Mul"}, In: []int{3, 3}},
			{Op: ref.Op{K: "Add"}, In: []int{4, 0}},
		}},
	}
}

// compositeSelftestPrograms: leaf -> composite -> Mul by non-uniform weights.
func compositeSelftestPrograms() []*ref.Program {
	var out []*ref.Program
	mk := func(op ref.Op, leaves []*ref.T, tracked []bool) {
		p := &ref.Program{Leaves: leaves, Tracked: tracked}
		in := make([]int, len(leaves))
		for i := range in {
			in[i] = i
		}
		p.Nodes = []ref.Node{{Op: op, In: in}}
		q, _ := withWeighting(p, len(leaves), 77)
		out = append(out, q)
	}
	for _, s := range [][]int{{3}, {2, 3}, {2, 2, 3}} {
		x := func() []*ref.T { return []*ref.T{enum.Generic(s, 9, 0.2, 2, true)} }
		mk(ref.Op{K: "Relu"}, x(), []bool{true})
		mk(ref.Op{K: "LeakyRelu", F: 0.3}, x(), []bool{true})
		mk(ref.Op{K: "Sigmoid"}, x(), []bool{true})
		mk(ref.Op{K: "TanhAct"}, x(), []bool{true})
		for d := range s {
			mk(ref.Op{K: "Softmax", Dim: d}, x(), []bool{true})
		}
	}
	for _, b := range []int{1, 3} {
		p := func() *ref.T { return enum.Generic([]int{b}, 3, 0.1, 0.9, false) }
		t := func() *ref.T { return enum.Generic([]int{b}, 4, 0.1, 0.9, false) }
		mk(ref.Op{K: "MSE"}, []*ref.T{p(), t()}, []bool{true, true})
		mk(ref.Op{K: "BCE"}, []*ref.T{p(), t()}, []bool{true, true})
		for _, c := range []int{1, 2} {
			mk(ref.Op{K: "CE"}, []*ref.T{enum.Generic([]int{b, c}, 3, 0.1, 0.9, false), enum.Generic([]int{b, c}, 4, 0.1, 0.9, false)}, []bool{true, true})
		}
		for _, d := range []int{1, 2} {
			for _, o := range []int{1, 3} {
				mk(ref.Op{K: "FC"}, []*ref.T{enum.Generic([]int{b, d}, 5, 0.5, 2, true), enum.Generic([]int{o}, 6, 0.5, 2, true), enum.Generic([]int{o}, 7, 0.5, 2, true)}, []bool{true, true, true})
			}
		}
	}
	return out
}
