// Package sync is the verification shim that stands in for the standard
// library's sync package in the library under test. It is never part of the
// repository: the check build maps it into the module with `go build -overlay`
// (import path <module>/verifsync) and rewrites `import "sync"` in the
// repository's files to that path, so every lock, wait group, once and
// condition variable the library uses - now or after a change - becomes a
// scheduling point of the controlled scheduler, and a thread that waits is
// DISABLED instead of blocking the process (a state in which no thread is
// enabled is reported as a deadlock).
//
// Outside a controlled execution (sequential checks, the free-running -race
// pass) every primitive delegates to the real one.
package sync

import (
	rsync "sync"
	ratomic "sync/atomic"
)

// SchedHooks is installed by the harness (engine/sched).
type SchedHooks struct {
	Active func() bool
	Point  func(site string)
	Block  func(site string, cond func() bool)
	Spawn  func(fn func())
}

var Sched *SchedHooks

// epoch of the current controlled execution: cooperative lock state recorded
// in an earlier (possibly aborted) execution is ignored.
var epoch uint64 = 1

// VerifNewExecution is called by the scheduler at the start of every controlled execution.
func VerifNewExecution() { epoch++ }

// VerifRealWaiters counts goroutines currently inside a blocking call of a REAL primitive (code that
// ran outside a controlled execution, e.g. a worker pool started earlier): cooperative operations
// cannot wake them, so a "deadlock" seen while this is non-zero proves nothing.
var VerifRealWaiters ratomic.Int64

// VerifOps counts intercepted operations (evidence: the shim is in the path).
var VerifOps ratomic.Int64

func active() bool {
	h := Sched
	return h != nil && h.Active()
}

// VerifYield is a plain scheduling point (used by the atomic shim).
func VerifYield(site string) {
	if active() {
		VerifOps.Add(1)
		Sched.Point(site)
	}
}

// Go is the intercepted go statement.
func Go(fn func()) {
	if active() {
		VerifOps.Add(1)
		Sched.Spawn(fn)
		return
	}
	go fn()
}

type Locker = rsync.Locker

/* ---- Mutex ---- */

type Mutex struct {
	real rsync.Mutex
	held bool
	ep   uint64
}

func (m *Mutex) isHeld() bool { return m.held && m.ep == epoch }

func (m *Mutex) Lock() {
	if !active() {
		VerifRealWaiters.Add(1)
		m.real.Lock()
		VerifRealWaiters.Add(-1)
		return
	}
	VerifOps.Add(1)
	Sched.Block("Mutex.Lock", func() bool { return !m.isHeld() })
	m.held, m.ep = true, epoch
}

func (m *Mutex) TryLock() bool {
	if !active() {
		return m.real.TryLock()
	}
	VerifOps.Add(1)
	Sched.Point("Mutex.TryLock")
	if m.isHeld() {
		return false
	}
	m.held, m.ep = true, epoch
	return true
}

func (m *Mutex) Unlock() {
	if !active() {
		m.real.Unlock()
		return
	}
	VerifOps.Add(1)
	if !m.isHeld() {
		panic("sync: unlock of unlocked mutex")
	}
	m.held = false
}

/* ---- RWMutex ---- */

type RWMutex struct {
	real     rsync.RWMutex
	writer   bool
	readers  int
	waitingW int // writers that have called Lock and wait: like the real RWMutex, they block NEW readers
	ep       uint64
}

func (m *RWMutex) sync() {
	if m.ep != epoch {
		m.writer, m.readers, m.waitingW, m.ep = false, 0, 0, epoch
	}
}

func (m *RWMutex) Lock() {
	if !active() {
		m.real.Lock()
		return
	}
	VerifOps.Add(1)
	// two steps, as in the real implementation: the writer announces itself (from then on no new
	// reader is admitted - a goroutine that read-locks recursively deadlocks behind it), then waits
	Sched.Point("RWMutex.Lock")
	m.sync()
	m.waitingW++
	Sched.Block("RWMutex.Lock(wait)", func() bool { m.sync(); return !m.writer && m.readers == 0 })
	m.sync()
	m.waitingW--
	m.writer = true
}

func (m *RWMutex) TryLock() bool {
	if !active() {
		return m.real.TryLock()
	}
	VerifOps.Add(1)
	Sched.Point("RWMutex.TryLock")
	m.sync()
	if m.writer || m.readers > 0 {
		return false
	}
	m.writer = true
	return true
}

func (m *RWMutex) Unlock() {
	if !active() {
		m.real.Unlock()
		return
	}
	VerifOps.Add(1)
	m.sync()
	if !m.writer {
		panic("sync: Unlock of unlocked RWMutex")
	}
	m.writer = false
}

func (m *RWMutex) RLock() {
	if !active() {
		m.real.RLock()
		return
	}
	VerifOps.Add(1)
	Sched.Block("RWMutex.RLock", func() bool { m.sync(); return !m.writer && m.waitingW == 0 })
	m.sync()
	m.readers++
}

func (m *RWMutex) TryRLock() bool {
	if !active() {
		return m.real.TryRLock()
	}
	VerifOps.Add(1)
	Sched.Point("RWMutex.TryRLock")
	m.sync()
	if m.writer || m.waitingW > 0 {
		return false
	}
	m.readers++
	return true
}

func (m *RWMutex) RUnlock() {
	if !active() {
		m.real.RUnlock()
		return
	}
	VerifOps.Add(1)
	m.sync()
	if m.readers <= 0 {
		panic("sync: RUnlock of unlocked RWMutex")
	}
	m.readers--
}

type rlocker RWMutex

func (r *rlocker) Lock()   { (*RWMutex)(r).RLock() }
func (r *rlocker) Unlock() { (*RWMutex)(r).RUnlock() }

func (m *RWMutex) RLocker() Locker { return (*rlocker)(m) }

/* ---- WaitGroup ---- */

type WaitGroup struct {
	real rsync.WaitGroup
	n    int
	ep   uint64
}

func (wg *WaitGroup) sync() {
	if wg.ep != epoch {
		wg.n, wg.ep = 0, epoch
	}
}

func (wg *WaitGroup) Add(delta int) {
	if !active() {
		wg.real.Add(delta)
		return
	}
	VerifOps.Add(1)
	Sched.Point("WaitGroup.Add")
	wg.sync()
	wg.n += delta
	if wg.n < 0 {
		panic("sync: negative WaitGroup counter")
	}
}

func (wg *WaitGroup) Done() { wg.Add(-1) }

func (wg *WaitGroup) Wait() {
	if !active() {
		VerifRealWaiters.Add(1)
		wg.real.Wait()
		VerifRealWaiters.Add(-1)
		return
	}
	VerifOps.Add(1)
	Sched.Block("WaitGroup.Wait", func() bool { wg.sync(); return wg.n == 0 })
}

/* ---- Once ---- */

type Once struct {
	real    rsync.Once
	done    ratomic.Bool
	running bool
	ep      uint64
}

func (o *Once) Do(f func()) {
	if !active() {
		o.real.Do(func() {
			if o.done.Load() {
				return // already performed under the controlled scheduler
			}
			defer o.done.Store(true)
			f()
		})
		return
	}
	VerifOps.Add(1)
	Sched.Point("Once.Do")
	if o.done.Load() {
		return
	}
	if o.running && o.ep == epoch {
		Sched.Block("Once.Do(wait)", func() bool { return o.done.Load() || !(o.running && o.ep == epoch) })
		if o.done.Load() {
			return
		}
	}
	o.running, o.ep = true, epoch
	defer func() {
		o.running = false
		o.done.Store(true)
		o.real.Do(func() {})
	}()
	f()
}

func OnceFunc(f func()) func() {
	var once Once
	var valid bool
	var p any
	g := func() {
		defer func() {
			p = recover()
			if !valid {
				panic(p)
			}
		}()
		f()
		f = nil
		valid = true
	}
	return func() {
		once.Do(g)
		if !valid {
			panic(p)
		}
	}
}

func OnceValue[T any](f func() T) func() T {
	var once Once
	var valid bool
	var p any
	var result T
	g := func() {
		defer func() {
			p = recover()
			if !valid {
				panic(p)
			}
		}()
		result = f()
		f = nil
		valid = true
	}
	return func() T {
		once.Do(g)
		if !valid {
			panic(p)
		}
		return result
	}
}

func OnceValues[T1, T2 any](f func() (T1, T2)) func() (T1, T2) {
	var once Once
	var valid bool
	var p any
	var r1 T1
	var r2 T2
	g := func() {
		defer func() {
			p = recover()
			if !valid {
				panic(p)
			}
		}()
		r1, r2 = f()
		f = nil
		valid = true
	}
	return func() (T1, T2) {
		once.Do(g)
		if !valid {
			panic(p)
		}
		return r1, r2
	}
}

/* ---- Cond ---- */

type condWaiter struct{ woken bool }

type Cond struct {
	L Locker

	mu      rsync.Mutex
	real    *rsync.Cond
	waiters []*condWaiter
	ep      uint64
}

func NewCond(l Locker) *Cond { return &Cond{L: l} }

func (c *Cond) realCond() *rsync.Cond {
	c.mu.Lock()
	defer c.mu.Unlock()
	if c.real == nil {
		c.real = rsync.NewCond(c.L)
	}
	return c.real
}

func (c *Cond) sync() {
	if c.ep != epoch {
		c.waiters, c.ep = nil, epoch
	}
}

func (c *Cond) Wait() {
	if !active() {
		VerifRealWaiters.Add(1)
		c.realCond().Wait()
		VerifRealWaiters.Add(-1)
		return
	}
	VerifOps.Add(1)
	c.sync()
	w := &condWaiter{}
	c.waiters = append(c.waiters, w)
	c.L.Unlock()
	Sched.Block("Cond.Wait", func() bool { return w.woken })
	c.L.Lock()
}

func (c *Cond) Signal() {
	if !active() {
		c.realCond().Signal()
		return
	}
	VerifOps.Add(1)
	Sched.Point("Cond.Signal")
	c.sync()
	if len(c.waiters) > 0 {
		c.waiters[0].woken = true
		c.waiters = c.waiters[1:]
	}
}

func (c *Cond) Broadcast() {
	if !active() {
		c.realCond().Broadcast()
		return
	}
	VerifOps.Add(1)
	Sched.Point("Cond.Broadcast")
	c.sync()
	for _, w := range c.waiters {
		w.woken = true
	}
	c.waiters = nil
}

/* ---- Map ---- */

type Map struct{ real rsync.Map }

func (m *Map) Load(key any) (any, bool) { VerifYield("Map.Load"); return m.real.Load(key) }
func (m *Map) Store(key, value any)     { VerifYield("Map.Store"); m.real.Store(key, value) }
func (m *Map) Clear()                   { VerifYield("Map.Clear"); m.real.Clear() }
func (m *Map) Delete(key any)           { VerifYield("Map.Delete"); m.real.Delete(key) }
func (m *Map) LoadOrStore(key, value any) (any, bool) {
	VerifYield("Map.LoadOrStore")
	return m.real.LoadOrStore(key, value)
}
func (m *Map) LoadAndDelete(key any) (any, bool) {
	VerifYield("Map.LoadAndDelete")
	return m.real.LoadAndDelete(key)
}
func (m *Map) Swap(key, value any) (any, bool) {
	VerifYield("Map.Swap")
	return m.real.Swap(key, value)
}
func (m *Map) CompareAndSwap(key, old, new any) bool {
	VerifYield("Map.CompareAndSwap")
	return m.real.CompareAndSwap(key, old, new)
}
func (m *Map) CompareAndDelete(key, old any) bool {
	VerifYield("Map.CompareAndDelete")
	return m.real.CompareAndDelete(key, old)
}
func (m *Map) Range(f func(key, value any) bool) { VerifYield("Map.Range"); m.real.Range(f) }

/* ---- Pool ---- */

// Under the controlled scheduler the pool is a deterministic LIFO list (the
// real pool's per-P caches and GC interaction would make executions
// irreproducible); freely running code uses the real pool.
type Pool struct {
	New func() any

	real  rsync.Pool
	items []any
	ep    uint64
}

func (p *Pool) Get() any {
	if !active() {
		if x := p.real.Get(); x != nil {
			return x
		}
		if p.New != nil {
			return p.New()
		}
		return nil
	}
	VerifOps.Add(1)
	Sched.Point("Pool.Get")
	if p.ep != epoch {
		p.items, p.ep = nil, epoch
	}
	if n := len(p.items); n > 0 {
		x := p.items[n-1]
		p.items = p.items[:n-1]
		return x
	}
	if p.New != nil {
		return p.New()
	}
	return nil
}

func (p *Pool) Put(x any) {
	if x == nil {
		return
	}
	if !active() {
		p.real.Put(x)
		return
	}
	VerifOps.Add(1)
	Sched.Point("Pool.Put")
	if p.ep != epoch {
		p.items, p.ep = nil, epoch
	}
	p.items = append(p.items, x)
}
