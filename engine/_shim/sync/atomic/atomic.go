// Package atomic is the verification shim for sync/atomic (see the sync shim):
// every atomic operation is a scheduling point of the controlled scheduler and
// is then performed by the real sync/atomic.
package atomic

import (
	ratomic "sync/atomic"
	"unsafe"

	vsync "github.com/sahandsafizadeh/qeep/verifsync"
)

func y(site string) { vsync.VerifYield(site) }

func AddInt32(addr *int32, delta int32) int32 {
	y("atomic.AddInt32")
	return ratomic.AddInt32(addr, delta)
}
func LoadInt32(addr *int32) int32       { y("atomic.LoadInt32"); return ratomic.LoadInt32(addr) }
func StoreInt32(addr *int32, val int32) { y("atomic.StoreInt32"); ratomic.StoreInt32(addr, val) }
func SwapInt32(addr *int32, new int32) int32 {
	y("atomic.SwapInt32")
	return ratomic.SwapInt32(addr, new)
}
func CompareAndSwapInt32(addr *int32, old, new int32) bool {
	y("atomic.CompareAndSwapInt32")
	return ratomic.CompareAndSwapInt32(addr, old, new)
}
func AndInt32(addr *int32, mask int32) int32 {
	y("atomic.AndInt32")
	return ratomic.AndInt32(addr, mask)
}
func OrInt32(addr *int32, mask int32) int32 { y("atomic.OrInt32"); return ratomic.OrInt32(addr, mask) }

type Int32 struct{ v ratomic.Int32 }

func (x *Int32) Load() int32          { y("atomic.Int32.Load"); return x.v.Load() }
func (x *Int32) Store(val int32)      { y("atomic.Int32.Store"); x.v.Store(val) }
func (x *Int32) Swap(new int32) int32 { y("atomic.Int32.Swap"); return x.v.Swap(new) }
func (x *Int32) CompareAndSwap(old, new int32) bool {
	y("atomic.Int32.CompareAndSwap")
	return x.v.CompareAndSwap(old, new)
}
func (x *Int32) Add(delta int32) int32 { y("atomic.Int32.Add"); return x.v.Add(delta) }
func (x *Int32) And(mask int32) int32  { y("atomic.Int32.And"); return x.v.And(mask) }
func (x *Int32) Or(mask int32) int32   { y("atomic.Int32.Or"); return x.v.Or(mask) }

func AddInt64(addr *int64, delta int64) int64 {
	y("atomic.AddInt64")
	return ratomic.AddInt64(addr, delta)
}
func LoadInt64(addr *int64) int64       { y("atomic.LoadInt64"); return ratomic.LoadInt64(addr) }
func StoreInt64(addr *int64, val int64) { y("atomic.StoreInt64"); ratomic.StoreInt64(addr, val) }
func SwapInt64(addr *int64, new int64) int64 {
	y("atomic.SwapInt64")
	return ratomic.SwapInt64(addr, new)
}
func CompareAndSwapInt64(addr *int64, old, new int64) bool {
	y("atomic.CompareAndSwapInt64")
	return ratomic.CompareAndSwapInt64(addr, old, new)
}
func AndInt64(addr *int64, mask int64) int64 {
	y("atomic.AndInt64")
	return ratomic.AndInt64(addr, mask)
}
func OrInt64(addr *int64, mask int64) int64 { y("atomic.OrInt64"); return ratomic.OrInt64(addr, mask) }

type Int64 struct{ v ratomic.Int64 }

func (x *Int64) Load() int64          { y("atomic.Int64.Load"); return x.v.Load() }
func (x *Int64) Store(val int64)      { y("atomic.Int64.Store"); x.v.Store(val) }
func (x *Int64) Swap(new int64) int64 { y("atomic.Int64.Swap"); return x.v.Swap(new) }
func (x *Int64) CompareAndSwap(old, new int64) bool {
	y("atomic.Int64.CompareAndSwap")
	return x.v.CompareAndSwap(old, new)
}
func (x *Int64) Add(delta int64) int64 { y("atomic.Int64.Add"); return x.v.Add(delta) }
func (x *Int64) And(mask int64) int64  { y("atomic.Int64.And"); return x.v.And(mask) }
func (x *Int64) Or(mask int64) int64   { y("atomic.Int64.Or"); return x.v.Or(mask) }

func AddUint32(addr *uint32, delta uint32) uint32 {
	y("atomic.AddUint32")
	return ratomic.AddUint32(addr, delta)
}
func LoadUint32(addr *uint32) uint32       { y("atomic.LoadUint32"); return ratomic.LoadUint32(addr) }
func StoreUint32(addr *uint32, val uint32) { y("atomic.StoreUint32"); ratomic.StoreUint32(addr, val) }
func SwapUint32(addr *uint32, new uint32) uint32 {
	y("atomic.SwapUint32")
	return ratomic.SwapUint32(addr, new)
}
func CompareAndSwapUint32(addr *uint32, old, new uint32) bool {
	y("atomic.CompareAndSwapUint32")
	return ratomic.CompareAndSwapUint32(addr, old, new)
}
func AndUint32(addr *uint32, mask uint32) uint32 {
	y("atomic.AndUint32")
	return ratomic.AndUint32(addr, mask)
}
func OrUint32(addr *uint32, mask uint32) uint32 {
	y("atomic.OrUint32")
	return ratomic.OrUint32(addr, mask)
}

type Uint32 struct{ v ratomic.Uint32 }

func (x *Uint32) Load() uint32           { y("atomic.Uint32.Load"); return x.v.Load() }
func (x *Uint32) Store(val uint32)       { y("atomic.Uint32.Store"); x.v.Store(val) }
func (x *Uint32) Swap(new uint32) uint32 { y("atomic.Uint32.Swap"); return x.v.Swap(new) }
func (x *Uint32) CompareAndSwap(old, new uint32) bool {
	y("atomic.Uint32.CompareAndSwap")
	return x.v.CompareAndSwap(old, new)
}
func (x *Uint32) Add(delta uint32) uint32 { y("atomic.Uint32.Add"); return x.v.Add(delta) }
func (x *Uint32) And(mask uint32) uint32  { y("atomic.Uint32.And"); return x.v.And(mask) }
func (x *Uint32) Or(mask uint32) uint32   { y("atomic.Uint32.Or"); return x.v.Or(mask) }

func AddUint64(addr *uint64, delta uint64) uint64 {
	y("atomic.AddUint64")
	return ratomic.AddUint64(addr, delta)
}
func LoadUint64(addr *uint64) uint64       { y("atomic.LoadUint64"); return ratomic.LoadUint64(addr) }
func StoreUint64(addr *uint64, val uint64) { y("atomic.StoreUint64"); ratomic.StoreUint64(addr, val) }
func SwapUint64(addr *uint64, new uint64) uint64 {
	y("atomic.SwapUint64")
	return ratomic.SwapUint64(addr, new)
}
func CompareAndSwapUint64(addr *uint64, old, new uint64) bool {
	y("atomic.CompareAndSwapUint64")
	return ratomic.CompareAndSwapUint64(addr, old, new)
}
func AndUint64(addr *uint64, mask uint64) uint64 {
	y("atomic.AndUint64")
	return ratomic.AndUint64(addr, mask)
}
func OrUint64(addr *uint64, mask uint64) uint64 {
	y("atomic.OrUint64")
	return ratomic.OrUint64(addr, mask)
}

type Uint64 struct{ v ratomic.Uint64 }

func (x *Uint64) Load() uint64           { y("atomic.Uint64.Load"); return x.v.Load() }
func (x *Uint64) Store(val uint64)       { y("atomic.Uint64.Store"); x.v.Store(val) }
func (x *Uint64) Swap(new uint64) uint64 { y("atomic.Uint64.Swap"); return x.v.Swap(new) }
func (x *Uint64) CompareAndSwap(old, new uint64) bool {
	y("atomic.Uint64.CompareAndSwap")
	return x.v.CompareAndSwap(old, new)
}
func (x *Uint64) Add(delta uint64) uint64 { y("atomic.Uint64.Add"); return x.v.Add(delta) }
func (x *Uint64) And(mask uint64) uint64  { y("atomic.Uint64.And"); return x.v.And(mask) }
func (x *Uint64) Or(mask uint64) uint64   { y("atomic.Uint64.Or"); return x.v.Or(mask) }

func AddUintptr(addr *uintptr, delta uintptr) uintptr {
	y("atomic.AddUintptr")
	return ratomic.AddUintptr(addr, delta)
}
func LoadUintptr(addr *uintptr) uintptr { y("atomic.LoadUintptr"); return ratomic.LoadUintptr(addr) }
func StoreUintptr(addr *uintptr, val uintptr) {
	y("atomic.StoreUintptr")
	ratomic.StoreUintptr(addr, val)
}
func SwapUintptr(addr *uintptr, new uintptr) uintptr {
	y("atomic.SwapUintptr")
	return ratomic.SwapUintptr(addr, new)
}
func CompareAndSwapUintptr(addr *uintptr, old, new uintptr) bool {
	y("atomic.CompareAndSwapUintptr")
	return ratomic.CompareAndSwapUintptr(addr, old, new)
}
func AndUintptr(addr *uintptr, mask uintptr) uintptr {
	y("atomic.AndUintptr")
	return ratomic.AndUintptr(addr, mask)
}
func OrUintptr(addr *uintptr, mask uintptr) uintptr {
	y("atomic.OrUintptr")
	return ratomic.OrUintptr(addr, mask)
}

type Uintptr struct{ v ratomic.Uintptr }

func (x *Uintptr) Load() uintptr            { y("atomic.Uintptr.Load"); return x.v.Load() }
func (x *Uintptr) Store(val uintptr)        { y("atomic.Uintptr.Store"); x.v.Store(val) }
func (x *Uintptr) Swap(new uintptr) uintptr { y("atomic.Uintptr.Swap"); return x.v.Swap(new) }
func (x *Uintptr) CompareAndSwap(old, new uintptr) bool {
	y("atomic.Uintptr.CompareAndSwap")
	return x.v.CompareAndSwap(old, new)
}
func (x *Uintptr) Add(delta uintptr) uintptr { y("atomic.Uintptr.Add"); return x.v.Add(delta) }
func (x *Uintptr) And(mask uintptr) uintptr  { y("atomic.Uintptr.And"); return x.v.And(mask) }
func (x *Uintptr) Or(mask uintptr) uintptr   { y("atomic.Uintptr.Or"); return x.v.Or(mask) }

func LoadPointer(addr *unsafe.Pointer) unsafe.Pointer {
	y("atomic.LoadPointer")
	return ratomic.LoadPointer(addr)
}
func StorePointer(addr *unsafe.Pointer, val unsafe.Pointer) {
	y("atomic.StorePointer")
	ratomic.StorePointer(addr, val)
}
func SwapPointer(addr *unsafe.Pointer, new unsafe.Pointer) unsafe.Pointer {
	y("atomic.SwapPointer")
	return ratomic.SwapPointer(addr, new)
}
func CompareAndSwapPointer(addr *unsafe.Pointer, old, new unsafe.Pointer) bool {
	y("atomic.CompareAndSwapPointer")
	return ratomic.CompareAndSwapPointer(addr, old, new)
}

type Bool struct{ v ratomic.Bool }

func (x *Bool) Load() bool     { y("atomic.Bool.Load"); return x.v.Load() }
func (x *Bool) Store(val bool) { y("atomic.Bool.Store"); x.v.Store(val) }
func (x *Bool) Swap(new bool) bool {
	y("atomic.Bool.Swap")
	return x.v.Swap(new)
}
func (x *Bool) CompareAndSwap(old, new bool) bool {
	y("atomic.Bool.CompareAndSwap")
	return x.v.CompareAndSwap(old, new)
}

type Pointer[T any] struct{ v ratomic.Pointer[T] }

func (x *Pointer[T]) Load() *T     { y("atomic.Pointer.Load"); return x.v.Load() }
func (x *Pointer[T]) Store(val *T) { y("atomic.Pointer.Store"); x.v.Store(val) }
func (x *Pointer[T]) Swap(new *T) *T {
	y("atomic.Pointer.Swap")
	return x.v.Swap(new)
}
func (x *Pointer[T]) CompareAndSwap(old, new *T) bool {
	y("atomic.Pointer.CompareAndSwap")
	return x.v.CompareAndSwap(old, new)
}

type Value struct{ v ratomic.Value }

func (x *Value) Load() any     { y("atomic.Value.Load"); return x.v.Load() }
func (x *Value) Store(val any) { y("atomic.Value.Store"); x.v.Store(val) }
func (x *Value) Swap(new any) any {
	y("atomic.Value.Swap")
	return x.v.Swap(new)
}
func (x *Value) CompareAndSwap(old, new any) bool {
	y("atomic.Value.CompareAndSwap")
	return x.v.CompareAndSwap(old, new)
}
