package main

import (
	"fmt"
	"math"

	"github.com/sahandsafizadeh/qeep/tensor"
	"qmc/core"
	"qmc/enum"
	"qmc/ref"
	"qmc/rt"
)

const kfBroadcastAvg = "broadcast_avg"

// withWeighting extends a program by an untracked leaf W (non-uniform) of the
// root's shape and the node root*W, so that back-propagating from the new root
// applies the arbitrary upstream weighting W to the original root. Leaves are
// stored first, so node input ids are shifted.
func withWeighting(p *ref.Program, root int, salt uint64) (*ref.Program, int) {
	vals, ok := p.Forward()
	if !ok {
		panic("HARNESS: withWeighting on invalid program")
	}
	w := enum.Weights(vals[root].Shape, salt)
	L := len(p.Leaves)
	q := &ref.Program{}
	q.Leaves = append(append([]*ref.T{}, p.Leaves...), w)
	q.Tracked = append(append([]bool{}, p.Tracked...), false)
	shift := func(id int) int {
		if id >= L {
			return id + 1
		}
		return id
	}
	for _, n := range p.Nodes {
		in := make([]int, len(n.In))
		for k, id := range n.In {
			in[k] = shift(id)
		}
		q.Nodes = append(q.Nodes, ref.Node{Op: n.Op, In: in})
	}
	q.Nodes = append(q.Nodes, ref.Node{Op: ref.Op{K: "Mul"}, In: []int{shift(root), L}})
	return q, q.NTensors() - 1
}

type gradOpts struct {
	allowKF     bool // recognise the listed finding broadcast_avg
	skipNonDiff bool
}

// gradCase runs program p on the model and on the real code, back-propagates
// from root and compares: forward values of every tensor, BackPropagate's
// error, and for every tensor nil-ness, shape, finiteness and value of its
// gradient (the model's total derivative of sum(root)).
func gradCase(p *ref.Program, root int, o gradOpts) core.Verdict {
	vals, ok := p.Forward()
	if !ok {
		return core.Fail("HARNESS: model rejects enumerated program")
	}
	if !p.DifferentiableAll(vals) {
		return core.Skip()
	}
	grads, _ := p.Backward(vals, root, nil, false)
	ts, failed, err := rt.RunProgram(p)
	if err != nil {
		return core.Verdict{Detail: fmt.Sprintf("forward node %d (%s) returned an error on valid operands: %v", failed, p.Nodes[failed].Op, err), Data: p}
	}
	for i := range ts {
		if okc, msg := core.Close(rt.Read(ts[i]), vals[i], scaleOf(vals...)); !okc {
			return core.Verdict{Detail: fmt.Sprintf("forward value of tensor %d: %s", i, msg), Data: p}
		}
	}
	if err := tensor.BackPropagate(ts[root]); err != nil {
		return core.Verdict{Detail: fmt.Sprintf("BackPropagate failed after an accepted forward pass: %v", err), Data: p}
	}
	mism := compareGrads(p, ts, vals, grads)
	if mism == "" {
		return core.Verdict{OK: true}
	}
	if o.allowKF && p.HasExpansion(vals, root) {
		alt, _ := p.Backward(vals, root, nil, true)
		if compareGrads(p, ts, vals, alt) == "" {
			return core.Verdict{KF: kfBroadcastAvg, Detail: mism, Data: p}
		}
	}
	return core.Verdict{Detail: mism, Data: p}
}

func compareGrads(p *ref.Program, ts []tensor.Tensor, vals, grads []*ref.T) string {
	scale := scaleOf(append(append([]*ref.T{}, vals...), grads...)...)
	for i := range ts {
		g := ts[i].Gradient()
		if grads[i] == nil {
			if g != nil {
				return fmt.Sprintf("tensor %d (tracked=%v) must not receive a gradient but has %v", i, p.TrackedAll()[i], rt.Read(g))
			}
			continue
		}
		if g == nil {
			return fmt.Sprintf("tensor %d: gradient is nil, expected %v", i, grads[i])
		}
		got := rt.Read(g)
		for _, v := range got.V {
			if math.IsNaN(v) || math.IsInf(v, 0) {
				return fmt.Sprintf("tensor %d: non-finite gradient %v, expected %v", i, got, grads[i])
			}
		}
		if okc, msg := core.Close(got, grads[i], scale); !okc {
			return fmt.Sprintf("gradient of tensor %d (shape %v): %s", i, vals[i].Shape, msg)
		}
	}
	return ""
}

func describeProgram(p *ref.Program) string {
	s := ""
	for i, l := range p.Leaves {
		s += fmt.Sprintf("t%d=leaf%v tracked=%v; ", i, l.Shape, p.Tracked[i])
	}
	for i, n := range p.Nodes {
		s += fmt.Sprintf("t%d=%s%v; ", len(p.Leaves)+i, n.Op, n.In)
	}
	return s
}
