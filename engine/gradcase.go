package main

import (
	"fmt"
	"math"

	"github.com/sahandsafizadeh/qeep/tensor"
	"qmc/core"
	"qmc/enum"
	"qmc/ref"
	"qmc/rt"
)

const kfBroadcastAvg = "broadcast_avg"

// withWeighting extends a program by an untracked leaf W (non-uniform) of the
// root's shape and the node root*W, so that back-propagating from the new root
// applies the arbitrary upstream weighting W to the original root. Leaves are
// stored first, so node input ids are shifted.
func withWeighting(p *ref.Program, root int, salt uint64) (*ref.Program, int) {
	vals, ok := p.Forward()
	if !ok {
		panic("HARNESS: withWeighting on invalid program")
	}
	w := enum.Weights(vals[root].Shape, salt)
	L := len(p.Leaves)
	q := &ref.Program{}
	q.Leaves = append(append([]*ref.T{}, p.Leaves...), w)
	q.Tracked = append(append([]bool{}, p.Tracked...), false)
	shift := func(id int) int {
		if id >= L {
			return id + 1
		}
		return id
	}
	for _, n := range p.Nodes {
		in := make([]int, len(n.In))
		for k, id := range n.In {
			in[k] = shift(id)
		}
		q.Nodes = append(q.Nodes, ref.Node{Op: n.Op, In: in})
	}
	q.Nodes = append(q.Nodes, ref.Node{Op: ref.Op{K: "Mul"}, In: []int{shift(root), L}})
	return q, q.NTensors() - 1
}

type gradOpts struct {
	allowKF     bool         // recognise the listed finding broadcast_avg
	noValue     map[int]bool // tensors whose gradient VALUE the property does not specify (nil-ness, shape, finiteness still checked)
	relTensor   bool         // gradients judged relative to the largest expected element of the same tensor (inputs of extreme scale)
	elementwise bool         // every gradient element is judged relative to its own magnitude (graphs that are element-wise in the judged tensors)
	tieNode     int          // 1 + index of a (Leaky)Relu node whose derivative at exactly 0 is inferred from the observation and only required to lie between the one-sided derivatives (0 = none)
}

// gradCase runs program p on the model and on the real code, back-propagates
// from root and compares: forward values of every tensor, BackPropagate's
// error, and for every tensor nil-ness, shape, finiteness and value of its
// gradient (the model's total derivative of sum(root)).
func gradCase(p *ref.Program, root int, o gradOpts) core.Verdict {
	vals, ok := p.Forward()
	if !ok {
		return core.Fail("HARNESS: model rejects enumerated program")
	}
	if !p.DifferentiableAll(vals) {
		return core.Skip()
	}
	grads, _ := p.Backward(vals, root, nil, false)
	ts, failed, err := rt.RunProgram(p)
	if err != nil {
		return core.Verdict{Detail: fmt.Sprintf("forward node %d (%s) returned an error on valid operands: %v", failed, p.Nodes[failed].Op, err), Data: p}
	}
	for i := range ts {
		if okc, msg := core.Close(rt.Read(ts[i]), vals[i], scaleOf(vals...)); !okc {
			return core.Verdict{Detail: fmt.Sprintf("forward value of tensor %d: %s", i, msg), Data: p}
		}
	}
	if err := tensor.BackPropagate(ts[root]); err != nil {
		return core.Verdict{Detail: fmt.Sprintf("BackPropagate failed after an accepted forward pass: %v", err), Data: p}
	}
	if o.tieNode > 0 {
		if msg := inferTies(p, o.tieNode-1, ts, vals, grads); msg != "" {
			return core.Verdict{Detail: msg, Data: p}
		}
		grads, _ = p.Backward(vals, root, nil, false)
	}
	mism := compareGradsOpt(p, ts, vals, grads, o)
	if mism == "" {
		return core.Verdict{OK: true}
	}
	if o.allowKF {
		if alt := avgModelGrads(p, root); alt != nil && compareGradsOpt(p, ts, vals, alt, o) == "" {
			return core.Verdict{KF: kfBroadcastAvg, Detail: mism, Data: p}
		}
	}
	return core.Verdict{Detail: mism, Data: p}
}

// gradCaseNoForward: gradCase for inputs of extreme scale: forward values are
// compared relative to each tensor's own largest element.
func gradCaseNoForward(p *ref.Program, root int, o gradOpts) core.Verdict {
	vals, ok := p.Forward()
	if !ok {
		return core.Fail("HARNESS: model rejects enumerated program")
	}
	if !p.DifferentiableAll(vals) {
		return core.Skip()
	}
	grads, _ := p.Backward(vals, root, nil, false)
	ts, failed, err := rt.RunProgram(p)
	if err != nil {
		return core.Verdict{Detail: fmt.Sprintf("forward node %d (%s) returned an error on valid operands: %v", failed, p.Nodes[failed].Op, err), Data: p}
	}
	for i := range ts {
		got := rt.Read(ts[i])
		m := enum.MaxAbs(vals[i])
		if !ref.SameShape(got.Shape, vals[i].Shape) {
			return core.Verdict{Detail: fmt.Sprintf("forward value of tensor %d: shape %v, expected %v", i, got.Shape, vals[i].Shape), Data: p}
		}
		for k := range got.V {
			if d := math.Abs(got.V[k] - vals[i].V[k]); d > 1e-7*m+1e-300 || math.IsNaN(d) {
				return core.Verdict{Detail: fmt.Sprintf("forward value of tensor %d element %d: %v, expected %v", i, k, got.V[k], vals[i].V[k]), Data: p}
			}
		}
	}
	if err := tensor.BackPropagate(ts[root]); err != nil {
		return core.Verdict{Detail: fmt.Sprintf("BackPropagate failed after an accepted forward pass: %v", err), Data: p}
	}
	if mism := compareGradsOpt(p, ts, vals, grads, o); mism != "" {
		return core.Verdict{Detail: mism, Data: p}
	}
	return core.Pass()
}

// avgModelGrads: the gradients predicted by the alternative model of the
// listed known finding (Broadcast's backward rule averages instead of sums),
// on the primitive mirror of the program; nil if no tracked operand is
// expanded by a factor > 1 anywhere (the finding cannot show).
func avgModelGrads(p *ref.Program, root int) []*ref.T {
	exp, idmap := p.Expand()
	ev, ok := exp.Forward()
	if !ok {
		return nil
	}
	if !exp.HasExpansion(ev, idmap[root]) {
		return nil
	}
	eg, _ := exp.Backward(ev, idmap[root], nil, true)
	out := make([]*ref.T, p.NTensors())
	for i := range out {
		out[i] = eg[idmap[i]]
	}
	return out
}

// seqGradCase: several roots of ONE program (graphs that may share leaves and,
// inside the library, hidden intermediate nodes) are all built first and then
// back-propagated one after the other; every tensor's gradient must be the sum
// of the model's reverse passes.
func seqGradCase(p *ref.Program, roots []int, o gradOpts) core.Verdict {
	vals, ok := p.Forward()
	if !ok {
		return core.Fail("HARNESS: model rejects enumerated program")
	}
	if !p.DifferentiableAll(vals) {
		return core.Skip()
	}
	sum := func(avg bool) []*ref.T {
		total := make([]*ref.T, p.NTensors())
		q, idmap := p, []int(nil)
		qv := vals
		if avg {
			q, idmap = p.Expand()
			qv, _ = q.Forward()
		}
		for _, r := range roots {
			rr := r
			if avg {
				rr = idmap[r]
			}
			g, _ := q.Backward(qv, rr, nil, avg)
			for i := 0; i < p.NTensors(); i++ {
				gi := g[i]
				if avg {
					gi = g[idmap[i]]
				}
				if gi == nil {
					continue
				}
				if total[i] == nil {
					total[i] = gi.Clone()
				} else {
					for k := range gi.V {
						total[i].V[k] += gi.V[k]
					}
				}
			}
		}
		return total
	}
	ts, failed, err := rt.RunProgram(p)
	if err != nil {
		return core.Verdict{Detail: fmt.Sprintf("forward node %d (%s) returned an error on valid operands: %v", failed, p.Nodes[failed].Op, err), Data: p}
	}
	for _, r := range roots {
		if err := tensor.BackPropagate(ts[r]); err != nil {
			return core.Verdict{Detail: fmt.Sprintf("BackPropagate(t%d) failed: %v", r, err), Data: p}
		}
	}
	mism := compareGradsOpt(p, ts, vals, sum(false), o)
	if mism == "" {
		return core.Pass()
	}
	if o.allowKF {
		if compareGradsOpt(p, ts, vals, sum(true), o) == "" {
			return core.Verdict{KF: kfBroadcastAvg, Detail: mism, Data: p}
		}
	}
	return core.Verdict{Detail: fmt.Sprintf("roots %v back-propagated one after the other: %s", roots, mism), Data: p}
}

// stagedGradCase: like seqGradCase, but every graph is BUILT only after the
// previous root has been back-propagated (roots ascending; the nodes up to and
// including roots[k] form stage k). Later stages must use only leaves that are
// untracked or took no part in an earlier stage (a tracked leaf is spent after
// a back-propagation; that is C08's subject).
func stagedGradCase(p *ref.Program, roots []int, o gradOpts) core.Verdict {
	vals, ok := p.Forward()
	if !ok {
		return core.Fail("HARNESS: model rejects enumerated program")
	}
	if !p.DifferentiableAll(vals) {
		return core.Skip()
	}
	total := make([]*ref.T, p.NTensors())
	for _, r := range roots {
		g, _ := p.Backward(vals, r, nil, false)
		for i, gi := range g {
			if gi == nil {
				continue
			}
			if total[i] == nil {
				total[i] = gi.Clone()
			} else {
				for k := range gi.V {
					total[i].V[k] += gi.V[k]
				}
			}
		}
	}
	ts := make([]tensor.Tensor, 0, p.NTensors())
	for i, l := range p.Leaves {
		ts = append(ts, rt.Make(l, p.Tracked[i]))
	}
	next := 0
	for i, n := range p.Nodes {
		in := make([]tensor.Tensor, len(n.In))
		for k, id := range n.In {
			in[k] = ts[id]
		}
		r, err := rt.Apply(n.Op, in)
		if err != nil {
			return core.Verdict{Detail: fmt.Sprintf("forward node %d (%s) returned an error on valid operands: %v", i, n.Op, err), Data: p}
		}
		ts = append(ts, r)
		if next < len(roots) && len(ts)-1 == roots[next] {
			if err := tensor.BackPropagate(r); err != nil {
				return core.Verdict{Detail: fmt.Sprintf("BackPropagate(t%d) failed: %v", roots[next], err), Data: p}
			}
			next++
		}
	}
	if next != len(roots) {
		return core.Fail("HARNESS: roots %v not ascending tensor ids", roots)
	}
	for i := range ts {
		if okc, msg := core.Close(rt.Read(ts[i]), vals[i], scaleOf(vals...)); !okc {
			return core.Verdict{Detail: fmt.Sprintf("forward value of tensor %d: %s", i, msg), Data: p}
		}
	}
	if mism := compareGradsOpt(p, ts, vals, total, o); mism != "" {
		return core.Verdict{Detail: fmt.Sprintf("graphs built and back-propagated one after the other (roots %v, each graph built after the previous back-propagation): %s", roots, mism), Data: p}
	}
	return core.Pass()
}

// upstreamLinearCase: every backward rule is LINEAR in the upstream gradient,
// and multiplying by a power of two is exact in binary floating point as long
// as nothing overflows or becomes subnormal. So back-propagating the same
// program from root*W and from root*(s*W), s = 2^k, must give gradients that
// differ by exactly the factor s - for any correct implementation, whatever
// order it evaluates its formulas in. (A shortcut decided by a statistic of the
// upstream gradient - its sum, spread, maximum - breaks this when the statistic
// underflows or overflows.) p must end in the node root*W with W the last leaf.
func upstreamLinearCase(p *ref.Program, root int, k int) core.Verdict {
	s := math.Ldexp(1, k)
	run := func(scale float64) ([]*ref.T, string) {
		q := &ref.Program{Leaves: append([]*ref.T{}, p.Leaves...), Tracked: p.Tracked, Nodes: p.Nodes}
		w := q.Leaves[len(q.Leaves)-1].Clone()
		for i := range w.V {
			w.V[i] *= scale
		}
		q.Leaves[len(q.Leaves)-1] = w
		ts, failed, err := rt.RunProgram(q)
		if err != nil {
			return nil, fmt.Sprintf("forward node %d: %v", failed, err)
		}
		if err := tensor.BackPropagate(ts[root]); err != nil {
			return nil, fmt.Sprintf("BackPropagate: %v", err)
		}
		out := make([]*ref.T, len(q.Leaves)-1)
		for i := range out {
			if g := ts[i].Gradient(); g != nil {
				out[i] = rt.Read(g)
			}
		}
		return out, ""
	}
	vals, ok := p.Forward()
	if !ok || !p.DifferentiableAll(vals) {
		return core.Skip()
	}
	g1, e1 := run(1)
	g2, e2 := run(s)
	if e1 != "" || e2 != "" {
		return core.Fail("upstream scaled by 1: %q; by 2^%d: %q", e1, k, e2)
	}
	for i := range g1 {
		if (g1[i] == nil) != (g2[i] == nil) {
			return core.Fail("tensor %d: gradient nil-ness depends on the scale of the upstream gradient", i)
		}
		if g1[i] == nil {
			continue
		}
		if !ref.SameShape(g1[i].Shape, g2[i].Shape) {
			return core.Fail("tensor %d: gradient shape depends on the scale of the upstream gradient: %v vs %v", i, g1[i].Shape, g2[i].Shape)
		}
		for j := range g1[i].V {
			a, b := g1[i].V[j]*s, g2[i].V[j]
			if m := math.Abs(a); a != 0 && (m < 1e-280 || m > 1e280) {
				continue // the scaled value leaves the normal range: not comparable
			}
			if math.Abs(g1[i].V[j]) != 0 && math.Abs(g1[i].V[j]) < 1e-280 {
				continue
			}
			if d := math.Abs(a - b); d > 1e-12*math.Abs(a) || math.IsNaN(d) {
				return core.Fail("backward rules are linear in the upstream gradient, but scaling the upstream by 2^%d does not scale the gradient of tensor %d by 2^%d: element %d is %v, expected %v (= %v * 2^%d)", k, i, k, j, b, a, g1[i].V[j], k)
			}
		}
	}
	return core.Pass()
}

func compareGrads(p *ref.Program, ts []tensor.Tensor, vals, grads []*ref.T) string {
	return compareGradsOpt(p, ts, vals, grads, gradOpts{})
}

func compareGradsOpt(p *ref.Program, ts []tensor.Tensor, vals, grads []*ref.T, o gradOpts) string {
	noValue := o.noValue
	scale := scaleOf(append(append([]*ref.T{}, vals...), grads...)...)
	for i := range ts {
		g := ts[i].Gradient()
		if grads[i] == nil {
			if g != nil {
				return fmt.Sprintf("tensor %d (tracked=%v) must not receive a gradient but has %v", i, p.TrackedAll()[i], rt.Read(g))
			}
			continue
		}
		if g == nil {
			return fmt.Sprintf("tensor %d: gradient is nil, expected %v", i, grads[i])
		}
		got := rt.Read(g)
		for _, v := range got.V {
			if math.IsNaN(v) || math.IsInf(v, 0) {
				return fmt.Sprintf("tensor %d: non-finite gradient %v, expected %v", i, got, grads[i])
			}
		}
		if noValue[i] {
			if !ref.SameShape(got.Shape, vals[i].Shape) {
				return fmt.Sprintf("gradient of tensor %d has shape %v, tensor has %v", i, got.Shape, vals[i].Shape)
			}
			continue
		}
		if o.relTensor {
			if !ref.SameShape(got.Shape, grads[i].Shape) {
				return fmt.Sprintf("gradient of tensor %d has shape %v, expected %v", i, got.Shape, grads[i].Shape)
			}
			m := enum.MaxAbs(grads[i])
			for k := range got.V {
				if d := math.Abs(got.V[k] - grads[i].V[k]); d > 1e-7*m+1e-300 || math.IsNaN(d) {
					return fmt.Sprintf("gradient of tensor %d (shape %v): element %d is %v, expected %v (relative to the tensor's largest expected element %v)", i, vals[i].Shape, k, got.V[k], grads[i].V[k], m)
				}
			}
			continue
		}
		if o.elementwise {
			if okc, msg := core.RelClose(got, grads[i], 1e-7, 1e-6); !okc {
				return fmt.Sprintf("gradient of tensor %d (shape %v): %s (got %v, expected %v)", i, vals[i].Shape, msg, got, grads[i])
			}
			continue
		}
		if okc, msg := core.Close(got, grads[i], scale); !okc {
			return fmt.Sprintf("gradient of tensor %d (shape %v): %s", i, vals[i].Shape, msg)
		}
	}
	return ""
}

func describeProgram(p *ref.Program) string {
	s := ""
	for i, l := range p.Leaves {
		s += fmt.Sprintf("t%d=leaf%v tracked=%v; ", i, l.Shape, p.Tracked[i])
	}
	for i, n := range p.Nodes {
		s += fmt.Sprintf("t%d=%s%v; ", len(p.Leaves)+i, n.Op, n.In)
	}
	return s
}

// inferTies: for a (Leaky)Relu node with inputs of exactly 0, read the observed
// gradient of the node's input, derive the per-element derivative the
// implementation used at 0, require it to lie between the one-sided
// derivatives (the statement: "a value between them at 0"), and store it in
// the node's Tie so that the model uses the same convention for the rest of
// the graph. The node's input must have the activation as its only consumer.
func inferTies(p *ref.Program, node int, ts []tensor.Tensor, vals, grads []*ref.T) string {
	n := &p.Nodes[node]
	if n.Op.K != "Relu" && n.Op.K != "LeakyRelu" {
		return ""
	}
	in := n.In[0]
	out := len(p.Leaves) + node
	x := vals[in]
	hasZero := false
	for _, v := range x.V {
		if math.Abs(v) <= ref.EqTolerance {
			hasZero = true
		}
	}
	if !hasZero || grads[out] == nil || grads[in] == nil {
		return ""
	}
	g := ts[in].Gradient()
	if g == nil {
		return fmt.Sprintf("activation input (tensor %d) has no gradient", in)
	}
	obs := rt.Read(g)
	if !ref.SameShape(obs.Shape, x.Shape) {
		return fmt.Sprintf("activation input gradient has shape %v, input has %v", obs.Shape, x.Shape)
	}
	m := 0.
	if n.Op.K == "LeakyRelu" {
		m = n.Op.F
	}
	gy := grads[out]
	tie := make([]float64, len(x.V))
	for i, v := range x.V {
		tie[i] = 0.5
		if math.Abs(v) > ref.EqTolerance || gy.V[i] == 0 || m == 1 {
			continue
		}
		d := obs.V[i] / gy.V[i] // derivative used at 0
		if math.IsNaN(d) || math.IsInf(d, 0) {
			return fmt.Sprintf("%s: non-finite gradient %v at an input of exactly 0", n.Op, obs.V[i])
		}
		lam := (d - m) / (1 - m)
		if lam < -1e-9 || lam > 1+1e-9 {
			return fmt.Sprintf("%s: derivative used at an input of exactly 0 is %v, not between the one-sided derivatives %v and 1 (input %v, upstream %v, observed gradient %v)", n.Op, d, m, x, gy, obs)
		}
		tie[i] = math.Max(0, math.Min(1, lam))
	}
	n.Op.Tie = tie
	return ""
}
