package main

import (
	"fmt"
	"github.com/sahandsafizadeh/qeep/tensor"
	"math"
	"qmc/rt"

	"qmc/core"
	"qmc/enum"
	"qmc/ref"
)

func c02Opts(thorough bool) opCaseOpts {
	if thorough {
		shapes := append(enum.Shapes(5, []int{1, 2}), enum.Shapes(4, []int{1, 2, 3})...)
		seen := map[string]bool{}
		var out [][]int
		for _, s := range shapes {
			k := fmt.Sprint(s)
			if !seen[k] {
				seen[k] = true
				out = append(out, s)
			}
		}
		out = append(out, []int{4}, []int{5}, []int{7}, []int{2, 4}, []int{5, 2}, []int{4, 4}, []int{2, 5, 3}, []int{33}, []int{6, 6}, []int{3, 8, 2}, []int{130})
		return opCaseOpts{shapes: out, maxIndexRank: 4, concatSizes: []int{1, 2, 3}, concat3: true, bigIndexLimit: 64}
	}
	quick := enum.Shapes(3, []int{1, 2, 3})
	for _, s := range enum.Shapes(4, []int{1, 2}) {
		if len(s) == 4 {
			quick = append(quick, s)
		}
	}
	// dimension sizes beyond 3 (constants such as 2/(n-1), thresholds, block sizes)
	quick = append(quick, []int{4}, []int{5}, []int{7}, []int{2, 4}, []int{5, 2}, []int{4, 4}, []int{2, 5, 3}, []int{33},
		[]int{6}, []int{8}, []int{16}, []int{8, 2}, []int{2, 1, 2, 1, 2}, []int{1, 2, 1, 2, 1, 2}, []int{1024})
	return opCaseOpts{shapes: quick, maxIndexRank: 4, concatSizes: []int{1, 2}, concat3: true, bigIndexLimit: 64}
}

func checkC02(c *core.Ctx) {
	defer specialC02(c)
	defer sweepC02(c)
	defer c02UnaryMagnitudes(c)
	defer selfCases(c, true, "elementwise", "linalg", "move")
	defer soakC02(c)
	defer sweepConcatN(c, true)
	defer gridC02(c)
	if c.Shard == 0 && c.Only == "" {
		if f := refSelftest(); f > 0 {
			c.Broken("reference model selftest failed (%d)", f)
			return
		}
	}
	forEachOpCase(c02Opts(c.Thorough()), func(oc OpCase) {
		if c.Expired() {
			return
		}
		n := len(oc.In)
		for mask := 1; mask < 1<<n; mask++ {
			for vi := 0; vi < 2; vi++ {
				for wi := 0; wi < 6; wi++ {
					if wi >= 2 && vi == 1 {
						continue
					}
					mask, vi, wi := mask, vi, wi
					id := fmt.Sprintf("%s|m%d|v%d|w%d", oc.ID(), mask, vi, wi)
					c.Case(id, ref.Size(oc.In[0]) > 1, func() core.Verdict {
						return c02Run(oc, genInputs(oc.Op, oc.In, uint64(100+vi)), mask, wi)
					})
				}
			}
		}
		// inputs of extreme scale (x 1e-13, x 1e-100, x 1e+100) for the rules that divide
		// by, or multiply with, quantities derived from the operand
		switch oc.Op.K {
		case "StdAlong", "VarAlong", "MeanAlong", "AvgAlong", "SumAlong", "MaxAlong", "MinAlong", "Div", "Mul", "Log", "Dot", "MatMul", "Scale", "Sub":
			if ref.Size(oc.In[0]) <= 64 {
				for si, sc := range []float64{1e-13, 1e-100, 1e100} {
					si, sc := si, sc
					c.Case(fmt.Sprintf("%s|scale%d", oc.ID(), si), true, func() core.Verdict {
						return c02Scaled(oc, sc)
					})
				}
			}
		}
		// the rule is linear in the upstream gradient: upstream scaled by 2^-565 (~1e-170) and 2^+500 (~3e150)
		for _, k := range []int{-565, 500} {
			k := k
			c.Case(fmt.Sprintf("%s|upstream2^%d", oc.ID(), k), true, func() core.Verdict {
				in := genInputs(oc.Op, oc.In, 104)
				p := &ref.Program{Leaves: in}
				ids := make([]int, len(in))
				for i := range in {
					p.Tracked = append(p.Tracked, true)
					ids[i] = i
				}
				p.Nodes = []ref.Node{{Op: oc.Op, In: ids}}
				if _, ok := p.Forward(); !ok {
					return core.Skip()
				}
				q, root := withWeighting(p, len(in), 9)
				v := upstreamLinearCase(q, root, k)
				if !v.OK && !v.Skip {
					v.Detail = describeProgram(q) + " :: " + v.Detail
				}
				return v
			})
		}
		// special class: base 0 for Pow with exponent 0, 1 or 2
		if oc.Op.K == "Pow" && (oc.Op.F == 0 || oc.Op.F == 1 || oc.Op.F == 2) {
			for wi := 0; wi < 2; wi++ {
				wi := wi
				c.Case(fmt.Sprintf("%s|base0|w%d", oc.ID(), wi), true, func() core.Verdict {
					in := genInputs(oc.Op, oc.In, 7)
					for i := range in[0].V {
						if i%2 == 0 {
							in[0].V[i] = 0
						}
					}
					return c02Run(oc, in, 1, wi)
				})
			}
		}
	})
}

func c02Run(oc OpCase, in []*ref.T, mask int, wi int) core.Verdict {
	p := &ref.Program{Leaves: in}
	ids := make([]int, len(in))
	for i := range in {
		p.Tracked = append(p.Tracked, mask&(1<<i) != 0)
		ids[i] = i
	}
	p.Nodes = []ref.Node{{Op: oc.Op, In: ids}}
	root := len(in)
	if wi == 1 {
		p, root = withWeighting(p, root, 9)
	} else if wi == 2 {
		// an upstream weighting whose elements cancel exactly (sum == 0) without being zero
		p, root = withWeighting(p, root, 9)
		w := p.Leaves[len(p.Leaves)-1]
		if len(w.V) < 2 {
			return core.Skip()
		}
		for i := 0; i+1 < len(w.V); i += 2 {
			w.V[i+1] = -w.V[i]
		}
		if len(w.V)%2 == 1 {
			w.V[len(w.V)-1] = 0
		}
	} else if wi == 6 {
		// an upstream gradient that is zero in EVERY element: every tracked operand still gets a (zero) gradient of its own shape
		p, root = withWeighting(p, root, 9)
		w := p.Leaves[len(p.Leaves)-1]
		for i := range w.V {
			w.V[i] = 0
		}
	} else if wi >= 3 {
		// further upstream gradients: a single non-zero entry (last position), all negative, zero "rows" (every other entry 0)
		p, root = withWeighting(p, root, 9)
		w := p.Leaves[len(p.Leaves)-1]
		for i := range w.V {
			switch wi {
			case 3:
				if i != len(w.V)-1 {
					w.V[i] = 0
				}
			case 4:
				w.V[i] = -math.Abs(w.V[i])
			case 5:
				if i%2 == 0 {
					w.V[i] = 0
				}
			}
		}
	}
	v := gradCase(p, root, gradOpts{})
	if !v.OK && !v.Skip {
		v.Detail = describeProgram(p) + " :: " + v.Detail
	}
	return v
}

// c02UnaryMagnitudes: the derivative of every element-wise function at arguments from 1e-8 to 20
// (both signs where defined), each gradient element judged RELATIVE to its own expected value
// (1e-6): the derivatives are well-conditioned functions of the argument there, so a rule that
// reuses a rounded forward result and cancels (1 - tanh(x)^2 for |x| > 12, ...) shows.
func c02UnaryMagnitudes(c *core.Ctx) {
	mags := []float64{1e-8, 1e-3, 0.3, 2.5, 9, 12, 15, 17, 19, 20}
	ops := []ref.Op{{K: "Exp"}, {K: "Log"}, {K: "Sin"}, {K: "Cos"}, {K: "Tan"}, {K: "Sinh"}, {K: "Cosh"}, {K: "Tanh"}, {K: "Scale", F: -1.5}}
	for _, a := range powExponents {
		ops = append(ops, ref.Op{K: "Pow", F: a})
	}
	for _, op := range ops {
		for sign := 0; sign < 2; sign++ {
			op, sign := op, sign
			c.Case(fmt.Sprintf("magnitudes/%s/sign%d", op, sign), true, func() core.Verdict {
				x := &ref.T{Shape: []int{len(mags)}, V: append([]float64{}, mags...)}
				if sign == 1 {
					for i := range x.V {
						x.V[i] = -x.V[i]
					}
				}
				p := &ref.Program{Leaves: []*ref.T{x}, Tracked: []bool{true}, Nodes: []ref.Node{{Op: op, In: []int{0}}}}
				vals, ok := p.Forward()
				if !ok || !p.DifferentiableAll(vals) {
					return core.Skip()
				}
				for _, v := range vals[1].V {
					if math.IsNaN(v) || math.IsInf(v, 0) {
						return core.Skip()
					}
				}
				q, root := withWeighting(p, 1, 9)
				qv, _ := q.Forward()
				grads, _ := q.Backward(qv, root, nil, false)
				ts, failed, err := rt.RunProgram(q)
				if err != nil {
					return core.Fail("%s: forward node %d: %v", op, failed, err)
				}
				if err := tensor.BackPropagate(ts[root]); err != nil {
					return core.Fail("%s: BackPropagate: %v", op, err)
				}
				g := ts[0].Gradient()
				if g == nil {
					return core.Fail("%s: no gradient", op)
				}
				got := rt.Read(g)
				if !ref.SameShape(got.Shape, x.Shape) {
					return core.Fail("%s: gradient shape %v", op, got.Shape)
				}
				for i, e := range grads[0].V {
					if math.IsInf(e, 0) || math.IsNaN(e) || (e != 0 && math.Abs(e) < 1e-290) {
						continue
					}
					// (absolute floor 1e-12*|upstream|: rules that reuse the rounded forward result, such as
					// 1 - tanh(x)^2 for cosh(x)^-2, are as good as the closed form up to that - DESIGN 3.7)
					if d := math.Abs(got.V[i] - e); d > 1e-6*math.Abs(e)+1e-12*math.Abs(qv[1].V[i])+1e-300 || math.IsNaN(d) {
						return core.Fail("%s at x = %v with upstream %v: gradient %v, expected %v (relative error %.2g)", op, x.V[i], qv[1].V[i], got.V[i], e, d/math.Abs(e))
					}
				}
				return core.Pass()
			})
		}
	}
}

func c02Scaled(oc OpCase, sc float64) core.Verdict {
	in := genInputs(oc.Op, oc.In, 103)
	for _, t := range in {
		for i := range t.V {
			t.V[i] *= sc
		}
	}
	p := &ref.Program{Leaves: in}
	ids := make([]int, len(in))
	for i := range in {
		p.Tracked = append(p.Tracked, true)
		ids[i] = i
	}
	p.Nodes = []ref.Node{{Op: oc.Op, In: ids}}
	if _, ok := p.Forward(); !ok {
		return core.Skip()
	}
	q, root := withWeighting(p, len(in), 9)
	vals, _ := q.Forward()
	g, _ := q.Backward(vals, root, nil, false)
	for _, ts := range [][]*ref.T{vals, g} {
		for _, t := range ts {
			if t == nil {
				continue
			}
			for _, x := range t.V {
				if math.IsInf(x, 0) || math.IsNaN(x) || (x != 0 && math.Abs(x) < 1e-290) {
					return core.Skip() // overflow / denormal range: not specified
				}
			}
		}
	}
	v := gradCaseNoForward(q, root, gradOpts{relTensor: true})
	if !v.OK && !v.Skip {
		v.Detail = describeProgram(q) + fmt.Sprintf(" (inputs scaled by %g) :: ", sc) + v.Detail
	}
	return v
}
