package main

func init() {
	register(&Check{ID: "C03", Fn: checkC03,
		Rule:        "bounded-exhaustive: every unary op on every shape of the tier's shape set; every target shape T and EVERY operand pair (A,B) with broadcast(A,B)=T for Add/Sub/Mul/Div, each also compared bit-for-bit with explicit Broadcast first; same-shape ops and comparisons (one third exact ties) + Equals; value classes {0,-0,±1,±2.5,1e-6,±1e6} exhaustively over tensors of <=2 (thorough 3) elements. Non-trivial: more than one element, and for broadcasting pairs the two operand shapes differ (some dimension expands). Case ids are distinct by construction (nested loops over distinct tuples; duplicate_case_ids counts hash collisions of ids).",
		Assumptions: []string{"Go math package is the definition of the scalar functions", "values: all-distinct generic values and the listed value classes, not every float64", "shapes bounded: quick rank<=4 sizes{1,2,3}; thorough rank<=5 sizes{1,2,3} plus rank 6 over {1,2} with at most one 3"}})
	register(&Check{ID: "C04", Fn: checkC04,
		Rule:        "bounded-exhaustive: MatMul for m,n,k in {1,2,3} and every broadcast-compatible pair of batch shapes (rank<=2 over {1,2,3}; thorough additionally rank 3-4 over {1,2}); Dot likewise; Dot/Transpose/MatMul on every shape of the shape set up to rank 6; identities A·I=A, I·A=A, (A·B)^T=B^T·A^T, T∘T=id on the real code. Non-trivial: m*n*k>1 / more than one element.",
		Assumptions: []string{"generic irregular all-distinct values so no permutation of rows/columns/batches yields the same sums", "bounded shapes as stated in rule"}})
	register(&Check{ID: "C05", Fn: checkC05,
		Rule:        "bounded-exhaustive: 7 global reducers on every shape (ranks 0..6 thorough) and the 7 ...Along(dim) for every dim of every shape, under 5 value modes (generic, generic wide, negatives only, constant fibre, tied extremum). Non-trivial: reduced dim > 1 and more than one fibre (Along) / more than one element (global).",
		Assumptions: []string{"bounded shapes; value modes listed"}})
	register(&Check{ID: "C06", Fn: checkC06,
		Rule:        "bounded-exhaustive with all-distinct labels (operations are value-parametric, comparison bit-exact): At at every multi-index, Shape, NElems, Full/Zeros/Ones, every Slice index list (explicit/whole/omitted in every combination and length), every Patch (source shape <= target, every position, every index form) with round trips, every Reshape between equal-count shapes of the set, UnSqueeze/Squeeze/Flatten every dim, Broadcast from every compatible source, Concat of 2 and 3 operands along every dim with sizes 1..3 and slicing back, Eye(1..5). Non-trivial: more than one element (Broadcast: real expansion; Reshape: shape changes).",
		Assumptions: []string{"value-parametricity of element-moving code paths (they never inspect the floats)", "bounded shapes"}})
}

func init() {
	register(&Check{ID: "C02", Fn: checkC02,
		Rule:        "bounded-exhaustive: for each of the 33 differentiable operations other than Broadcast, every operand shape of the bound (no implicit expansion), every valid dim / exponent {-2,-1,-0.5,0,0.5,1,2,3} / scale / index list (explicit, whole, omitted) / Patch source shape+position / Reshape target / 2-3 operand Concat, every non-empty subset of tracked operands, two generic value assignments plus base 0 for Pow(0|1|2), upstream all-ones and a non-uniform weighting W applied as BackPropagate(y*W). Oracle: BackPropagate returns nil, each tracked operand's gradient is non-nil, finite, of the operand's shape and equals the model VJP; untracked operands have none. Non-trivial: operand has more than one element. Cases at non-differentiable points are skipped and counted.",
		Assumptions: []string{"reference VJPs (validated against central finite differences by selftest on every run of shard 0)", "bounded shapes: quick rank<=3 sizes{1,2,3}; thorough rank<=5 over {1,2} plus rank<=4 over {1,2,3}", "generic all-distinct values, not every float64"}})
}

func init() {
	register(&Check{ID: "C07", Fn: checkC07,
		Rule:        "bounded-exhaustive: explicit Broadcast for every (source,target) pair of the target set (new leading dims, size-1 dims expanded, both, factor 1 included); Add/Sub/Mul/Div for every operand pair broadcasting to every target and every tracked subset; Dot and MatMul for every broadcast-compatible batch pair; upstream all-ones and non-uniform W. Oracle: operand gradient has the operand's own shape and equals the SUM of upstream*local derivative over all copies. Non-trivial: a tracked operand is expanded by a factor > 1. A mismatch is a KNOWN-FINDING only if the observed gradients equal the alternative model 'mean instead of sum over the expanded copies' (listed finding broadcast_avg); anything else is a VIOLATION; factor-1 cases must match the exact model.",
		Assumptions: []string{"reference VJPs validated by selftest", "bounded target shapes: quick rank<=3, thorough rank<=5 over {1,2,3}"}})
}

func init() {
	register(&Check{ID: "C01", Fn: checkC01,
		Rule:        "explicit enumeration of ALL straight-line programs over two [2]-leaves with up to 3 (thorough 4; 5 over {Scale,Add,Mul}) operations from {Scale, Sin, Exp, Add(i<=j), Mul(i<=j), Sub(i,j), Concat+Slice(i,j)}, operands chosen among all earlier tensors (every fan-out/reconvergence pattern), x 3 tracked masks x every non-leaf tensor as root; all ordered pairs (thorough: up to 2 ops each, plus triples) of programs over the same leaves back-propagated in sequence; four deep families (y=y+y, y=y*y, diamond chain, consume-all-earlier) to depth 24 (48). Oracle: model reverse pass in topological order on every tensor (nil-ness, shape, value), and backward-rule applications counted through the verif hook <= (E+1)^2 with E the reachable edges of the REAL graph (budget enforced by the hook, so an exponential walk is cut off and reported). Non-trivial: reachable sub-DAG has an interior tensor with >= 2 consumers or an op using one operand twice.",
		Assumptions: []string{"reference reverse pass validated against finite differences (selftest)", "programs whose model forward values leave [-1e6,1e6] are skipped and counted", "no expanding operation in the alphabet (expansion is C07's subject)"}})
}

func init() {
	register(&Check{ID: "C08", Fn: checkC08, Shards: 1, Procs: 16,
		Rule:        "explicit-state breadth-first search over API histories: events NewLeaf(tracked|untracked), Scale(i), Mul(i<=j), Concat(i,j), Gt(i<=j), BackPropagate(i), ResetGradContext(i,true|false) over a pool of <=5 tensors to depth 5 (thorough: pool 5 depth 7 and pool 6 depth 6); enabledness = the property's own preconditions (a),(b); every transition replays the history on FRESH real tensors and compares EVERY tensor with the model (forward values, Gradient nil-ness and accumulated values, tracked/spent flags and back-edge presence through the verif hook, gradient tensors untracked, behavioural spent probe). States deduplicated on the full abstract model state (creation kind, operands, tracked, spent, has-gradient, accumulation count per tensor). Every transition counts as non-trivial (all are executed and compared).",
		Assumptions: []string{"dedup key contains every field the real transition functions read; conformance of those fields is itself checked in every visited state", "comparison of a spent tensor is not generated (statement silent)", "pool/depth bound"}})
}

func init() {
	register(&Check{ID: "C19", Fn: checkC19, Shards: 1, Procs: 16,
		Rule:        "explicit-state BFS over histories of Accumulate (every valid batch of size 1..2 (thorough 3) over labels {0,1,2.5,-1} per position), 6 kinds of invalid call (nil/nil, nil prediction, nil target, rank 0, rank 2, mismatched lengths) and Result, to depth 5 (thorough 7); every transition executed on a fresh real Accuracy by replaying the history; oracle after every transition: Result == matched/total of the model, in [0,1], hook counters == model, rejected call leaves counters and Result unchanged; dedup on (correct,total). Plus partition invariance: every label-pair sequence up to length 5 (6) x all 2^(n-1) consecutive partitions.",
		Assumptions: []string{"dedup on (total, correct) is sound because the hook shows these two integers are the whole state of the metric", "label alphabet {0,1,2.5,-1}"}})
}

func init() {
	register(&Check{ID: "C12", Fn: checkC12,
		Rule:        "bounded-exhaustive over value classes: predictions from {-1e6,-1,0,1e-13,1e-12,3e-12,0.3,0.5,1-3e-12,1-1e-12,1-1e-13,1,2,1e6} x targets from {-1,0,0.3,1,2,1e6}: ALL tuples for tensors of <=2 elements (MSE/BCE batch 1-2, CE [1,1],[1,2],[2,1]); for larger batches/classes every pair of (prediction,target) classes at every pair of positions; each case under all four tracked/untracked combinations. Oracle: scalar shape [], finite, >= 0, equals the model formula with clipping (rel 1e-7), bit-identical across tracking combinations.",
		Assumptions: []string{"value classes, not every float64", "batch <= 4, classes <= 3"}})
	register(&Check{ID: "C14", Fn: checkC14,
		Rule:        "bounded-exhaustive: Relu, LeakyRelu(m in {nil->0.01, 0, 0.3, 1, -0.5}), Sigmoid, Tanh and Softmax for EVERY dim 0..rank-1 plus the nil config, on every shape of rank 0..4 (thorough 5) over sizes {1,2,3}, with two generic assignments and a rotation of the value classes {-700,-20,-1,-0,0,1e-9,1,20,700}; the value classes exhaustively over inputs of 1..3 elements. Oracle: model formula (rel 1e-9), input shape preserved; Softmax additionally >= 0 and sums to 1 along dim within 1e-12. Non-trivial: more than one element (Softmax: normalised dimension > 1).",
		Assumptions: []string{"|x| <= 700 for Softmax with normalised width <= 3 (e^x sums stay finite)"}})
}

func init() {
	register(&Check{ID: "C17", Fn: checkC17,
		Rule:        "bounded-exhaustive: weights on every shape of rank 0..4 (thorough 5) over {1,2,3} x learning rate {nil config, 0.01, 0.5, 0, -0.3} x gradient produced by a real back-propagation (w*c with non-uniform c; w^2; two accumulated back-propagations). Oracle: new tensor has w - lr*g element-wise and the same shape; the previous tensor object, its elements and its gradient object/values are unchanged; a second Update without a new gradient, a nil pointer, a pointer to a nil tensor and a tensor without gradient each return an error and replace nothing. Non-trivial: more than one element.",
		Assumptions: []string{"bounded shapes", "generic values"}})
	register(&Check{ID: "C18", Fn: checkC18,
		Rule:        "enumeration of all call sequences (length 1 and 2 over the full alphabet of 9 constructors x parameter sets x shapes; length 3 (thorough 4) over a reduced alphabet) after seeding gonum's global source; conformance oracle: the elements returned by the n-th call are, as a multiset and bit-for-bit, the next prod(shape) draws of a private gonum Uniform/Normal with the EXACT parameters of the statement on an identically seeded source (decides shape, tracked status, support, scale constants, freshness and per-element independence of draws exactly); Full holds the constant. If an implementation stops following that stream the oracle abstains (skipped) only when support, pairwise-distinctness and 4096-sample moments (6 sigma) all hold. Non-trivial: sequences of >= 2 calls or more than one element.",
		Assumptions: []string{"gonum's Uniform/Normal samplers and x/exp/rand are the trusted base for distribution shape and convergence of moments", "rand.Seed owns the only randomness"}})
}

func init() {
	register(&Check{ID: "C13", Fn: checkC13,
		Rule:        "bounded-exhaustive: MSE/BCE batch 1..4, CE [1..3,1..3]; predictions from {0,1e-13,0.2,0.5,0.9,1-1e-13,1} x targets {0,0.3,1}: all tuples for <=2 (thorough 3) elements, else every class pair at every position pair; prediction supplied as a tracked leaf and through 6 value-preserving upstream programs (Scale(1), reconvergent 0.5x+0.5x, Mul(ones), Sub(zeros), Concat+Slice, Reshape twice) so that exact classes reach an interior node; targets tracked and untracked; plus every <=2-operation program over two leaves -> Sigmoid -> loss. Oracle: analytic derivative of the statement (0 where clipped), prediction's shape, chain rule to every upstream tensor, untracked inputs nil; a tracked target at a clipping kink is only required to have a finite gradient of its shape. Non-trivial: prediction is an interior node.",
		Assumptions: []string{"analytic loss VJPs validated against finite differences (selftest)", "value classes; predictions exactly at the two clipping bounds excluded as in the statement"}})
	register(&Check{ID: "C15", Fn: checkC15,
		Rule:        "bounded-exhaustive: Relu, LeakyRelu(0.01, 0.3, -0.5), Sigmoid, Tanh, Softmax(every dim) on every shape of rank 0..3 (thorough 4) over {1,2,3}; two generic assignments and two rotations of the value classes {-700,-20,-1,0,1e-9,1,20,700}; activation input given as leaf and through 6 value-preserving upstream programs; activation output used as root, through Scale(3), and through a non-uniform weighting; value classes exhaustively over 1..2 (3) element inputs; every <=2-operation upstream program. Oracle: derivative formulas of the statement; at an input of exactly 0 the derivative used by (Leaky)Relu is inferred from the observed input gradient and only required to lie between the one-sided derivatives, then propagated consistently upstream; finite; input's shape. Softmax with normalised width > 1 is recognised as the listed finding broadcast_avg only if it equals the mean-model exactly.",
		Assumptions: []string{"analytic activation VJPs validated against finite differences (selftest)", "bounded shapes and value classes"}})
}

func init() {
	register(&Check{ID: "C16", Fn: checkC16,
		Rule:        "bounded-exhaustive: batch, feature and output counts in 1..3 (thorough 4)^3 x two non-uniform assignments x input tracked/untracked x upstream all-ones/non-uniform: Forward equals W[o]*sum_d x[b][d]+B[o] and W, B, x receive the derivatives of that formula with the parameters' shapes (parameters are installed through the Weights() pointers of a freshly constructed layer); row independence bit-exactly for every changed row; default initializers under a seeded source (W = the seeded XavierUniform stream, B = 0, both tracked); library and failing custom initializers (wrong length, wrong rank, nil tensor, error, nil initializer: error, no panic); every history of <=4 (5) events over {replace W (2 values), replace B (2 values), Forward} through one set of Weights() pointers. W/B gradients for batch > 1 are the listed finding broadcast_avg only if they equal the mean-model exactly; batch 1 and the input gradient are exact.",
		Assumptions: []string{"analytic FC VJP validated against finite differences (selftest)", "bounded dimensions"}})
}

func init() {
	register(&Check{ID: "C11", Fn: checkC11,
		Rule:        "deviation-bounded enumeration of training histories on the real components: models FC(D->O) -> {none, Relu, LeakyRelu(0.01|0.3), Sigmoid, Tanh, Softmax(1)} -> {Flatten+MSE, Flatten+BCE, CE} with B,D,O in 1..2 (thorough 1..3), learning rate {nil config, 0.1, 0, -0.05}, two generic initialisations through a custom initializer and one seeded default initialisation, 3 (4) steps; histories with 0 and with exactly 1 deviation from the default step, for every step and weight: reset omitted, ResetGradContext(false), Update twice, Update skipped. Oracle after every step: loss value and every weight equal the model trajectory w <- w - lr*dLoss/dw (analytic composite model), shapes kept, after the reset the hook shows a fresh leaf (no gradient, no edges, not spent); an omitted reset makes the next Update return an error and replace nothing; ResetGradContext(false) freezes that weight (Update errors) while the other follows gradient descent. The trajectory under the mean-model of the listed finding broadcast_avg is accepted only as KNOWN-FINDING and only if every step matches it. Non-trivial: a deviation or batch > 1.",
		Assumptions: []string{"analytic composite model validated against finite differences (selftest)", "back-propagating twice through the same graph is outside the specified behaviour (C08 precondition a) and not generated", "bounded dimensions, 3-4 steps, at most one deviation per history"}})
}

func init() {
	register(&Check{ID: "C20", Fn: checkC20, Post: c20Post, Procs: 1,
		Rule:        "stateless model checking under a hand-written cooperative scheduler: for every unordered pair (thorough: plus selected triples) of 10 thread bodies (element-wise/broadcast ops, MatMul/Transpose/Dot, reductions, Slice/Patch/Concat/Broadcast, FC->Sigmoid->BCE, FC->Softmax->CE, two private build-and-back-propagate graphs sharing only an untracked tensor, graph construction on the shared tracked parameter, RandU/RandN/initializer) over shared 2x2 tensors, ALL schedules up to the largest preemption bound <= 2 (thorough 3) whose schedule count fits the per-scenario budget are executed on the real code (bound per scenario reported in coverage.outcomes; at least bound 1 everywhere); scheduling points before every API call and at six interior hook sites (per generated/computed/copied/reduced element, per backward rule). Oracle per execution: every thread's results (values, shape, flags, gradients) equal those of the same body run alone; the private state of every shared tensor equals its initial inspection; no random draw is handed out twice; the first schedule is executed twice and must be identical (determinism). PLUS a separate free-running pass of the same bodies (3 goroutines per pair, 20 repetitions, thorough 100) in a -race build with no scheduler and no hook handler; any race report is a violation. states = schedules executed, transitions = scheduling decisions. Each scenario is non-trivial (threads share tensors).",
		Assumptions: []string{"cooperative scheduler sees interleavings at the hooked points under sequential consistency; unsynchronised accesses between points are the race pass's job", "2-3 goroutines, bodies of <= 4 calls, 2x2 tensors, preemption bound 2 (3)"}})
}
