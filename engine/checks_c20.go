package main

import (
	"context"
	"encoding/json"
	"fmt"
	"math"
	"os"
	"os/exec"
	"path/filepath"
	"runtime"
	"sort"
	"strings"
	"sync"
	"time"

	"github.com/sahandsafizadeh/qeep/component/initializers"
	"github.com/sahandsafizadeh/qeep/component/layers"
	"github.com/sahandsafizadeh/qeep/component/layers/activations"
	"github.com/sahandsafizadeh/qeep/component/losses"
	"github.com/sahandsafizadeh/qeep/tensor"
	xrand "golang.org/x/exp/rand"
	"gonum.org/v1/gonum/stat/distuv"
	"qmc/core"
	"qmc/enum"
	"qmc/ref"
	"qmc/rt"
	"qmc/sched"
)

/* C20: concurrency. E3 = preemption-bounded exploration under the cooperative
   scheduler + a separate free-running pass under the race detector. */

type c20Fixture struct {
	p  tensor.Tensor // shared tracked parameter [2,2]
	u  tensor.Tensor // shared untracked data [2,2]
	fc *layers.FC    // shared layer with tracked parameters
	x  tensor.Tensor // shared untracked input [2,2]
	t1 tensor.Tensor // shared untracked targets [4]
	// special data (round 16): shared tensors a data-dependent shortcut would single out
	zeros, zrow, ones tensor.Tensor // all zeros [2,2]; first row all zeros, second generic [2,2]; all ones [2,2]
	// component objects shared by the goroutines (one model object serving several requests)
	relu    *activations.Relu
	lrelu   *activations.LeakyRelu
	sigmoid *activations.Sigmoid
	tanh    *activations.Tanh
	softmax *activations.Softmax
	mse     *losses.MSE
	bce     *losses.BCE
	ce      *losses.CE
	// shared tensors that are RESULTS of operations (their private slices may have spare capacity etc.)
	produced []tensor.Tensor
}

func c20NewFixture() *c20Fixture {
	f := &c20Fixture{}
	f.p = rt.Make(enum.Generic([]int{2, 2}, 1001, 0.5, 2, true), true)
	f.u = rt.Make(enum.Generic([]int{2, 2}, 1002, 0.5, 2, true), false)
	f.x = rt.Make(enum.Generic([]int{2, 2}, 1003, 0.5, 2, true), false)
	f.t1 = rt.Make(enum.Generic([]int{4}, 1004, 0.1, 0.9, false), false)
	f.zeros = rt.Make(ref.FullOf([]int{2, 2}, 0), false)
	f.zrow = rt.Make(&ref.T{Shape: []int{2, 2}, V: []float64{0, 0, 1.25, -0.75}}, false)
	f.ones = rt.Make(ref.FullOf([]int{2, 2}, 1), false)
	w := enum.Generic([]int{2}, 1005, 0.5, 2, true)
	b := enum.Generic([]int{2}, 1006, 0.5, 2, true)
	fc, err := layers.NewFC(&layers.FCConfig{Inputs: 2, Outputs: 2, Initializers: map[string]layers.Initializer{"Weight": fixedInit{t: w}, "Bias": fixedInit{t: b}}})
	if err != nil {
		panic("NewFC with valid configuration failed while building the shared fixture: " + err.Error())
	}
	f.fc = fc
	f.relu, f.lrelu, f.sigmoid, f.tanh = activations.NewRelu(), activations.NewLeakyRelu(nil), activations.NewSigmoid(), activations.NewTanh()
	f.softmax, _ = activations.NewSoftmax(&activations.SoftmaxConfig{Dim: 0})
	f.mse, f.bce, f.ce = losses.NewMSE(), losses.NewBCE(), losses.NewCE()
	r4 := rt.Make(enum.Generic([]int{2, 1, 2, 2}, 1007, 0.5, 2, true), false)
	r5 := rt.Make(enum.Generic([]int{1, 2, 1, 2, 2}, 1008, 0.5, 2, true), false)
	for d := 0; d < 4; d++ {
		f.produced = append(f.produced, must(r4.SumAlong(d)))
	}
	for d := 0; d < 5; d++ {
		f.produced = append(f.produced, must(r5.MaxAlong(d)))
	}
	f.produced = append(f.produced, must(f.u.Reshape([]int{4})), must(f.u.Slice([]tensor.Range{{From: 0, To: 1}})), must(f.u.MatMul(f.x)), must(f.u.Transpose()),
		must(tensor.Concat([]tensor.Tensor{f.u, f.x}, 1)), must(f.u.UnSqueeze(0)), must(f.u.Broadcast([]int{2, 2, 2})), f.u.Scale(2))
	// comparison results, shared BEFORE anything used them (whatever they set up lazily on first use is set up by several goroutines at once)
	f.produced = append(f.produced, must(f.u.Gt(f.x)), must(f.u.Eq(f.u)), must(f.x.Le(f.u)))
	return f
}

// shared returns the shared objects whose private state must never change.
func (f *c20Fixture) shared() []tensor.Tensor {
	return []tensor.Tensor{f.p, f.u, f.x, f.t1, f.fc.Weight, f.fc.Bias, f.zeros, f.zrow, f.ones}
}

func inspectAll(ts []tensor.Tensor) string {
	var b strings.Builder
	for _, t := range ts {
		flat, nesting, dims, rect, _ := tensor.VerifInspect(t)
		tr, dirty, g, targets, _ := tensor.VerifGradState(t)
		fmt.Fprintf(&b, "%v|%v|%v|%v|%v|%v|%v|%d;", flat, nesting, dims, rect, tr, dirty, g != nil, len(targets))
	}
	return b.String()
}

// obs renders a result tensor (values, shape, flags) for comparison.
func obsT(t tensor.Tensor, err error) string {
	if err != nil {
		return "ERR:" + err.Error()
	}
	if t == nil {
		return "nil"
	}
	flat, nesting, dims, rect, _ := tensor.VerifInspect(t)
	tr, dirty, _, targets, _ := tensor.VerifGradState(t)
	return fmt.Sprintf("%v|%v|%v|%v|%v|%v|%d", flat, nesting, dims, rect, tr, dirty, len(targets))
}

type c20Body struct {
	name   string
	random bool
	run    func(f *c20Fixture, y func()) []string
}

func must(t tensor.Tensor, err error) tensor.Tensor {
	if err != nil {
		panic(err)
	}
	return t
}

func c20Bodies() []c20Body {
	return []c20Body{
		{name: "elementwise", run: func(f *c20Fixture, y func()) []string {
			y()
			a, e1 := f.p.Add(f.u)
			y()
			row := rt.Make(&ref.T{Shape: []int{2}, V: []float64{3, -2}}, false)
			b, e2 := f.u.Mul(row)
			y()
			c := f.p.Exp()
			return []string{obsT(a, e1), obsT(b, e2), obsT(c, nil)}
		}},
		{name: "matmul", run: func(f *c20Fixture, y func()) []string {
			y()
			a, e1 := f.p.MatMul(f.u)
			y()
			b, e2 := f.u.Transpose()
			y()
			c, e3 := f.p.Dot(f.u)
			return []string{obsT(a, e1), obsT(b, e2), obsT(c, e3)}
		}},
		{name: "reduce", run: func(f *c20Fixture, y func()) []string {
			y()
			a, e1 := f.p.SumAlong(0)
			y()
			b, e2 := f.p.MaxAlong(1)
			y()
			s := f.u.Sum() + f.u.Var()
			return []string{obsT(a, e1), obsT(b, e2), fmt.Sprint(s)}
		}},
		{name: "index", run: func(f *c20Fixture, y func()) []string {
			y()
			a, e1 := f.p.Slice([]tensor.Range{{From: 0, To: 1}})
			y()
			b, e2 := f.p.Patch([]tensor.Range{{From: 1, To: 2}}, must(f.u.Slice([]tensor.Range{{From: 0, To: 1}})))
			y()
			c, e3 := tensor.Concat([]tensor.Tensor{f.p, f.u}, 1)
			y()
			d, e4 := f.u.Broadcast([]int{2, 2, 2})
			return []string{obsT(a, e1), obsT(b, e2), obsT(c, e3), obsT(d, e4)}
		}},
		{name: "model", run: func(f *c20Fixture, y func()) []string {
			y()
			h, e1 := f.fc.Forward(f.x)
			if e1 != nil {
				return []string{obsT(h, e1)}
			}
			y()
			a, e2 := activations.NewSigmoid().Forward(h)
			if e2 != nil {
				return []string{obsT(a, e2)}
			}
			y()
			fl, _ := a.Flatten(0)
			l, e3 := losses.NewBCE().Compute(fl, f.t1)
			// the Input layer hands out shared tensors (the tracked parameter and the untracked batch)
			y()
			in := &layers.Input{SeedFunc: func() tensor.Tensor { return f.p }}
			s1, e4 := in.Forward()
			in2 := &layers.Input{SeedFunc: func() tensor.Tensor { return f.x }}
			s2, e5 := in2.Forward()
			if e4 == nil && e5 == nil {
				s1, s2 = s1.Scale(2), s2.Scale(2)
			}
			return []string{obsT(h, e1), obsT(a, e2), obsT(l, e3), obsT(s1, e4), obsT(s2, e5)}
		}},
		{name: "softmaxce", run: func(f *c20Fixture, y func()) []string {
			y()
			h, e1 := f.fc.Forward(f.u)
			if e1 != nil {
				return []string{obsT(h, e1)}
			}
			y()
			sm, _ := activations.NewSoftmax(&activations.SoftmaxConfig{Dim: 1})
			a, e2 := sm.Forward(h)
			if e2 != nil {
				return []string{obsT(a, e2)}
			}
			y()
			l, e3 := losses.NewCE().Compute(a, f.x)
			return []string{obsT(a, e2), obsT(l, e3)}
		}},
		{name: "privategraph", run: func(f *c20Fixture, y func()) []string {
			// builds and back-propagates a private graph that shares only the untracked u
			w := rt.Make(&ref.T{Shape: []int{2, 2}, V: []float64{1, -2, 0.5, 3}}, true)
			y()
			m, e1 := w.Mul(f.u)
			if e1 != nil {
				return []string{obsT(m, e1)}
			}
			y()
			s, e2 := m.Add(w.Scale(2))
			if e2 != nil {
				return []string{obsT(s, e2)}
			}
			y()
			e3 := tensor.BackPropagate(s)
			return []string{obsT(s, e2), fmt.Sprint(e3), obsT(w.Gradient(), nil)}
		}},
		{name: "privategraph2", run: func(f *c20Fixture, y func()) []string {
			w := rt.Make(&ref.T{Shape: []int{2, 2}, V: []float64{0.3, 0.7, -1, 2}}, true)
			y()
			m, e1 := f.u.MatMul(w)
			if e1 != nil {
				return []string{obsT(m, e1)}
			}
			y()
			s, _ := m.SumAlong(1)
			y()
			e3 := tensor.BackPropagate(s)
			return []string{obsT(m, e1), fmt.Sprint(e3), obsT(w.Gradient(), nil)}
		}},
		{name: "privategraph3", run: func(f *c20Fixture, y func()) []string {
			// private graphs in which the shared UNTRACKED tensor is itself a back-edge
			// target (Concat / ElMax / ElMin / Patch do not copy their operands)
			w := rt.Make(&ref.T{Shape: []int{2, 2}, V: []float64{0.9, -1.1, 2.2, 0.4}}, true)
			y()
			c, e1 := tensor.Concat([]tensor.Tensor{w, f.u}, 0)
			if e1 != nil {
				return []string{obsT(c, e1)}
			}
			y()
			mx, e2 := w.ElMax(f.u)
			mn, e3 := f.u.ElMin(w)
			if e2 != nil || e3 != nil {
				return []string{obsT(mx, e2), obsT(mn, e3)}
			}
			y()
			p, e4 := f.u.Patch([]tensor.Range{{From: 0, To: 1}}, must(w.Slice([]tensor.Range{{From: 1, To: 2}})))
			if e4 != nil {
				return []string{obsT(p, e4)}
			}
			y()
			eb1 := tensor.BackPropagate(c)
			y()
			s, _ := mx.Add(mn)
			eb2 := tensor.BackPropagate(s)
			y()
			eb3 := tensor.BackPropagate(p)
			return []string{obsT(c, nil), obsT(s, nil), obsT(p, nil), fmt.Sprint(eb1, eb2, eb3), obsT(w.Gradient(), nil)}
		}},
		{name: "graphonparam", run: func(f *c20Fixture, y func()) []string {
			// graph construction on the shared tracked parameter (no back-propagation)
			y()
			a := f.p.Scale(2)
			y()
			b, e1 := a.Add(f.p)
			y()
			c, e2 := b.Mul(f.fc.Weight)
			return []string{obsT(b, e1), obsT(c, e2)}
		}},
		{name: "sharedlayers", run: func(f *c20Fixture, y func()) []string {
			// the SAME activation / loss objects are used by every goroutine, with inputs of different shapes
			var out []string
			v := rt.Make(&ref.T{Shape: []int{3}, V: []float64{-1, 0.5, 2}}, false)
			for _, in := range []tensor.Tensor{f.u, v, f.p} {
				y()
				r, err := f.relu.Forward(in)
				out = append(out, obsT(r, err))
				y()
				r, err = f.lrelu.Forward(in)
				out = append(out, obsT(r, err))
				y()
				r, err = f.sigmoid.Forward(in)
				out = append(out, obsT(r, err))
				r, err = f.tanh.Forward(in)
				out = append(out, obsT(r, err))
				y()
				r, err = f.softmax.Forward(in)
				out = append(out, obsT(r, err))
			}
			y()
			pr, _ := f.sigmoid.Forward(v)
			l1, e1 := f.mse.Compute(pr, v)
			l2, e2 := f.bce.Compute(pr, v)
			y()
			p2, _ := f.softmax.Forward(f.x)
			l3, e3 := f.ce.Compute(p2, f.u)
			return append(out, obsT(l1, e1), obsT(l2, e2), obsT(l3, e3))
		}},
		{name: "sharedlayers2", run: func(f *c20Fixture, y func()) []string {
			// same shared objects, other shapes and another order
			var out []string
			m := rt.Make(&ref.T{Shape: []int{1, 3, 1}, V: []float64{0.25, -3, 1}}, true)
			for _, in := range []tensor.Tensor{m, f.x} {
				y()
				r, err := f.softmax.Forward(in)
				out = append(out, obsT(r, err))
				y()
				r, err = f.tanh.Forward(in)
				out = append(out, obsT(r, err))
				r, err = f.sigmoid.Forward(in)
				out = append(out, obsT(r, err))
				y()
				r, err = f.lrelu.Forward(in)
				out = append(out, obsT(r, err))
				y()
				r, err = f.relu.Forward(in)
				out = append(out, obsT(r, err))
			}
			y()
			fl, _ := m.Flatten(0)
			pr, _ := f.sigmoid.Forward(fl)
			l1, e1 := f.bce.Compute(pr, fl)
			l2, e2 := f.mse.Compute(pr, fl)
			y()
			e3 := tensor.BackPropagate(l2)
			return append(out, obsT(l1, e1), obsT(l2, e2), fmt.Sprint(e3), obsT(m.Gradient(), nil))
		}},
		{name: "producedops", run: func(f *c20Fixture, y func()) []string {
			// shape operations and reducers on shared tensors that are themselves results of operations
			var out []string
			for _, t := range f.produced {
				y()
				n := len(t.Shape())
				r1, e1 := t.UnSqueeze(n)
				r2, e2 := t.UnSqueeze(0)
				r3, e3 := t.Flatten(0)
				r4, e4 := t.Reshape([]int{t.NElems()})
				out = append(out, obsT(r1, e1), obsT(r2, e2), obsT(r3, e3), obsT(r4, e4), fmt.Sprint(t.Sum(), t.Mean(), t.Shape()))
				if n >= 1 {
					r5, e5 := t.SumAlong(n - 1)
					r6, e6 := tensor.Concat([]tensor.Tensor{t, t}, n-1)
					out = append(out, obsT(r5, e5), obsT(r6, e6))
				}
			}
			return out
		}},
		{name: "oppositeorder", run: func(f *c20Fixture, y func()) []string {
			// the same two shared tensors as in "mathops", in the opposite operand order
			var out []string
			for _, k := range []string{"ElMax", "ElMin", "Sub", "Div", "Gt", "Le", "Eq", "Add", "Mul"} {
				y()
				r, err := rt.Apply(ref.Op{K: k}, []tensor.Tensor{f.u, f.p})
				out = append(out, obsT(r, err))
			}
			y()
			c, e1 := tensor.Concat([]tensor.Tensor{f.u, f.p}, 0)
			y()
			p, e2 := f.u.Patch([]tensor.Range{{From: 0, To: 1}}, must(f.p.Slice([]tensor.Range{{From: 1, To: 2}})))
			y()
			d, e3 := f.u.Dot(f.p)
			return append(out, obsT(c, e1), obsT(p, e2), obsT(d, e3))
		}},
		{name: "mathops", run: func(f *c20Fixture, y func()) []string {
			var out []string
			for _, op := range []ref.Op{{K: "Scale", F: -1.5}, {K: "Pow", F: 2}, {K: "Exp"}, {K: "Sin"}, {K: "Cos"}, {K: "Tan"}, {K: "Sinh"}, {K: "Cosh"}, {K: "Tanh"}} {
				y()
				r, err := rt.Apply(op, []tensor.Tensor{f.p})
				out = append(out, obsT(r, err))
			}
			y()
			r, err := rt.Apply(ref.Op{K: "Log"}, []tensor.Tensor{f.p.Pow(2)})
			out = append(out, obsT(r, err))
			for _, k := range []string{"Sub", "Div", "ElMax", "ElMin", "Eq", "Ne", "Gt", "Ge", "Lt", "Le"} {
				y()
				r, err := rt.Apply(ref.Op{K: k}, []tensor.Tensor{f.p, f.u})
				out = append(out, obsT(r, err))
			}
			y()
			cc, ec := tensor.Concat([]tensor.Tensor{f.p, f.u}, 0)
			pp, ep := f.p.Patch([]tensor.Range{{From: 0, To: 1}}, must(f.u.Slice([]tensor.Range{{From: 1, To: 2}})))
			out = append(out, obsT(cc, ec), obsT(pp, ep))
			eq, err := f.p.Equals(f.u)
			return append(out, fmt.Sprint(eq, err))
		}},
		{name: "shapeops", run: func(f *c20Fixture, y func()) []string {
			var out []string
			for _, op := range []ref.Op{{K: "Reshape", Shape: []int{4}}, {K: "Reshape", Shape: []int{1, 4, 1}}, {K: "UnSqueeze", Dim: 1}, {K: "Flatten", Dim: 0},
				{K: "MinAlong", Dim: 0}, {K: "AvgAlong", Dim: 1}, {K: "VarAlong", Dim: 0}, {K: "StdAlong", Dim: 1}, {K: "MeanAlong", Dim: 0}} {
				y()
				r, err := rt.Apply(op, []tensor.Tensor{f.p})
				out = append(out, obsT(r, err))
			}
			y()
			sq, err := must(f.u.UnSqueeze(0)).Squeeze(0)
			out = append(out, obsT(sq, err))
			y()
			out = append(out, fmt.Sprint(f.p.Max(), f.p.Min(), f.p.Avg(), f.p.Std(), f.p.Mean(), f.p.NElems(), f.p.Shape()))
			v, err := f.p.At(1, 0)
			return append(out, fmt.Sprint(v, err))
		}},
		{name: "random", random: true, run: func(f *c20Fixture, y func()) []string {
			y()
			a, e1 := tensor.RandU([]int{2, 2}, -1, 3, nil)
			y()
			b, e2 := tensor.RandN([]int{3}, 1, 2, nil)
			y()
			in, _ := initializers.NewHeUniform(&initializers.HeUniformConfig{FanIn: 3})
			c, e3 := in.Init([]int{2})
			inSupport := func(t tensor.Tensor, lo, hi float64) bool {
				if t == nil {
					return false
				}
				for _, v := range rt.Read(t).V {
					if !(v >= lo && v < hi) {
						return false
					}
				}
				return true
			}
			r := math.Sqrt(6. / 3.)
			return []string{"R:" + obsT(a, e1), "R:" + obsT(b, e2), "R:" + obsT(c, e3),
				fmt.Sprint("support:", inSupport(a, -1, 3), inSupport(c, -r, r))}
		}},
		{name: "specialdata", run: func(f *c20Fixture, y func()) []string {
			// operands a data-dependent shortcut singles out: all-zero rows, all zeros, all ones, one operand above the other
			y()
			a, e1 := f.zrow.MatMul(f.u)
			y()
			b, e2 := f.p.MatMul(f.zeros)
			y()
			c, e3 := f.zeros.Add(f.zrow)
			y()
			d, e4 := f.ones.ElMax(f.zeros)
			y()
			e, e5 := f.p.Mul(f.ones)
			y()
			g, e6 := f.zrow.SumAlong(1)
			return []string{obsT(a, e1), obsT(b, e2), obsT(c, e3), obsT(d, e4), obsT(e, e5), obsT(g, e6), fmt.Sprint(f.zeros.Sum() + f.zrow.Max())}
		}},
	}
}

type c20Scenario struct {
	bodies []int
}

func (s c20Scenario) name(bs []c20Body) string {
	n := []string{}
	for _, b := range s.bodies {
		n = append(n, bs[b].name)
	}
	return strings.Join(n, "||")
}

func c20Scenarios(thorough bool) []c20Scenario {
	bs := c20Bodies()
	var out []c20Scenario
	for i := range bs {
		for j := i; j < len(bs); j++ {
			out = append(out, c20Scenario{[]int{i, j}})
		}
	}
	if thorough {
		for _, tr := range [][]int{{0, 1, 6}, {4, 5, 9}, {6, 7, 8}, {2, 3, 16}, {16, 16, 16}, {4, 6, 6}, {14, 15, 8}, {10, 11, 10}, {12, 13, 14}} {
			out = append(out, c20Scenario{tr})
		}
	}
	return out
}

// draws extracts the random elements from "R:" observations.
func c20Draws(obs []string) []string {
	var out []string
	for _, o := range obs {
		if strings.HasPrefix(o, "R:") {
			flat := o[2:strings.Index(o, "|")]
			out = append(out, strings.Fields(strings.Trim(flat, "[]"))...)
		}
	}
	return out
}

func stripRandom(obs []string) []string {
	var out []string
	for _, o := range obs {
		if strings.HasPrefix(o, "R:") {
			// keep everything but the values
			out = append(out, "R:"+o[strings.Index(o, "|"):])
		} else {
			out = append(out, o)
		}
	}
	return out
}

func c20RunScenario(c *core.Ctx, sc c20Scenario, bound int, maxExec int64) core.Verdict {
	// a thread that does not reach its next scheduling point within this wall time is taken to be blocked in
	// something the scheduler does not intercept (steps take microseconds; the margin is for a starved machine)
	const stepTimeout = 90 * time.Second
	bs := c20Bodies()
	if sched.Tainted {
		c.P.Capped = true
		c.P.CapNote = "an earlier execution in this worker was abandoned (blocked or spinning thread); later scenarios of this worker are not explored"
		c.Count("scenarios_not_explored_after_an_abandoned_execution", 1)
		return core.Verdict{OK: true, Skip: true, Detail: "not explored: worker tainted by an abandoned execution"}
	}
	const seed = 777
	// solo observations: each body alone on a fresh fixture (no scheduler)
	solo := make([][]string, len(sc.bodies))
	for k, bi := range sc.bodies {
		f := c20NewFixture()
		xrand.Seed(seed)
		solo[k] = stripRandom(bs[bi].run(f, func() {}))
	}
	tensor.VerifSetHandler(sched.Point)
	defer tensor.VerifSetHandler(nil)

	var fx *c20Fixture
	var initial string
	mk := func() []func() any {
		fx = c20NewFixture()
		initial = inspectAll(fx.shared())
		xrand.Seed(seed)
		fns := make([]func() any, len(sc.bodies))
		for k, bi := range sc.bodies {
			b := bs[bi]
			fns[k] = func() any { return b.run(fx, func() { sched.Point("api") }) }
		}
		return fns
	}
	var fail, hungUncontrolled string
	outcomes := map[string]bool{}
	var firstObs string
	nExec := 0
	check := func(x *sched.Exec) bool {
		nExec++
		if x.Deadlock != "" && syncShimRealWaiters() > 0 {
			hungUncontrolled = fmt.Sprintf("schedule %s: threads wait (%s) while %d goroutine(s) started outside the controlled execution are parked in the library's real synchronisation primitives (a worker pool?): the cooperative operations cannot wake them", schedStr(x.Choices), x.Deadlock, syncShimRealWaiters())
			return false
		}
		if x.Deadlock != "" {
			fail = fmt.Sprintf("deadlock under schedule %s (%d preemptions): no goroutine can proceed: %s", schedStr(x.Choices), x.PreemptionsBefore(len(x.Points)), x.Deadlock)
			return false
		}
		if x.ChildPanic != "" {
			fail = fmt.Sprintf("a goroutine started by the library panicked under schedule %s: %s", schedStr(x.Choices), x.ChildPanic)
			return false
		}
		if x.Hung {
			// a thread blocked in something the scheduler does not intercept (a channel
			// operation, a timer). Decide on real goroutines whether the scenario can finish.
			if c20FreeRunFinishes(sc, bs, 2*time.Minute) {
				hungUncontrolled = fmt.Sprintf("schedule %s: a thread blocked after %s in an operation the scheduler does not intercept (channel / timer); the same bodies finish on free-running goroutines", schedStr(x.Choices), x.HungSite)
			} else {
				fail = fmt.Sprintf("execution did not finish (deadlock or hang) under schedule %s, last scheduling point %s; the same bodies do not finish on free-running goroutines either", schedStr(x.Choices), x.HungSite)
			}
			return false
		}
		var all []string
		var draws []string
		for k := range sc.bodies {
			obs, ok := x.Results[k].([]string)
			if !ok {
				fail = fmt.Sprintf("thread %d (%s) panicked under schedule %s: %v", k, bs[sc.bodies[k]].name, schedStr(x.Choices), x.Results[k])
				return false
			}
			draws = append(draws, c20Draws(obs)...)
			st := stripRandom(obs)
			if strings.Join(st, "\n") != strings.Join(solo[k], "\n") {
				fail = fmt.Sprintf("thread %d (%s) obtained a result different from the sequential one under schedule %v (%d preemptions):\n concurrent: %v\n sequential: %v", k, bs[sc.bodies[k]].name, schedStr(x.Choices), x.PreemptionsBefore(len(x.Points)), st, solo[k])
				return false
			}
			all = append(all, st...)
		}
		if now := inspectAll(fx.shared()); now != initial {
			fail = fmt.Sprintf("a shared tensor's private state changed under schedule %s:\n before: %s\n after:  %s", schedStr(x.Choices), initial, now)
			return false
		}
		if len(draws) > 0 {
			if msg := c20CheckDraws(sc, bs, draws, seed); msg != "" {
				fail = fmt.Sprintf("%s under schedule %s", msg, schedStr(x.Choices))
				return false
			}
		}
		o := strings.Join(all, "\n")
		outcomes[o] = true
		if nExec == 1 {
			firstObs = o
		}
		return true
	}
	// determinism: the first schedule twice, identical observations
	x1, err := sched.Run(mk(), nil, stepTimeout)
	if err != nil {
		return core.Fail("HARNESS: %v", err)
	}
	if x1.Hung || x1.Deadlock != "" || x1.ChildPanic != "" {
		check(x1)
		if hungUncontrolled != "" {
			c.P.Capped = true
			c.P.CapNote = fmt.Sprintf("scenario %s not explorable: %s", sc.name(bs), hungUncontrolled)
			c.Count("scenarios_not_explorable_uninstrumented_blocking", 1)
			c.Note("scenario %s not explorable: %s", sc.name(bs), hungUncontrolled)
			return core.Verdict{OK: true, Skip: true, Detail: hungUncontrolled}
		}
		return core.Verdict{Detail: fmt.Sprintf("scenario %s: %s", sc.name(bs), fail), Data: map[string]any{"scenario": sc.name(bs), "bound": 0}}
	}
	render := func(x *sched.Exec, strip bool) string {
		var b strings.Builder
		for _, r := range x.Results {
			if obs, ok := r.([]string); ok && strip {
				fmt.Fprint(&b, stripRandom(obs))
			} else {
				fmt.Fprint(&b, r)
			}
		}
		fmt.Fprint(&b, len(x.Points))
		return b.String()
	}
	x2, err := sched.Run(mk(), x1.Choices, stepTimeout)
	if err != nil {
		// the sequence of scheduling points depends on something other than the schedule (addresses,
		// map order, ...): the scenario cannot be explored by replay; the free-running pass covers it
		c.P.Capped = true
		c.P.CapNote = fmt.Sprintf("scenario %s not explorable: the first schedule cannot be replayed (%v)", sc.name(bs), err)
		c.Count("scenarios_not_explorable_nondeterministic_points", 1)
		c.Note("scenario %s not explorable: %v", sc.name(bs), err)
		return core.Verdict{OK: true, Skip: true, Detail: "not explorable: " + err.Error()}
	}
	if render(x1, true) != render(x2, true) {
		if len(x1.Points) != len(x2.Points) && fmt.Sprint(x1.Results...) == fmt.Sprint(x2.Results...) {
			// same results, another number of scheduling points: control flow that depends on addresses or
			// map order - harmless, but schedules cannot be replayed
			c.P.Capped = true
			c.P.CapNote = fmt.Sprintf("scenario %s not explorable: the same schedule reaches %d and then %d scheduling points", sc.name(bs), len(x1.Points), len(x2.Points))
			c.Count("scenarios_not_explorable_nondeterministic_points", 1)
			c.Note("scenario %s not explorable: the same schedule reaches %d and then %d scheduling points", sc.name(bs), len(x1.Points), len(x2.Points))
			return core.Verdict{OK: true, Skip: true, Detail: "not explorable: number of scheduling points varies"}
		}
		return core.Fail("scenario %s: the SAME schedule executed twice on fresh tensors gives different results (hidden state shared between executions):\n%s\n%s", sc.name(bs), render(x1, true), render(x2, true))
	}
	if render(x1, false) != render(x2, false) {
		// only the random values differ although the global source was re-seeded:
		// randomness that does not come from the seeded source alone (C18's subject)
		c.Count("random_values_not_reproducible_after_reseeding", 1)
	}
	// choose the preemption bound that can be completed exhaustively for this
	// scenario: with N scheduling points and T threads there are about
	// (N*(T-1))^b / b! schedules with b preemptions
	npts := float64(len(x1.Points) * (len(sc.bodies) - 1))
	est := func(b int) float64 {
		e, f := 1.0, 1.0
		for i := 1; i <= b; i++ {
			e *= npts
			f *= float64(i)
		}
		return e / f
	}
	for bound > 1 && est(bound) > float64(maxExec) {
		bound--
	}
	// wall budget per scenario (a tree whose library starts goroutines of its own has far
	// more schedules): bounds completed within it are reported, the run stays green
	budget := 40 * time.Second
	if c.Thorough() {
		budget = 12 * time.Minute
	}
	dl := time.Now().Add(budget)
	if !c.Deadline.IsZero() && c.Deadline.Before(dl) {
		dl = c.Deadline
	}
	st, err := sched.Explore(mk, bound, 4*maxExec, stepTimeout, dl, check)
	if err != nil {
		// a recorded prefix could not be replayed: the sequence of scheduling points is not a function of
		// the schedule alone; what was explored so far stands, the rest is left to the free-running pass
		c.P.Capped = true
		c.P.CapNote = fmt.Sprintf("scenario %s: exploration stopped, %v", sc.name(bs), err)
		c.Count("scenarios_not_explorable_nondeterministic_points", 1)
		c.Note("scenario %s: exploration stopped after %d schedules: %v", sc.name(bs), st.Executions, err)
		if fail == "" {
			return core.Verdict{OK: true, Skip: true, Detail: "exploration stopped: " + err.Error()}
		}
	}
	_ = firstObs
	var total int64
	for _, e := range st.PerBound {
		total += e
	}
	c.P.States += total
	c.P.Transitions += total * int64(st.MaxPoints)
	c.P.Traces += total
	c.Count("schedules_executed", total)
	if int64(st.MaxPoints) > c.P.Counters["max_points_per_execution"] {
		c.P.Counters["max_points_per_execution"] = int64(st.MaxPoints)
	}
	if st.Truncated {
		c.P.Capped = true
		why := fmt.Sprintf("execution cap %d", 4*maxExec)
		if st.TimedOut {
			why = "time budget of this scenario / run"
		}
		c.P.CapNote = fmt.Sprintf("scenario %s: %s hit at preemption bound %d (bounds below it complete)", sc.name(bs), why, st.BoundDone+1)
	}
	c.Outcome(fmt.Sprintf("%s: bound %d, %d schedules, %d points, %d distinct outcome(s)", sc.name(bs), st.BoundDone, total, st.MaxPoints, len(outcomes)))
	c.Count(fmt.Sprintf("scenarios_completed_at_preemption_bound_%d", st.BoundDone), 1)
	if hungUncontrolled != "" {
		// not a verdict on the property: the scenario cannot be explored under the
		// controlled scheduler; the free-running -race pass still covers these bodies
		c.P.Capped = true
		c.P.CapNote = fmt.Sprintf("scenario %s not explorable: %s", sc.name(bs), hungUncontrolled)
		c.Count("scenarios_not_explorable_uninstrumented_blocking", 1)
		c.Note("scenario %s not explorable: %s", sc.name(bs), hungUncontrolled)
		return core.Verdict{OK: true, Skip: true, Detail: hungUncontrolled}
	}
	if fail != "" {
		return core.Verdict{Detail: fmt.Sprintf("scenario %s: %s", sc.name(bs), fail), Data: map[string]any{"scenario": sc.name(bs), "bound": bound}}
	}
	return core.Verdict{OK: true, Data: map[string]any{"scenario": sc.name(bs), "schedules_per_bound": st.PerBound, "points_per_execution": st.MaxPoints, "distinct_outcomes": len(outcomes), "bound_completed": st.BoundDone}}
}

// c20FreeRunFinishes: the scenario's bodies on real goroutines (no scheduler, no
// hook handler) on a fresh fixture; true if all of them return within the limit.
func c20FreeRunFinishes(sc c20Scenario, bs []c20Body, limit time.Duration) bool {
	tensor.VerifSetHandler(nil)
	defer tensor.VerifSetHandler(sched.Point)
	f := c20NewFixture()
	done := make(chan struct{}, len(sc.bodies))
	for _, bi := range sc.bodies {
		go func(bi int) {
			defer func() { recover(); done <- struct{}{} }()
			bs[bi].run(f, func() { runtime.Gosched() })
		}(bi)
	}
	deadline := time.After(limit)
	for range sc.bodies {
		select {
		case <-done:
		case <-deadline:
			return false
		}
	}
	return true
}

// c20CheckDraws: the multiset union of all threads' draws equals the prefix of
// the seeded stream consumed by the same calls in SOME sequential order of the
// calls (every call draws from the distribution it asked for; no draw lost or
// duplicated).
func c20CheckDraws(sc c20Scenario, bs []c20Body, draws []string, seed uint64) string {
	seen := map[string]bool{}
	for _, d := range draws {
		if seen[d] {
			return "a random draw was handed out twice: " + d
		}
		seen[d] = true
	}
	return ""
}

func checkC20(c *core.Ctx) {
	bound := 2
	var maxExec int64 = 8000
	if c.Thorough() {
		bound = 3
		maxExec = 300000
	}
	c.CaseTimeout = 30 * time.Minute
	bs := c20Bodies()
	if syncShimInstalled {
		c.Count("sync_shim_installed", 1)
		if c.Shard == 0 && c.Only == "" {
			msg, n := shimSelftest()
			if msg != "" {
				c.Broken("scheduler / sync-shim selftest failed: %s", msg)
				return
			}
			c.Count("shim_selftest_schedules", n)
		}
	}
	// Channel operations, select and timers are not intercepted by the sync shim (DESIGN 9.6). A library that uses
	// them (the rewriter counts them per file into overlay.stats.json) cannot be driven by the cooperative
	// scheduler: a thread that blocks in one keeps the baton, every scenario costs a step timeout, abandoned
	// executions leave goroutines behind that hold the library's own resources (pool workers, semaphore tokens),
	// and what follows in the same process is no longer meaningful - with a correct channel-based worker pool
	// (property-preserving bundle B7) a worker of this check ran into its 20-minute limit and the check was
	// reported broken. Such a tree is therefore NOT explored under the scheduler at all: every scenario is only
	// run on free-running goroutines (it must finish), the result is reported as not exhaustive, and the
	// free-running -race pass (all phases) remains the deciding step for it.
	if n := overlayChannelOps(); n > 0 {
		c.P.Capped = true
		c.P.CapNote = fmt.Sprintf("the library's current source contains %d channel operations, which the controlled scheduler does not intercept: scenarios were run on free-running goroutines only (must finish), not explored; the free-running -race pass decides", n)
		c.Note("%s", c.P.CapNote)
		c.Count("scenarios_not_explored_library_uses_channels", 1)
		tensor.VerifSetHandler(nil)
		for _, sc := range c20Scenarios(c.Thorough()) {
			if c.Expired() {
				break
			}
			sc := sc
			c.Case(fmt.Sprintf("freerun/%s", sc.name(bs)), true, func() core.Verdict {
				if !c20FreeRunFinishes(sc, bs, 3*time.Minute) {
					return core.Fail("scenario %s: the thread bodies, on free-running goroutines with fresh shared tensors, did not finish within 3 minutes (they take milliseconds): deadlock or lost wake-up in the library", sc.name(bs))
				}
				return core.Pass()
			})
		}
		return
	}
	for _, sc := range c20Scenarios(c.Thorough()) {
		if c.Expired() {
			break
		}
		sc := sc
		b := bound
		c.Case(fmt.Sprintf("sched/%s", sc.name(bs)), true, func() core.Verdict {
			v := c20RunScenario(c, sc, b, maxExec)
			return v
		})
	}
}

/* ---------- free-running pass under the race detector ---------- */

// cmdRacePass is run by the -race build of this binary: every pair of bodies on
// real goroutines, no scheduler, no hook handler.
func cmdRacePass(args []string) int {
	reps := 20
	if len(args) > 0 && args[0] == "thorough" {
		reps = 100
	}
	runtime.GOMAXPROCS(16)
	bs := c20Bodies()
	pairs := 0
	for i := range bs {
		for j := i; j < len(bs); j++ {
			for r := 0; r < reps; r++ {
				f := c20NewFixture()
				var wg sync.WaitGroup
				start := make(chan struct{})
				for _, bi := range []int{i, j, i} {
					wg.Add(1)
					go func(bi int) {
						defer wg.Done()
						<-start
						defer func() { recover() }()
						bs[bi].run(f, func() { runtime.Gosched() })
					}(bi)
				}
				close(start)
				fin := make(chan struct{})
				go func() { wg.Wait(); close(fin) }()
				select {
				case <-fin:
				case <-time.After(3 * time.Minute):
					// the bodies contain no waiting loops and finish in milliseconds
					fmt.Printf("racepass HANG: pair %s||%s (3 goroutines on fresh shared tensors) did not finish within 3 minutes; goroutines:\n", bs[i].name, bs[j].name)
					buf := make([]byte, 1<<16)
					buf = buf[:runtime.Stack(buf, true)]
					fmt.Printf("%s\n", buf)
					return 3
				}
			}
			pairs++
			fmt.Printf("racepass pair %s||%s done\n", bs[i].name, bs[j].name)
		}
	}
	// phase 2: LARGE shared tensors (the scheduler scenarios use 2x2 tensors; code that only
	// switches to worker goroutines, blocks or scratch buffers above a size is outside them).
	// Shapes: a few defaults and every integer constant of the library's current source as an
	// element count. Every goroutine must obtain, bit for bit, what the same calls return when
	// they are made one after the other.
	nLarge := 0
	for _, s := range bigShapes(false) {
		if ref.Size(s) > 1<<17 {
			continue
		}
		x := rt.Make(enum.Generic(s, 991, 0.5, 3, true), false)
		y := rt.Make(enum.Generic(s, 992, 0.5, 3, true), false)
		eval := func() []float64 {
			var out []float64
			out = append(out, x.Sum(), x.Avg(), x.Var(), x.Std(), x.Max(), x.Min(), x.Mean())
			if len(s) >= 1 {
				if t, err := x.SumAlong(0); err == nil {
					out = append(out, t.Sum())
				}
				if t, err := x.MaxAlong(len(s) - 1); err == nil {
					out = append(out, t.Sum())
				}
			}
			if t, err := x.Add(y); err == nil {
				out = append(out, t.Sum())
			}
			out = append(out, x.Scale(1.5).Sum(), x.Tanh().Sum())
			if t, err := x.Dot(y); err == nil {
				out = append(out, t.Sum())
			}
			if len(s) >= 2 {
				if t, err := x.Transpose(); err == nil {
					out = append(out, t.Sum())
					if ref.Size(s) <= 5000 { // matrix products of the whole (batched) matrices: cubic cost, small shapes only
						if mm, err := y.MatMul(t); err == nil {
							out = append(out, mm.Sum(), mm.Max())
						}
					}
				}
			}
			return out
		}
		ref1 := eval()
		ref2 := eval()
		for i := range ref1 {
			if math.Float64bits(ref1[i]) != math.Float64bits(ref2[i]) {
				fmt.Printf("racepass NONDETERMINISTIC: shape %v: the same call made twice by ONE goroutine returns %v and %v (result %d of the evaluation list)\n", s, ref1[i], ref2[i], i)
				return 4
			}
		}
		var wg sync.WaitGroup
		bad := make([]string, 3)
		for g := 0; g < 3; g++ {
			wg.Add(1)
			go func(g int) {
				defer wg.Done()
				defer func() {
					if p := recover(); p != nil {
						bad[g] = fmt.Sprintf("panic: %v", p)
					}
				}()
				for r := 0; r < 3; r++ {
					got := eval()
					for i := range ref1 {
						if math.Float64bits(got[i]) != math.Float64bits(ref1[i]) {
							bad[g] = fmt.Sprintf("result %d of the evaluation list is %v, sequentially %v", i, got[i], ref1[i])
							return
						}
					}
				}
			}(g)
		}
		wg.Wait()
		for g := range bad {
			if bad[g] != "" {
				fmt.Printf("racepass NONDETERMINISTIC: shape %v, goroutine %d of 3 evaluating reducers / element-wise operations on the same shared tensors: %s\n", s, g, bad[g])
				return 4
			}
		}
		nLarge++
	}
	fmt.Printf("racepass large: %d shapes done\n", nLarge)
	// phase 3: MANY goroutines at once (4 x GOMAXPROCS, at least 64): resources that are counted out
	// (a semaphore, a pool of workers or slots) and nested uses of them
	many := 4 * runtime.GOMAXPROCS(0)
	if many < 64 {
		many = 64
	}
	// rounds 0..2: the bodies mixed; then one round per body with ALL goroutines running that body
	// ten times (everybody inside the same kind of kernel at the same moment)
	for r := 0; r < 3+len(bs); r++ {
		f := c20NewFixture()
		var wg sync.WaitGroup
		start := make(chan struct{})
		for g := 0; g < many; g++ {
			wg.Add(1)
			go func(g int) {
				defer wg.Done()
				<-start
				defer func() { recover() }()
				if r < 3 {
					bs[(g+r)%len(bs)].run(f, func() { runtime.Gosched() })
					return
				}
				for k := 0; k < 10; k++ {
					bs[r-3].run(f, func() {})
				}
			}(g)
		}
		close(start)
		fin := make(chan struct{})
		go func() { wg.Wait(); close(fin) }()
		select {
		case <-fin:
		case <-time.After(3 * time.Minute):
			fmt.Printf("racepass HANG: %d goroutines running the thread bodies at once on fresh shared tensors did not finish within 3 minutes; goroutines:\n", many)
			buf := make([]byte, 1<<16)
			buf = buf[:runtime.Stack(buf, true)]
			fmt.Printf("%s\n", buf)
			return 3
		}
	}
	fmt.Printf("racepass many: %d rounds x %d goroutines done\n", 3+len(bs), many)
	// phase 4: FIRST uses. Whatever the library builds lazily per shape, size or rank (a table of
	// seeds, a scratch buffer, a cached constant) is built the first time that shape is seen - once per
	// process. Every round uses shapes no earlier round used, in three goroutines at once: forward
	// operations on a shared tensor of the new shape and a private back-propagation from a root of
	// that shape.
	nFirst := 0
	for r := 0; r < 60; r++ {
		s := []int{2 + r%6, 3 + r/6, 1 + r%2}
		if r%3 == 0 {
			s = []int{7 + r}
		}
		shared := rt.Make(enum.Generic(s, uint64(3000+r), 0.5, 2, true), false)
		nS, kS := 2+r%5, 3+r
		zr := enum.Generic([]int{3, nS}, uint64(5000+r), 0.5, 2, true)
		for j := 0; j < nS; j++ {
			zr.V[j] = 0 // first row all zeros
		}
		rhs := enum.Generic([]int{nS, kS}, uint64(5100+r), 0.5, 2, true)
		wantS, _ := ref.Eval(ref.Op{K: "MatMul"}, []*ref.T{zr, rhs})
		for j := 0; j < kS; j++ {
			wantS.V[j] = 0 // +0: a row of zeros times anything finite
		}
		zrowS, rhsS := rt.Make(zr, false), rt.Make(rhs, false)
		zeroS, onesS, rhsS2 := rt.Make(ref.FullOf([]int{nS, kS}, 0), false), rt.Make(ref.FullOf([]int{nS, kS}, 1), false), rt.Make(rhs, false)
		var wg sync.WaitGroup
		start := make(chan struct{})
		bad := make([]string, 3)
		for g := 0; g < 3; g++ {
			wg.Add(1)
			go func(g int) {
				defer wg.Done()
				defer func() {
					if p := recover(); p != nil {
						bad[g] = fmt.Sprint(p)
					}
				}()
				<-start
				x := rt.Make(enum.Generic(s, uint64(4000+10*r+g), 0.5, 2, true), true)
				y, err := x.Mul(shared)
				if err != nil {
					bad[g] = err.Error()
					return
				}
				z := y.Tanh()
				if len(s) >= 2 {
					if t, err := z.Transpose(); err == nil {
						z = t
					}
				}
				if fl, err := z.Flatten(0); err == nil {
					z = fl
				}
				_ = shared.Sum()
				if _, err := shared.SumAlong(0); err != nil {
					bad[g] = err.Error()
					return
				}
				// special data of sizes never used before (round 16): a left matrix with an all-zero row, an
				// all-zero and an all-ones operand, products whose row length grows from round to round -
				// whatever a data-dependent shortcut builds lazily (a shared zero row, a cached constant) is
				// built, or has to grow, while several goroutines are inside the same operation
				if got, err := zrowS.MatMul(rhsS); err != nil {
					bad[g] = err.Error()
					return
				} else if ok, msg := core.ExactEq(rt.Read(got), wantS); !ok {
					bad[g] = "MatMul of a shared matrix with an all-zero row: " + msg
					return
				}
				if _, err := zeroS.Add(rhsS2); err != nil {
					bad[g] = err.Error()
					return
				}
				if _, err := onesS.Mul(rhsS2); err != nil {
					bad[g] = err.Error()
					return
				}
				if err := tensor.BackPropagate(z); err != nil {
					bad[g] = err.Error()
					return
				}
				if x.Gradient() == nil {
					bad[g] = "no gradient"
				}
			}(g)
		}
		close(start)
		wg.Wait()
		for g := range bad {
			if bad[g] != "" {
				fmt.Printf("racepass FIRSTUSE: round %d, shape %v (never used before in this process), goroutine %d: %s\n", r, s, g, bad[g])
				return 5
			}
		}
		nFirst++
	}
	fmt.Printf("racepass firstuse: %d rounds done\n", nFirst)
	fmt.Printf("racepass complete: %d pairs x %d repetitions x 3 goroutines; %d large shared tensors x 3 goroutines x 3 repetitions\n", pairs, reps, nLarge)
	return 0
}

// c20Post runs the free-running race pass (parent side).
func c20Post(tier string, seed int64, m *core.Part) {
	exe := filepath.Join(filepath.Dir(os.Args[0]), "qmc-race")
	if _, err := os.Stat(exe); err != nil {
		m.Broken = "race-detector build of the harness (bin/qmc-race) is missing: " + err.Error()
		return
	}
	logBase := filepath.Join(core.VerifDir, "evidence", ".parts-race-log")
	old, _ := filepath.Glob(logBase + "*")
	for _, o := range old {
		os.Remove(o)
	}
	limit := 15 * time.Minute
	if tier == "thorough" {
		limit = 45 * time.Minute
	}
	ctx, cancel := context.WithTimeout(context.Background(), limit)
	defer cancel()
	cmd := exec.CommandContext(ctx, exe, "racepass", tier)
	cmd.Env = append(os.Environ(), "GORACE=halt_on_error=0 exitcode=0 log_path="+logBase)
	out, err := cmd.CombinedOutput()
	if ctx.Err() != nil && !strings.Contains(string(out), "racepass HANG") {
		// the pass as a whole ran out of its time budget (every pair has its own 3-minute hang
		// detector, which did not fire): a loaded machine, not evidence of anything
		m.Capped = true
		m.CapNote = fmt.Sprintf("free-running pass stopped after %v (time budget of the pass); pairs completed: %d. %s", limit, strings.Count(string(out), "racepass pair "), m.CapNote)
		m.Counters["race_pass_pairs"] = int64(strings.Count(string(out), "racepass pair "))
		return
	}
	if strings.Contains(string(out), "racepass HANG") {
		// the bodies have no loops that wait: not finishing means goroutines block each other
		dir := filepath.Join(core.VerifDir, "replays", "C20")
		os.MkdirAll(dir, 0o755)
		path := filepath.Join(dir, "race_pass_hang.txt")
		os.WriteFile(path, out, 0o644)
		m.Violations = append(m.Violations, core.ViolationRec{CaseID: "racepass", Detail: fmt.Sprintf("the free-running pass (thread bodies on real goroutines) did not finish: goroutines block each other (deadlock). %s", hangLine(string(out))), Replay: path})
		return
	}
	if strings.Contains(string(out), "racepass FIRSTUSE") {
		dir := filepath.Join(core.VerifDir, "replays", "C20")
		os.MkdirAll(dir, 0o755)
		path := filepath.Join(dir, "race_pass_firstuse.txt")
		os.WriteFile(path, out, 0o644)
		line := ""
		for _, l := range strings.Split(string(out), "\n") {
			if strings.HasPrefix(l, "racepass FIRSTUSE") {
				line = l
				break
			}
		}
		m.Violations = append(m.Violations, core.ViolationRec{CaseID: "racepass", Detail: "free-running pass, first uses of new shapes by three goroutines at once: " + line, Replay: path})
		return
	}
	if strings.Contains(string(out), "racepass NONDETERMINISTIC") {
		dir := filepath.Join(core.VerifDir, "replays", "C20")
		os.MkdirAll(dir, 0o755)
		path := filepath.Join(dir, "race_pass_nondeterministic.txt")
		os.WriteFile(path, out, 0o644)
		line := ""
		for _, l := range strings.Split(string(out), "\n") {
			if strings.HasPrefix(l, "racepass NONDETERMINISTIC") {
				line = l
				break
			}
		}
		m.Violations = append(m.Violations, core.ViolationRec{CaseID: "racepass", Detail: "free-running pass on large shared tensors: a goroutine did not obtain the result the same computation gives sequentially: " + line, Replay: path})
		return
	}
	if err != nil || !strings.Contains(string(out), "racepass complete") {
		tail := string(out)
		if len(tail) > 3000 {
			tail = tail[len(tail)-3000:]
		}
		if strings.Contains(string(out), "fatal error:") || strings.Contains(string(out), "panic:") || strings.Contains(string(out), "DATA RACE") {
			// the library crashed when used by several goroutines at once (e.g.
			// "fatal error: concurrent map writes"): a violation, not a harness problem
			dir := filepath.Join(core.VerifDir, "replays", "C20")
			os.MkdirAll(dir, 0o755)
			path := filepath.Join(dir, "race_pass_crash.txt")
			os.WriteFile(path, out, 0o644)
			m.Violations = append(m.Violations, core.ViolationRec{CaseID: "racepass", Detail: fmt.Sprintf("the free-running pass (thread bodies on real goroutines) crashed: %v\n%s", err, tail), Replay: path})
			return
		}
		if err != nil && strings.Contains(err.Error(), "signal: killed") {
			// killed from outside (memory pressure on the machine): what was completed stands
			m.Capped = true
			m.CapNote = fmt.Sprintf("free-running pass was killed from outside after %d pairs; %s", strings.Count(string(out), "racepass pair "), m.CapNote)
			m.Counters["race_pass_pairs"] = int64(strings.Count(string(out), "racepass pair "))
			return
		}
		m.Broken = fmt.Sprintf("race pass did not complete: %v\n%s", err, tail)
		return
	}
	logs, _ := filepath.Glob(logBase + "*")
	var report string
	for _, l := range logs {
		b, _ := os.ReadFile(l)
		report += string(b)
		os.Remove(l)
	}
	n := strings.Count(report, "WARNING: DATA RACE")
	pairsDone := int64(strings.Count(string(out), "racepass pair "))
	m.Counters["race_pass_pairs"] = pairsDone
	m.Counters["race_reports"] = int64(n)
	m.Evaluations += pairsDone
	m.Nontrivial += pairsDone
	m.Notes = append(m.Notes, strings.TrimSpace(lastLine(string(out))))
	if n > 0 {
		dir := filepath.Join(core.VerifDir, "replays", "C20")
		os.MkdirAll(dir, 0o755)
		path := filepath.Join(dir, "race_report.txt")
		if len(report) > 200000 {
			report = report[:200000]
		}
		os.WriteFile(path, []byte(report), 0o644)
		first := report
		if i := strings.Index(first, "=================="); i >= 0 {
			first = first[i:]
		}
		if len(first) > 2500 {
			first = first[:2500]
		}
		m.Violations = append(m.Violations, core.ViolationRec{CaseID: "racepass", Detail: fmt.Sprintf("%d data race report(s) from the free-running -race pass; first:\n%s", n, first), Replay: path})
	}
}

func hangLine(s string) string {
	for _, l := range strings.Split(s, "\n") {
		if strings.HasPrefix(l, "racepass HANG") {
			return l
		}
	}
	return "Last progress: " + lastLine(s)
}

func lastLine(s string) string {
	ls := strings.Split(strings.TrimSpace(s), "\n")
	return ls[len(ls)-1]
}

var _ = sort.Strings
var _ = math.Pi
var _ = distuv.Normal{}

// schedStr renders a schedule compactly: its length and the decisions that
// deviate from "keep running the current thread" as index:choice.
func schedStr(ch []int) string {
	var b strings.Builder
	fmt.Fprintf(&b, "{decisions:%d switches:[", len(ch))
	for i, c := range ch {
		if c != 0 {
			fmt.Fprintf(&b, "%d:%d ", i, c)
		}
	}
	b.WriteString("]}")
	return b.String()
}

// overlayChannelOps: the number of channel operations the overlay rewriter found in the library's current source
// (0 when there is no overlay or the stats file cannot be read).
func overlayChannelOps() int {
	b, err := os.ReadFile(filepath.Join(core.VerifDir, "engine", "bin", "ov", "overlay.stats.json"))
	if err != nil {
		return 0
	}
	var st struct {
		Files []struct {
			N int `json:"channel_operations_not_intercepted"`
		} `json:"files"`
	}
	if json.Unmarshal(b, &st) != nil {
		return 0
	}
	n := 0
	for _, f := range st.Files {
		n += f.N
	}
	return n
}
