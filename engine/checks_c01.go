package main

import (
	"fmt"
	"strings"

	"github.com/sahandsafizadeh/qeep/tensor"
	"qmc/core"
	"qmc/enum"
	"qmc/ref"
	"qmc/rt"
)

/* ---------- program enumeration ---------- */

type progAlphabet struct {
	scales []float64
	unary  []string
	sym    []string // symmetric binary ops: operands i<=j
	asym   []string // ordered binary ops
	macro  bool     // Concat([i,j],0).Slice([{1,3}])
}

var fullAlphabet = progAlphabet{scales: []float64{2, 0}, unary: []string{"Sin", "Exp", "Pow2"}, sym: []string{"Add", "Mul"}, asym: []string{"Sub"}, macro: true}
var smallAlphabet = progAlphabet{scales: []float64{2}, sym: []string{"Add", "Mul"}}

// enumPrograms calls f for every straight-line program with 1..maxOps
// operations over the leaves (all of shape [2]); an operation picks its
// operands among ALL earlier shape-[2] tensors (same tensor twice allowed), so
// every fan-out / reconvergence pattern up to the bound is generated. The
// program passed to f is reused: copy it if it must be kept.
func enumPrograms(leaves []*ref.T, tracked []bool, a progAlphabet, maxOps int, f func(p *ref.Program, code string, nOps int)) {
	p := &ref.Program{Leaves: leaves, Tracked: tracked}
	sel := []int{}
	for i := range leaves {
		sel = append(sel, i)
	}
	var codes []string
	var rec func(nOps int)
	push := func(code string, nodes []ref.Node, newSel int, nOps int) {
		p.Nodes = append(p.Nodes, nodes...)
		sel = append(sel, newSel)
		codes = append(codes, code)
		f(p, strings.Join(codes, ";"), nOps+1)
		if nOps+1 < maxOps {
			rec(nOps + 1)
		}
		codes = codes[:len(codes)-1]
		sel = sel[:len(sel)-1]
		p.Nodes = p.Nodes[:len(p.Nodes)-len(nodes)]
	}
	rec = func(nOps int) {
		next := p.NTensors()
		cur := append([]int{}, sel...)
		for _, i := range cur {
			for _, s := range a.scales {
				push(fmt.Sprintf("Sc%g(%d)", s, i), []ref.Node{{Op: ref.Op{K: "Scale", F: s}, In: []int{i}}}, next, nOps)
			}
			for _, k := range a.unary {
				op := ref.Op{K: k}
				if k == "Pow2" {
					op = ref.Op{K: "Pow", F: 2}
				}
				push(fmt.Sprintf("%s(%d)", k, i), []ref.Node{{Op: op, In: []int{i}}}, next, nOps)
			}
		}
		for x, i := range cur {
			for _, j := range cur[x:] {
				for _, k := range a.sym {
					push(fmt.Sprintf("%s(%d,%d)", k, i, j), []ref.Node{{Op: ref.Op{K: k}, In: []int{i, j}}}, next, nOps)
				}
			}
		}
		for _, i := range cur {
			for _, j := range cur {
				for _, k := range a.asym {
					push(fmt.Sprintf("%s(%d,%d)", k, i, j), []ref.Node{{Op: ref.Op{K: k}, In: []int{i, j}}}, next, nOps)
				}
				if a.macro {
					push(fmt.Sprintf("CatSl(%d,%d)", i, j), []ref.Node{
						{Op: ref.Op{K: "Concat", Dim: 0}, In: []int{i, j}},
						{Op: ref.Op{K: "Slice", Index: []ref.Range{{From: 1, To: 3}}}, In: []int{next}},
					}, next+1, nOps)
				}
			}
		}
	}
	rec(0)
}

func copyProgram(p *ref.Program) *ref.Program {
	q := &ref.Program{}
	for _, l := range p.Leaves {
		q.Leaves = append(q.Leaves, l.Clone())
	}
	q.Tracked = append([]bool{}, p.Tracked...)
	for _, n := range p.Nodes {
		q.Nodes = append(q.Nodes, ref.Node{Op: n.Op, In: append([]int{}, n.In...)})
	}
	return q
}

// hasSharedInterior: the sub-DAG reachable from root contains a non-leaf
// tensor with >= 2 consuming operand slots, or an operation using the same
// operand twice.
func hasSharedInterior(p *ref.Program, root int) bool {
	L := len(p.Leaves)
	reach := make([]bool, p.NTensors())
	reach[root] = true
	cons := make([]int, p.NTensors())
	for id := root; id >= L; id-- {
		if !reach[id] {
			continue
		}
		n := p.Nodes[id-L]
		for _, j := range n.In {
			reach[j] = true
			cons[j]++
		}
		if len(n.In) == 2 && n.In[0] == n.In[1] {
			return true
		}
	}
	for id := L; id < p.NTensors(); id++ {
		if reach[id] && cons[id] >= 2 {
			return true
		}
	}
	return false
}

/* ---------- rule-application counting through the verif hook ---------- */

type ruleCounter struct {
	n      int64
	budget int64
}

func (rc *ruleCounter) install() {
	tensor.VerifSetHandler(func(site string) {
		if site == "backward" {
			rc.n++
			if rc.budget > 0 && rc.n > rc.budget {
				panic(fmt.Sprintf("rule-application budget exceeded: more than %d backward rule applications", rc.budget))
			}
		}
	})
}
func (rc *ruleCounter) remove() { tensor.VerifSetHandler(nil) }

// realEdges counts, through the hook, the back edges with a tracked target
// reachable from t in the REAL graph (each edge once), plus the start edge.
func realEdges(t tensor.Tensor) int64 {
	tracked, _, _, _, ok := tensor.VerifGradState(t)
	if !ok || !tracked {
		return 0
	}
	seen := map[any]bool{}
	var e int64 = 1
	var walk func(x tensor.Tensor)
	walk = func(x tensor.Tensor) {
		key := x.GradContext()
		if seen[key] {
			return
		}
		seen[key] = true
		_, _, _, targets, _ := tensor.VerifGradState(x)
		for _, tg := range targets {
			tr, _, _, _, _ := tensor.VerifGradState(tg)
			if tr {
				e++
				walk(tg)
			}
		}
	}
	walk(t)
	return e
}

// backPropCounted back-propagates from t with the rule counter installed and a
// budget of (E+1)^2 applications (E = reachable real edges): a correct walk
// needs E, the naive recursive walk 2^depth.
func backPropCounted(t tensor.Tensor) (applied, edges int64, err error, over string) {
	edges = realEdges(t)
	rc := &ruleCounter{budget: (edges + 1) * (edges + 1)}
	rc.install()
	defer rc.remove()
	p := rt.Catch(func() { err = tensor.BackPropagate(t) })
	if p != nil {
		return rc.n, edges, nil, fmt.Sprint(p)
	}
	return rc.n, edges, err, ""
}

/* ---------- the check ---------- */

func c01Leaves() []*ref.T {
	return []*ref.T{enum.Generic([]int{2}, 301, 0.4, 1.3, true), enum.Generic([]int{2}, 302, 0.4, 1.3, true)}
}

var c01Masks = [][]bool{{true, true}, {true, false}, {false, true}}

func inRange(vals []*ref.T, lim float64) bool {
	for _, v := range vals {
		for _, x := range v.V {
			if !(x > -lim && x < lim) {
				return false
			}
		}
	}
	return true
}

func c01Single(c *core.Ctx, p *ref.Program, root int) core.Verdict {
	vals, ok := p.Forward()
	if !ok {
		return core.Fail("HARNESS: invalid program")
	}
	if !inRange(vals, 1e6) || !p.DifferentiableAll(vals) {
		return core.Skip()
	}
	grads, _ := p.Backward(vals, root, nil, false)
	ts, failed, err := rt.RunProgram(p)
	if err != nil {
		return core.Verdict{Detail: fmt.Sprintf("forward node %d failed: %v", failed, err), Data: p}
	}
	applied, edges, err, over := backPropCounted(ts[root])
	if over != "" {
		return core.Verdict{Detail: fmt.Sprintf("%s :: root t%d: %s (reachable real edges %d)", describeProgram(p), root, over, edges), Data: p}
	}
	if err != nil {
		return core.Verdict{Detail: fmt.Sprintf("%s :: BackPropagate(t%d): %v", describeProgram(p), root, err), Data: p}
	}
	if m := compareGrads(p, ts, vals, grads); m != "" {
		return core.Verdict{Detail: fmt.Sprintf("%s :: root t%d: %s", describeProgram(p), root, m), Data: map[string]any{"program": p, "root": root}}
	}
	if applied > c.P.Counters["max_rule_applications"] {
		c.P.Counters["max_rule_applications"] = applied
	}
	if applied > edges {
		c.P.Counters["cases_with_more_applications_than_edges"]++
	}
	return core.Pass()
}

// c01Sequence: several graphs over the same leaves, all built first, then
// back-propagated one after the other; leaf gradients must add up.
func c01Sequence(parts []*ref.Program, mask []bool) core.Verdict {
	leaves := c01Leaves()
	comb := &ref.Program{Leaves: leaves, Tracked: mask}
	var roots []int
	L := len(leaves)
	for _, q := range parts {
		off := len(comb.Nodes)
		for _, n := range q.Nodes {
			in := make([]int, len(n.In))
			for k, id := range n.In {
				if id >= L {
					in[k] = id + off
				} else {
					in[k] = id
				}
			}
			comb.Nodes = append(comb.Nodes, ref.Node{Op: n.Op, In: in})
		}
		roots = append(roots, comb.NTensors()-1)
	}
	vals, ok := comb.Forward()
	if !ok {
		return core.Fail("HARNESS: invalid combined program")
	}
	if !inRange(vals, 1e6) {
		return core.Skip()
	}
	total := make([]*ref.T, comb.NTensors())
	for _, r := range roots {
		g, _ := comb.Backward(vals, r, nil, false)
		for i := range g {
			if g[i] == nil {
				continue
			}
			if total[i] == nil {
				total[i] = g[i].Clone()
			} else {
				for k := range total[i].V {
					total[i].V[k] += g[i].V[k]
				}
			}
		}
	}
	ts, failed, err := rt.RunProgram(comb)
	if err != nil {
		return core.Verdict{Detail: fmt.Sprintf("forward node %d failed: %v", failed, err), Data: comb}
	}
	for _, r := range roots {
		_, _, err, over := backPropCounted(ts[r])
		if over != "" || err != nil {
			return core.Verdict{Detail: fmt.Sprintf("%s :: BackPropagate(t%d): %v %s", describeProgram(comb), r, err, over), Data: comb}
		}
	}
	if m := compareGrads(comb, ts, vals, total); m != "" {
		return core.Verdict{Detail: fmt.Sprintf("%s :: roots %v back-propagated in sequence: %s", describeProgram(comb), roots, m), Data: map[string]any{"program": comb, "roots": roots}}
	}
	return core.Pass()
}

func checkC01(c *core.Ctx) {
	defer sweepC01(c)
	defer selfCases(c, true, "elementwise", "linalg", "move")
	defer soakC01(c)
	if c.Shard == 0 && c.Only == "" {
		if f := refSelftest(); f > 0 {
			c.Broken("reference model selftest failed (%d)", f)
			return
		}
	}
	maxOps := 3
	if c.Thorough() {
		maxOps = 4
	}
	// (1) every program, every mask, every non-leaf tensor as root
	for mi, mask := range c01Masks {
		enumPrograms(c01Leaves(), mask, fullAlphabet, maxOps, func(p *ref.Program, code string, nOps int) {
			if c.Expired() {
				return
			}
			for root := len(p.Leaves); root < p.NTensors(); root++ {
				root := root
				id := fmt.Sprintf("prog/%s/m%d/r%d", code, mi, root)
				if c.Only != "" && id != c.Only {
					continue
				}
				var q *ref.Program
				c.Case(id, hasSharedInterior(p, root), func() core.Verdict {
					if q == nil {
						q = copyProgram(p)
					}
					return c01Single(c, copyProgram(q), root)
				})
			}
		})
	}
	// (1b) thorough: 5 operations over the sub-alphabet {Scale, Add, Mul}
	if c.Thorough() {
		enumPrograms(c01Leaves(), c01Masks[0], smallAlphabet, 5, func(p *ref.Program, code string, nOps int) {
			if nOps < 5 || c.Expired() {
				return
			}
			root := p.NTensors() - 1
			var q *ref.Program
			c.Case(fmt.Sprintf("prog5/%s", code), hasSharedInterior(p, root), func() core.Verdict {
				if q == nil {
					q = copyProgram(p)
				}
				return c01Single(c, copyProgram(q), root)
			})
		})
	}
	// (1c) mixed ranks without real expansion: leaves [3], [1,3], [1,1,3];
	// every program of <= 3 operations over {Add, Mul, Sub (right-aligned
	// broadcasting that only adds leading size-1 dimensions), Scale,
	// Reshape([3]), UnSqueeze(0), SumAlong(0) of a leading size-1 dimension}
	mixedLeaves := func() []*ref.T {
		return []*ref.T{enum.Generic([]int{3}, 311, 0.4, 1.3, true), enum.Generic([]int{1, 3}, 312, 0.4, 1.3, true), enum.Generic([]int{1, 1, 3}, 313, 0.4, 1.3, true)}
	}
	mixOps := 3
	var mixRec func(p *ref.Program, shapes [][]int, code string, n int)
	mixRec = func(p *ref.Program, shapes [][]int, code string, n int) {
		if n > 0 {
			root := p.NTensors() - 1
			q := copyProgram(p)
			c.Case("mixed/"+code, true, func() core.Verdict {
				v := gradCase(copyProgram(q), root, gradOpts{})
				if !v.OK && !v.Skip {
					v.Detail = describeProgram(q) + " :: " + v.Detail
				}
				return v
			})
		}
		if n == mixOps || c.Expired() {
			return
		}
		k := p.NTensors()
		try := func(op ref.Op, in ...int) {
			ish := make([][]int, len(in))
			for i, id := range in {
				ish[i] = shapes[id]
			}
			sh, ok := ref.ResultShape(op, ish)
			if !ok || ref.Size(sh) != 3 {
				return
			}
			p.Nodes = append(p.Nodes, ref.Node{Op: op, In: in})
			mixRec(p, append(shapes, sh), fmt.Sprintf("%s;%s%v", code, op, in), n+1)
			p.Nodes = p.Nodes[:len(p.Nodes)-1]
		}
		for i := 0; i < k; i++ {
			try(ref.Op{K: "Scale", F: 2}, i)
			try(ref.Op{K: "Reshape", Shape: []int{3}}, i)
			try(ref.Op{K: "UnSqueeze", Dim: 0}, i)
			if len(shapes[i]) >= 2 {
				try(ref.Op{K: "SumAlong", Dim: 0}, i)
			}
			for j := 0; j < k; j++ {
				if len(shapes[i]) == len(shapes[j]) && i > j {
					continue // same-rank pairs once (j >= i); different ranks in both orders
				}
				for _, kind := range []string{"Add", "Mul", "Sub"} {
					try(ref.Op{K: kind}, i, j)
				}
			}
		}
	}
	{
		ml := mixedLeaves()
		p := &ref.Program{Leaves: ml, Tracked: []bool{true, true, true}}
		mixRec(p, [][]int{{3}, {1, 3}, {1, 1, 3}}, "", 0)
	}
	// (1d) several graphs over ONE shared leaf whose roots have the same rank and
	// element count but different shapes (and different ranks), back-propagated in every order
	{
		mkRoot := func(kind int) []ref.Node { // leaf id 0 of shape [2,3]; negative ids are relative to the node itself
			switch kind {
			case 0: // [2,3]
				return []ref.Node{{Op: ref.Op{K: "Scale", F: 2}, In: []int{0}}, {Op: ref.Op{K: "Sin"}, In: []int{0}}, {Op: ref.Op{K: "Add"}, In: []int{-1, -2}}}
			case 1: // [3,2]
				return []ref.Node{{Op: ref.Op{K: "Transpose"}, In: []int{0}}, {Op: ref.Op{K: "Exp"}, In: []int{-1}}}
			case 2: // [6,1]
				return []ref.Node{{Op: ref.Op{K: "Reshape", Shape: []int{6, 1}}, In: []int{0}}, {Op: ref.Op{K: "Scale", F: -3}, In: []int{-1}}}
			case 3: // [1,6]
				return []ref.Node{{Op: ref.Op{K: "Reshape", Shape: []int{1, 6}}, In: []int{0}}, {Op: ref.Op{K: "Mul"}, In: []int{-1, -1}}}
			case 4: // [6]
				return []ref.Node{{Op: ref.Op{K: "Flatten", Dim: 0}, In: []int{0}}}
			}
			// [3] (different element count)
			return []ref.Node{{Op: ref.Op{K: "SumAlong", Dim: 0}, In: []int{0}}, {Op: ref.Op{K: "Scale", F: 0.5}, In: []int{-1}}}
		}
		const nKinds = 6
		for a := 0; a < nKinds; a++ {
			for b := 0; b < nKinds; b++ {
				for cc := -1; cc < nKinds; cc++ {
					if cc >= 0 && !c.Thorough() && cc != (a+b)%nKinds {
						continue
					}
					a, b, cc := a, b, cc
					c.Case(fmt.Sprintf("seqshapes/%d,%d,%d", a, b, cc), true, func() core.Verdict {
						p := &ref.Program{Leaves: []*ref.T{enum.Generic([]int{2, 3}, 321, 0.4, 1.3, true)}, Tracked: []bool{true}}
						var roots []int
						for _, k := range []int{a, b, cc} {
							if k < 0 {
								continue
							}
							for _, n := range mkRoot(k) {
								self := p.NTensors()
								in := make([]int, len(n.In))
								for j, id := range n.In {
									if id < 0 {
										in[j] = self + id
									} else {
										in[j] = id
									}
								}
								p.Nodes = append(p.Nodes, ref.Node{Op: n.Op, In: in})
							}
							roots = append(roots, p.NTensors()-1)
						}
						v := seqGradCase(p, roots, gradOpts{})
						if !v.OK && !v.Skip {
							v.Detail = describeProgram(p) + " :: " + v.Detail
						}
						return v
					})
				}
			}
		}
	}
	// (2) leaves as roots
	for mi, mask := range c01Masks {
		for r := 0; r < 2; r++ {
			mask, r := mask, r
			c.Case(fmt.Sprintf("leafroot/m%d/r%d", mi, r), false, func() core.Verdict {
				p := &ref.Program{Leaves: c01Leaves(), Tracked: mask, Nodes: []ref.Node{{Op: ref.Op{K: "Add"}, In: []int{0, 1}}}}
				return c01Single(c, p, r)
			})
		}
	}
	// (2b) a LEAF as the root of one back-propagation of a sequence, before and after a graph over it
	{
		var pool1 []*ref.Program
		var codes []string
		enumPrograms(c01Leaves(), c01Masks[0], fullAlphabet, 1, func(p *ref.Program, code string, nOps int) {
			pool1 = append(pool1, copyProgram(p))
			codes = append(codes, code)
		})
		for i := range pool1 {
			for leaf := 0; leaf < 2; leaf++ {
				for order := 0; order < 3; order++ {
					for mi, mask := range c01Masks {
						i, leaf, order, mask := i, leaf, order, mask
						c.Case(fmt.Sprintf("seqleaf/%s/l%d/o%d/m%d", codes[i], leaf, order, mi), true, func() core.Verdict {
							p := &ref.Program{Leaves: c01Leaves(), Tracked: mask, Nodes: pool1[i].Nodes}
							root := p.NTensors() - 1
							roots := [][]int{{root, leaf}, {leaf, root}, {leaf, root, leaf}}[order]
							v := seqGradCase(p, roots, gradOpts{})
							if !v.OK && !v.Skip {
								v.Detail = describeProgram(p) + " :: " + v.Detail
							}
							return v
						})
					}
				}
			}
		}
	}
	// (3) sequences of back-propagations over graphs sharing only leaves
	seqOps := 1
	if c.Thorough() {
		seqOps = 2
	}
	var pool []*ref.Program
	var poolCodes []string
	enumPrograms(c01Leaves(), c01Masks[0], fullAlphabet, seqOps, func(p *ref.Program, code string, nOps int) {
		pool = append(pool, copyProgram(p))
		poolCodes = append(poolCodes, code)
	})
	for mi, mask := range c01Masks {
		for i := range pool {
			if c.Expired() {
				break
			}
			for j := range pool {
				i, j, mask := i, j, mask
				c.Case(fmt.Sprintf("seq2/%s|%s/m%d", poolCodes[i], poolCodes[j], mi), true, func() core.Verdict {
					return c01Sequence([]*ref.Program{pool[i], pool[j]}, mask)
				})
			}
		}
	}
	// triples with one operation each
	var pool1 []*ref.Program
	var pool1Codes []string
	enumPrograms(c01Leaves(), c01Masks[0], fullAlphabet, 1, func(p *ref.Program, code string, nOps int) {
		pool1 = append(pool1, copyProgram(p))
		pool1Codes = append(pool1Codes, code)
	})
	if c.Thorough() {
		for i := range pool1 {
			for j := range pool1 {
				for k := range pool1 {
					i, j, k := i, j, k
					c.Case(fmt.Sprintf("seq3/%s|%s|%s", pool1Codes[i], pool1Codes[j], pool1Codes[k]), true, func() core.Verdict {
						return c01Sequence([]*ref.Program{pool1[i], pool1[j], pool1[k]}, c01Masks[0])
					})
				}
			}
		}
	}
	// (3b) staged sequences: the second graph is BUILT after the first one was back-propagated;
	// the graphs share an UNTRACKED tensor u (a direct operand next to the tracked one) and nothing else
	{
		type bop struct {
			op   ref.Op
			swap bool
		}
		var bops []bop
		for _, k := range []string{"Add", "Mul", "Div", "ElMax", "ElMin", "Dot", "Concat", "Patch"} {
			bops = append(bops, bop{ref.Op{K: k}, false}, bop{ref.Op{K: k}, true})
		}
		for i, b1 := range bops {
			for j, b2 := range bops {
				for third := 0; third < 2; third++ {
					if third == 1 && !c.Thorough() && (i+j)%4 != 0 {
						continue
					}
					b1, b2, third := b1, b2, third
					c.Case(fmt.Sprintf("staged/%s%v|%s%v/%d", b1.op, b1.swap, b2.op, b2.swap, third), true, func() core.Verdict {
						g := func(salt uint64) *ref.T { return enum.Generic([]int{2}, salt, 0.4, 1.3, true) }
						p := &ref.Program{Leaves: []*ref.T{g(331), g(332), g(333), g(334)}, Tracked: []bool{true, true, false, true}}
						const u = 2
						var roots []int
						stage := func(x int, b bop) {
							in := []int{x, u}
							if b.swap {
								in = []int{u, x}
							}
							p.Nodes = append(p.Nodes, ref.Node{Op: b.op, In: in})
							p.Nodes = append(p.Nodes, ref.Node{Op: ref.Op{K: "Scale", F: 1.5}, In: []int{p.NTensors() - 1}})
							roots = append(roots, p.NTensors()-1)
						}
						stage(0, b1)
						stage(1, b2)
						if third == 1 {
							stage(3, b1)
						}
						v := stagedGradCase(p, roots, gradOpts{})
						if !v.OK && !v.Skip {
							v.Detail = describeProgram(p) + " :: " + v.Detail
						}
						return v
					})
				}
			}
		}
	}
	// (4) complexity families (a walk that follows every PATH instead of every edge needs 2^depth
	// steps: from depth ~36 on that is longer than the per-case watchdog allows)
	maxDepth := 44
	if c.Thorough() {
		maxDepth = 64
	}
	for _, fam := range []string{"ladderAdd", "ladderMul", "diamond", "allPrevious"} {
		for n := 1; n <= maxDepth; n++ {
			fam, n := fam, n
			c.Case(fmt.Sprintf("family/%s/%d", fam, n), true, func() core.Verdict {
				fp := familyProgram(fam, n)
				return c01Single(c, fp, fp.NTensors()-1)
			})
		}
	}
}

// familyProgram builds deep graphs with shared sub-expressions. Values are
// chosen so that results stay in range.
func familyProgram(fam string, n int) *ref.Program {
	p := &ref.Program{Tracked: []bool{true}}
	switch fam {
	case "ladderAdd": // y <- y + y   (value doubles: 2^48 fits easily)
		p.Leaves = []*ref.T{{Shape: []int{2}, V: []float64{1, -0.5}}}
		for i := 0; i < n; i++ {
			p.Nodes = append(p.Nodes, ref.Node{Op: ref.Op{K: "Add"}, In: []int{i, i}})
		}
	case "ladderMul": // y <- y * y at |y| = 1
		p.Leaves = []*ref.T{{Shape: []int{2}, V: []float64{1, -1}}}
		for i := 0; i < n; i++ {
			p.Nodes = append(p.Nodes, ref.Node{Op: ref.Op{K: "Mul"}, In: []int{i, i}})
		}
	case "diamond": // a -> (0.5a, 0.25a) -> sum, repeated
		p.Leaves = []*ref.T{{Shape: []int{2}, V: []float64{1, -2}}}
		cur := 0
		for i := 0; i < n; i++ {
			b := p.NTensors()
			p.Nodes = append(p.Nodes, ref.Node{Op: ref.Op{K: "Scale", F: 0.5}, In: []int{cur}})
			p.Nodes = append(p.Nodes, ref.Node{Op: ref.Op{K: "Scale", F: 0.25}, In: []int{cur}})
			p.Nodes = append(p.Nodes, ref.Node{Op: ref.Op{K: "Add"}, In: []int{b, b + 1}})
			cur = b + 2
		}
	case "allPrevious": // y_k = 0.5 * sum of all earlier tensors
		p.Leaves = []*ref.T{{Shape: []int{2}, V: []float64{1, -2}}}
		nodes := []int{0}
		for i := 0; i < n; i++ {
			acc := nodes[0]
			for _, j := range nodes[1:] {
				id := p.NTensors()
				p.Nodes = append(p.Nodes, ref.Node{Op: ref.Op{K: "Add"}, In: []int{acc, j}})
				acc = id
			}
			id := p.NTensors()
			p.Nodes = append(p.Nodes, ref.Node{Op: ref.Op{K: "Scale", F: 0.5}, In: []int{acc}})
			nodes = append(nodes, id)
		}
	}
	return p
}
