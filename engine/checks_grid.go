package main

import (
	"fmt"

	"qmc/core"
	"qmc/enum"
	"qmc/ref"
)

/*
Grid sweeps: the length sweeps (checks_sweep.go) make ONE dimension long while
the others stay at 1..3. Conditions on two or three medium dimensions at once
(both sides of a matrix above a block size, a total element count reached only
by several medium dimensions, square shapes) need grids: all pairs (a,b) and
triples (a,b,c) over a set of medium sizes that contains small primes, powers
of two and their neighbours.
*/

func gridSizes(thorough bool) []int {
	if thorough {
		return []int{3, 4, 5, 6, 7, 8, 9, 12, 15, 16, 17, 31, 32, 33, 63, 64, 65, 100, 128}
	}
	return []int{4, 5, 7, 8, 9, 16, 17, 32, 33, 64}
}

func gridSizes3(thorough bool) []int {
	if thorough {
		return []int{4, 5, 7, 8, 9, 16, 17, 32, 33}
	}
	return []int{4, 5, 8, 16, 17, 33}
}

func gridPairs(thorough bool) [][]int {
	var out [][]int
	for _, a := range gridSizes(thorough) {
		for _, b := range gridSizes(thorough) {
			out = append(out, []int{a, b})
		}
	}
	return out
}

func gridTriples(thorough bool) [][]int {
	var out [][]int
	for _, a := range gridSizes3(thorough) {
		for _, b := range gridSizes3(thorough) {
			for _, cc := range gridSizes3(thorough) {
				out = append(out, []int{a, b, cc})
			}
		}
	}
	return out
}

type gridFam3 struct {
	name   string
	params [][]int
	mk     func(d []int) (ref.Op, []*ref.T, bool)
}

type gridFam struct {
	name   string
	params [][]int
	mk     func(d []int) (ref.Op, []*ref.T, bool)
	big    bool // linear cost in the element count: also run on the big shapes (checks_sweep.go: bigShapes) of the same rank
}

// withBig: the family's parameter list, extended by the big shapes of the same
// rank when the family is marked big (gradient families: element counts <= 2^18).
func (f gridFam) withBig(th bool, grad bool) [][]int {
	if !f.big || len(f.params) == 0 {
		return f.params
	}
	out := append([][]int{}, f.params...)
	for _, s := range bigShapes(th) {
		if len(s) == len(f.params[0]) && (!grad || ref.Size(s) <= 1<<18) {
			out = append(out, s)
		}
	}
	return out
}

func runFwdGrid(c *core.Ctx, fams []gridFam, exact bool) {
	for _, f := range fams {
		for _, d := range f.withBig(c.Thorough(), false) {
			f, d := f, d
			c.Case(fmt.Sprintf("grid/%s/%v", f.name, d), true, func() core.Verdict {
				op, in, ok := f.mk(d)
				if !ok {
					return core.Skip()
				}
				v := applyBoth(op, in, exact)
				if !v.OK && !v.Skip {
					v.Detail = fmt.Sprintf("grid %s, sizes %v: %s", f.name, d, v.Detail)
				}
				return v
			})
		}
	}
}

func runGradGrid(c *core.Ctx, fams []gridFam, o gradOpts) {
	for _, f := range fams {
		for _, d := range f.withBig(c.Thorough(), true) {
			f, d := f, d
			c.Case(fmt.Sprintf("grid/%s/%v", f.name, d), true, func() core.Verdict {
				op, in, ok := f.mk(d)
				if !ok {
					return core.Skip()
				}
				p := &ref.Program{Leaves: in}
				ids := make([]int, len(in))
				for i := range in {
					p.Tracked = append(p.Tracked, true)
					ids[i] = i
				}
				p.Nodes = []ref.Node{{Op: op, In: ids}}
				if _, ok := p.Forward(); !ok {
					return core.Fail("HARNESS: model rejects grid configuration %s %v", f.name, d)
				}
				q, root := withWeighting(p, len(in), 79)
				v := gradCase(q, root, o)
				if !v.OK && !v.Skip {
					det := v.Detail
					if len(det) > 800 {
						det = det[:800]
					}
					v.Detail = fmt.Sprintf("grid %s, sizes %v: %s", f.name, d, det)
				}
				return v
			})
		}
	}
}

func gUn(k string, f float64, dim int, salt uint64) func(d []int) (ref.Op, []*ref.T, bool) {
	return func(d []int) (ref.Op, []*ref.T, bool) {
		x := gen(d, salt)
		if k == "Log" || k == "Pow" {
			x = genPos(d, salt)
		}
		if dim >= len(d) {
			return ref.Op{}, nil, false
		}
		return ref.Op{K: k, F: f, Dim: dim}, []*ref.T{x}, true
	}
}

func gBin(k string, sa, sb func(d []int) []int) func(d []int) (ref.Op, []*ref.T, bool) {
	return func(d []int) (ref.Op, []*ref.T, bool) {
		return ref.Op{K: k}, []*ref.T{gen(sa(d), 12), genPos(sb(d), 13)}, true
	}
}

func idShape(d []int) []int { return d }

func elementwiseGrid(th bool) []gridFam {
	pairs, triples := gridPairs(th), gridTriples(th)
	var fams []gridFam
	for _, u := range []struct {
		k string
		f float64
	}{{"Scale", -1.5}, {"Pow", 2}, {"Exp", 0}, {"Tanh", 0}} {
		fams = append(fams, gridFam{u.k + "/[a,b]", pairs, gUn(u.k, u.f, 0, 11), true}, gridFam{u.k + "/[a,b,c]", triples, gUn(u.k, u.f, 0, 11), true})
	}
	for _, k := range []string{"Add", "Mul", "Div", "ElMax"} {
		fams = append(fams, gridFam{k + "/[a,b]", pairs, gBin(k, idShape, idShape), true}, gridFam{k + "/[a,b,c]", triples, gBin(k, idShape, idShape), true})
	}
	for _, k := range []string{"Add", "Mul", "Sub"} {
		fams = append(fams,
			gridFam{k + "/[a,1]+[1,b]", pairs, gBin(k, func(d []int) []int { return []int{d[0], 1} }, func(d []int) []int { return []int{1, d[1]} }), true},
			gridFam{k + "/[a,b]+[b]", pairs, gBin(k, idShape, func(d []int) []int { return []int{d[1]} }), true},
			gridFam{k + "/[a,1,c]+[b,1]", triples, gBin(k, func(d []int) []int { return []int{d[0], 1, d[2]} }, func(d []int) []int { return []int{d[1], 1} }), true})
	}
	return fams
}

func gridC03(c *core.Ctx) {
	fams := elementwiseGrid(c.Thorough())
	fams = append(fams, gridFam{"Gt/[a,b]", gridPairs(c.Thorough()), gBin("Gt", idShape, idShape), true}, gridFam{"Eq/[a,b,c]", gridTriples(c.Thorough()), gBin("Eq", idShape, idShape), true})
	runFwdGrid(c, fams, false)
}

func linalgGrid(th bool) []gridFam {
	pairs, triples := gridPairs(th), gridTriples(th)
	return []gridFam{
		{"MatMul/[a,b]x[b,c]", triples, gBin("MatMul", func(d []int) []int { return []int{d[0], d[1]} }, func(d []int) []int { return []int{d[1], d[2]} }), false},
		{"MatMul/[a,2,b]x[a,b,3]", pairs, gBin("MatMul", func(d []int) []int { return []int{d[0], 2, d[1]} }, func(d []int) []int { return []int{d[0], d[1], 3} }), true},
		{"MatMul/[a,b,b]x[b,b]", pairs, gBin("MatMul", func(d []int) []int { return []int{d[0], d[1], d[1]} }, func(d []int) []int { return []int{d[1], d[1]} }), false},
		{"Dot/[a,b].[a,b]", pairs, gBin("Dot", idShape, idShape), true},
		{"Dot/[a,b,c].[a,b,c]", triples, gBin("Dot", idShape, idShape), true},
		{"Dot/[a,b].[b]", pairs, gBin("Dot", idShape, func(d []int) []int { return []int{d[1]} }), true},
		{"Transpose/[a,b]", pairs, gUn("Transpose", 0, 0, 25), true},
		{"Transpose/[a,b,c]", triples, gUn("Transpose", 0, 0, 25), true},
		{"MatMul/[a,b]x[b,2]", pairs, gBin("MatMul", idShape, func(d []int) []int { return []int{d[1], 2} }), true},
		{"MatMul/[2,a]x[a,b]", pairs, gBin("MatMul", func(d []int) []int { return []int{2, d[0]} }, idShape), true},
	}
}

func gridC04(c *core.Ctx) { runFwdGrid(c, linalgGrid(c.Thorough()), false) }

func alongGrid(th bool) []gridFam {
	pairs, triples := gridPairs(th), gridTriples(th)
	var fams []gridFam
	for _, k := range ref.AlongKinds {
		for dim := 0; dim < 3; dim++ {
			if dim < 2 {
				fams = append(fams, gridFam{fmt.Sprintf("%s/[a,b]/%d", k, dim), pairs, gUn(k, 0, dim, 14), true})
			}
			fams = append(fams, gridFam{fmt.Sprintf("%s/[a,b,c]/%d", k, dim), triples, gUn(k, 0, dim, 14), true})
		}
	}
	return fams
}

func gridC05(c *core.Ctx) { runFwdGrid(c, alongGrid(c.Thorough()), false) }

func moveGrid(th bool, labels bool) []gridFam {
	pairs, triples := gridPairs(th), gridTriples(th)
	mk := func(s []int, base float64) *ref.T {
		if labels {
			return enum.Labels(s, base)
		}
		return gen(s, uint64(base)+3)
	}
	one := func(op func(d []int) ref.Op) func(d []int) (ref.Op, []*ref.T, bool) {
		return func(d []int) (ref.Op, []*ref.T, bool) { return op(d), []*ref.T{mk(d, 1)}, true }
	}
	raw := []gridFam3{
		{"Slice/[a,b]/inner", pairs, one(func(d []int) ref.Op {
			return ref.Op{K: "Slice", Index: []ref.Range{{From: 1, To: d[0] - 1}, {From: 2, To: d[1]}}}
		})},
		{"Slice/[a,b,c]/inner", triples, one(func(d []int) ref.Op {
			return ref.Op{K: "Slice", Index: []ref.Range{{From: 1, To: d[0]}, {From: 0, To: 0}, {From: 1, To: d[2] - 1}}}
		})},
		{"Patch/[a,b]/corner", pairs, func(d []int) (ref.Op, []*ref.T, bool) {
			return ref.Op{K: "Patch", Index: []ref.Range{{From: 1, To: d[0] - 1}, {From: 2, To: d[1]}}}, []*ref.T{mk(d, 1), mk([]int{d[0] - 2, d[1] - 2}, 100000)}, true
		}},
		{"Concat/[a,b],[a,b]/0", pairs, func(d []int) (ref.Op, []*ref.T, bool) {
			return ref.Op{K: "Concat", Dim: 0}, []*ref.T{mk(d, 1), mk(d, 100000)}, true
		}},
		{"Concat/[a,b],[a,3],[a,b]/1", pairs, func(d []int) (ref.Op, []*ref.T, bool) {
			return ref.Op{K: "Concat", Dim: 1}, []*ref.T{mk(d, 1), mk([]int{d[0], 3}, 100000), mk(d, 200000)}, true
		}},
		{"Concat/[a,b,c],[a,2,c]/1", triples, func(d []int) (ref.Op, []*ref.T, bool) {
			return ref.Op{K: "Concat", Dim: 1}, []*ref.T{mk(d, 1), mk([]int{d[0], 2, d[2]}, 100000)}, true
		}},
		{"Reshape/[a,b]->[b,a]", pairs, one(func(d []int) ref.Op { return ref.Op{K: "Reshape", Shape: []int{d[1], d[0]}} })},
		{"Reshape/[a,b,c]->[c,a*b]", triples, one(func(d []int) ref.Op { return ref.Op{K: "Reshape", Shape: []int{d[2], d[0] * d[1]}} })},
		{"Reshape/[a,b,c]->[a*b*c]", triples, one(func(d []int) ref.Op { return ref.Op{K: "Reshape", Shape: []int{d[0] * d[1] * d[2]}} })},
		{"Flatten/[a,b,c]/1", triples, one(func(d []int) ref.Op { return ref.Op{K: "Flatten", Dim: 1} })},
		{"Flatten/[a,b]/0", pairs, one(func(d []int) ref.Op { return ref.Op{K: "Flatten", Dim: 0} })},
		{"UnSqueeze/[a,b]/1", pairs, one(func(d []int) ref.Op { return ref.Op{K: "UnSqueeze", Dim: 1} })},
		{"Broadcast/[a,1]->[a,b]", pairs, func(d []int) (ref.Op, []*ref.T, bool) {
			return ref.Op{K: "Broadcast", Shape: []int{d[0], d[1]}}, []*ref.T{mk([]int{d[0], 1}, 1)}, true
		}},
		{"Broadcast/[b]->[a,b]", pairs, func(d []int) (ref.Op, []*ref.T, bool) {
			return ref.Op{K: "Broadcast", Shape: []int{d[0], d[1]}}, []*ref.T{mk([]int{d[1]}, 1)}, true
		}},
		{"Broadcast/[a,1,c]->[a,b,c]", triples, func(d []int) (ref.Op, []*ref.T, bool) {
			return ref.Op{K: "Broadcast", Shape: []int{d[0], d[1], d[2]}}, []*ref.T{mk([]int{d[0], 1, d[2]}, 1)}, true
		}},
	}
	out := make([]gridFam, len(raw))
	for i, r := range raw {
		mk := r.mk
		out[i] = gridFam{name: r.name, params: r.params, big: true, mk: func(d []int) (ref.Op, []*ref.T, bool) {
			for _, x := range d {
				if x < 4 {
					return ref.Op{}, nil, false // the index ranges of these families need sizes >= 4
				}
			}
			return mk(d)
		}}
	}
	return out
}

func gridC06(c *core.Ctx) { runFwdGrid(c, moveGrid(c.Thorough(), true), true) }

func gridC02(c *core.Ctx) {
	th := c.Thorough()
	var fams []gridFam
	for _, f := range linalgGrid(th) {
		if f.name == "MatMul/[a,b,b]x[b,b]" || f.name == "Dot/[a,b].[b]" {
			continue // an operand is implicitly broadcast: C07's subject (listed finding)
		}
		fams = append(fams, f)
	}
	for _, f := range alongGrid(th) {
		fams = append(fams, f)
	}
	for _, f := range moveGrid(th, false) {
		if len(f.name) >= 9 && f.name[:9] == "Broadcast" {
			continue // C07's subject (listed finding)
		}
		fams = append(fams, f)
	}
	for _, f := range elementwiseGrid(th) {
		if f.name == "Exp/[a,b]" || f.name == "Pow/[a,b,c]" || f.name == "Mul/[a,b]" || f.name == "Div/[a,b,c]" || f.name == "ElMax/[a,b]" {
			fams = append(fams, f)
		}
	}
	runGradGrid(c, fams, gradOpts{})
}

func gridC07(c *core.Ctx) {
	th := c.Thorough()
	var fams []gridFam
	for _, f := range moveGrid(th, false) {
		if len(f.name) >= 9 && f.name[:9] == "Broadcast" {
			fams = append(fams, f)
		}
	}
	for _, f := range elementwiseGrid(th) {
		if f.name == "Add/[a,1]+[1,b]" || f.name == "Mul/[a,b]+[b]" || f.name == "Sub/[a,1,c]+[b,1]" || f.name == "Mul/[a,1]+[1,b]" {
			fams = append(fams, f)
		}
	}
	fams = append(fams, linalgGrid(th)[2], linalgGrid(th)[5]) // batch-broadcast MatMul, Dot with a lower-rank operand
	runGradGrid(c, fams, gradOpts{allowKF: true})
}

/* ---------- components ---------- */

// bigOfRank: the big shapes of one rank (0 = all ranks), element count <= max.
func bigOfRank(th bool, rank int, max int) [][]int {
	var out [][]int
	for _, s := range bigShapes(th) {
		if (rank == 0 || len(s) == rank) && ref.Size(s) <= max {
			out = append(out, s)
		}
	}
	return out
}

func gridC12C13(c *core.Ctx, grad bool) {
	for _, L := range bigOfRank(c.Thorough(), 1, 1<<18) {
		for _, kind := range []string{"MSE", "BCE"} {
			L, kind := L[0], kind
			c.Case(fmt.Sprintf("grid/%s/big/%d", kind, L), true, func() core.Verdict {
				p, t := sweepLossInputs(kind, L, 0)
				var v core.Verdict
				if grad {
					v = c13Run(kind, p, t, 0, false)
				} else {
					v = c12Case(kind, p, t)
				}
				if !v.OK && !v.Skip && len(v.Detail) > 900 {
					v.Detail = fmt.Sprintf("%s over a batch of %d: ... %s", kind, L, v.Detail[len(v.Detail)-700:])
				}
				return v
			})
		}
	}
	for _, d := range append(gridPairs(c.Thorough()), bigOfRank(c.Thorough(), 2, 1<<18)...) {
		for variant := 0; variant < 2; variant++ {
			d, variant := d, variant
			c.Case(fmt.Sprintf("grid/CE/v%d/%v", variant, d), true, func() core.Verdict {
				p := enum.Generic(d, 61, 0.05, 0.95, false)
				t := enum.Generic(d, 62, 0.05, 0.95, false)
				if variant == 1 {
					for i := range t.V {
						t.V[i] = 0
					}
					for r := 0; r < d[0]; r++ {
						t.V[r*d[1]+(r*7)%d[1]] = 1
					}
				}
				var v core.Verdict
				if grad {
					v = c13Run("CE", p, t, 0, variant == 0)
				} else {
					v = c12Case("CE", p, t)
				}
				if !v.OK && !v.Skip && len(v.Detail) > 900 {
					v.Detail = fmt.Sprintf("grid CE batch %d classes %d: ... %s", d[0], d[1], v.Detail[len(v.Detail)-700:])
				}
				return v
			})
		}
	}
}

func gridC14(c *core.Ctx) {
	th := c.Thorough()
	for _, d := range append(append(gridPairs(th), gridTriples(th)...), bigOfRank(th, 0, 1<<20)...) {
		for _, a := range []actCfg{{kind: "Relu"}, {kind: "Sigmoid"}, {kind: "LeakyRelu", m: 0.3}, {kind: "Softmax", dim: 0}, {kind: "Softmax", dim: 1}, {kind: "Softmax", dim: 2}} {
			if a.kind == "Softmax" && a.dim >= len(d) {
				continue
			}
			d, a := d, a
			c.Case(fmt.Sprintf("grid/%s/%v", a, d), true, func() core.Verdict {
				v := c14Case(a, gen(d, 71))
				if !v.OK && !v.Skip {
					v.Detail = fmt.Sprintf("grid sizes %v: %s", d, v.Detail)
				}
				return v
			})
		}
	}
}

func gridC15(c *core.Ctx) {
	th := c.Thorough()
	for _, d := range append(append(gridPairs(th), gridTriples(th)...), bigOfRank(th, 0, 1<<18)...) {
		for _, op := range []ref.Op{{K: "Relu"}, {K: "Sigmoid"}, {K: "LeakyRelu", F: 0.3}, {K: "Softmax", Dim: 0}, {K: "Softmax", Dim: 1}, {K: "Softmax", Dim: 2}} {
			if op.K == "Softmax" && op.Dim >= len(d) {
				continue
			}
			d, op := d, op
			c.Case(fmt.Sprintf("grid/%s/%v", op, d), true, func() core.Verdict {
				v := c15Run(op, gen(d, 72), 0, 2)
				if !v.OK && !v.Skip && len(v.Detail) > 900 {
					v.Detail = fmt.Sprintf("grid %s sizes %v: ... %s", op, d, v.Detail[len(v.Detail)-700:])
				}
				return v
			})
		}
	}
}

func gridC16(c *core.Ctx) {
	tr := gridTriples(c.Thorough())
	for _, s := range bigOfRank(c.Thorough(), 2, 1<<18) {
		tr = append(tr, []int{s[0], s[1], 2})
		if s[1] > 3 {
			tr = append(tr, []int{s[0], 2, s[1]})
		}
	}
	for _, d := range tr {
		d := d
		c.Case(fmt.Sprintf("grid/FC/%v", d), true, func() core.Verdict {
			B, D, O := d[0], d[1], d[2]
			x := ref.Map(enum.Generic([]int{B, D}, 81, 0.1, 1, true), func(v float64) float64 { return v * 3 / float64(D) })
			w, b := gen([]int{O}, 82), gen([]int{O}, 83)
			if v := applyBoth(ref.Op{K: "FC"}, []*ref.T{x, w, b}, false); !v.OK {
				v.Detail = fmt.Sprintf("grid FC batch %d inputs %d outputs %d (forward): %s", B, D, O, v.Detail)
				return v
			}
			p := &ref.Program{Leaves: []*ref.T{x, w, b}, Tracked: []bool{true, true, true}}
			p.Nodes = []ref.Node{{Op: ref.Op{K: "FC"}, In: []int{0, 1, 2}}}
			q, root := withWeighting(p, 3, 84)
			v := gradCase(q, root, gradOpts{allowKF: true})
			if !v.OK && !v.Skip {
				det := v.Detail
				if len(det) > 700 {
					det = det[:700]
				}
				v.Detail = fmt.Sprintf("grid FC batch %d inputs %d outputs %d (gradients): %s", B, D, O, det)
			}
			return v
		})
	}
}

func gridC17(c *core.Ctx) {
	th := c.Thorough()
	for i, d := range append(append(gridPairs(th), gridTriples(th)...), bigOfRank(th, 0, 1<<19)...) {
		i, d := i, d
		c.Case(fmt.Sprintf("grid/update/%v", d), true, func() core.Verdict {
			v := c17UpdateCase(d, c17LRs[i%len(c17LRs)], i%5)
			if !v.OK && !v.Skip {
				v.Detail = fmt.Sprintf("grid, weight shape %v: %s", d, v.Detail)
			}
			return v
		})
	}
}
