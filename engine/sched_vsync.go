//go:build vsync

package main

import (
	vsync "github.com/sahandsafizadeh/qeep/verifsync"
	"qmc/sched"
)

// The build maps the sync / sync/atomic shim into the library's module
// (tools/mkoverlay); here the shim is connected to the controlled scheduler.
func init() {
	vsync.Sched = &vsync.SchedHooks{Active: sched.Active, Point: sched.Point, Block: sched.Block, Spawn: sched.Spawn}
	sched.OnRunStart = vsync.VerifNewExecution
	syncShimInstalled = true
	syncShimOps = func() int64 { return vsync.VerifOps.Load() }
	syncShimRealWaiters = func() int64 { return vsync.VerifRealWaiters.Load() }
}
