package main

import (
	"fmt"
	"math"
	"time"

	"github.com/sahandsafizadeh/qeep/component/initializers"
	"github.com/sahandsafizadeh/qeep/component/layers"
	"github.com/sahandsafizadeh/qeep/component/layers/activations"
	"github.com/sahandsafizadeh/qeep/component/losses"
	"github.com/sahandsafizadeh/qeep/component/metrics"
	"github.com/sahandsafizadeh/qeep/component/optimizers"
	"github.com/sahandsafizadeh/qeep/tensor"
	"qmc/core"
	"qmc/enum"
	"qmc/ref"
	"qmc/rt"
)

/* C09: totality. Every public entry point over the small-argument domain:
   no panic, no runaway, error <=> documented precondition violated, no result
   on error, defined shape on success, operands untouched. */

const (
	vInvalid     = 0
	vValid       = 1
	vUnspecified = -1
)

type totalCtx struct {
	calls   int64
	steps   int64
	budget  int64
	invalid int64
	valid   int64
}

func (tc *totalCtx) install() {
	tensor.VerifSetHandler(func(string) {
		tc.steps++
		if tc.steps > tc.budget {
			panic("RUNAWAY: hook step budget exceeded")
		}
	})
}

// one public call. res is the returned tensor (nil interface if none), hasRes
// tells whether the entry point returns a tensor at all.
func (tc *totalCtx) call(desc string, valid int, expShape []int, operands []tensor.Tensor, f func() (tensor.Tensor, error)) string {
	tc.calls++
	tc.steps = 0
	tc.budget = 3_000_000
	var before []snap
	for _, o := range operands {
		if o != nil {
			if _, ok := o.(foreignTensor); !ok {
				before = append(before, snapOf(o))
				continue
			}
		}
		before = append(before, snap{})
	}
	var res tensor.Tensor
	var err error
	if p := rt.Catch(func() { res, err = f() }); p != nil {
		return fmt.Sprintf("%s PANICS: %v", desc, p)
	}
	if err != nil && res != nil {
		return fmt.Sprintf("%s returned an error AND a result (err=%v)", desc, err)
	}
	switch valid {
	case vInvalid:
		tc.invalid++
		if err == nil {
			return fmt.Sprintf("%s: precondition violated but no error returned (result shape %v)", desc, shapeOrNil(res))
		}
	case vValid:
		tc.valid++
		if err != nil {
			return fmt.Sprintf("%s: valid arguments rejected: %v", desc, err)
		}
		if expShape != nil {
			if res == nil {
				return fmt.Sprintf("%s: nil result without error", desc)
			}
			if !ref.SameShape(res.Shape(), expShape) {
				return fmt.Sprintf("%s: result shape %v, defined shape %v", desc, res.Shape(), expShape)
			}
			flat, nesting, dims, rect, ok := tensor.VerifInspect(res)
			if ok && (!rect || !ref.SameShape(dims, expShape) || len(flat) != ref.Size(expShape) || (len(expShape) > 0 && !ref.SameShape(nesting, expShape))) {
				return fmt.Sprintf("%s: malformed result: dims %v, nesting %v (rectangular=%v), %d elements, defined shape %v", desc, dims, nesting, rect, len(flat), expShape)
			}
		}
	}
	if err != nil {
		for i, o := range operands {
			if o == nil {
				continue
			}
			if _, ok := o.(foreignTensor); ok {
				continue
			}
			if d := diffSnap(before[i], snapOf(o), false); d != "" {
				return fmt.Sprintf("%s: rejected call changed operand %d: %s", desc, i, d)
			}
		}
	}
	return ""
}

func shapeOrNil(t tensor.Tensor) any {
	if t == nil {
		return nil
	}
	return t.Shape()
}

var c09Ints = []int{-2, -1, 0, 1, 2, 3, 4, 5, 6}
var c09DimVals = []int{-1, 0, 1, 2, 6}

// intLists: all lists of length 0..maxLen over the alphabet, plus nil first.
func intLists(alpha []int, maxLen int) [][]int {
	out := [][]int{nil, {}}
	level := [][]int{{}}
	for l := 1; l <= maxLen; l++ {
		var next [][]int
		for _, p := range level {
			for _, a := range alpha {
				next = append(next, append(append([]int{}, p...), a))
			}
		}
		out = append(out, next...)
		level = next
	}
	return out
}

func dimsValid(d []int) bool {
	for _, x := range d {
		if x <= 0 {
			return false
		}
	}
	return true
}

type confCase struct {
	conf  *tensor.Config
	valid bool
}

func c09Confs() []confCase {
	out := []confCase{{nil, true}}
	for dev := 0; dev <= 2; dev++ {
		for _, g := range []bool{false, true} {
			out = append(out, confCase{&tensor.Config{Device: tensor.Device(dev), GradTrack: g}, dev == 1})
		}
	}
	return out
}

// rangeLists for Slice/Patch: lists of length 0..rank+1; full product over the
// range alphabet for length <= 2; for longer lists every assignment in which
// at most two positions take an arbitrary range and the others a benign one.
func rangeAlphabet(vals []int) []ref.Range {
	var out []ref.Range
	for _, f := range vals {
		for _, t := range vals {
			out = append(out, ref.Range{From: f, To: t})
		}
	}
	return out
}

func rangeLists(maxLen int, alpha []ref.Range, benign []ref.Range) [][]ref.Range {
	out := [][]ref.Range{nil, {}}
	for l := 1; l <= maxLen; l++ {
		if l <= 2 {
			level := [][]ref.Range{{}}
			for i := 0; i < l; i++ {
				var next [][]ref.Range
				for _, p := range level {
					for _, a := range alpha {
						next = append(next, append(append([]ref.Range{}, p...), a))
					}
				}
				level = next
			}
			out = append(out, level...)
			continue
		}
		// choose two positions (i<j) to vary fully; the rest from benign
		var rest func(pos int, cur []ref.Range, i, j int)
		rest = func(pos int, cur []ref.Range, i, j int) {
			if pos == l {
				out = append(out, append([]ref.Range{}, cur...))
				return
			}
			if pos == i || pos == j {
				for _, a := range alpha {
					rest(pos+1, append(cur, a), i, j)
				}
				return
			}
			for _, b := range benign {
				rest(pos+1, append(cur, b), i, j)
			}
		}
		for i := 0; i < l; i++ {
			for j := i + 1; j < l; j++ {
				rest(0, nil, i, j)
			}
		}
	}
	return out
}

type argTensor struct {
	name  string
	mk    func() tensor.Tensor
	shape []int
	kind  int // 0 real, 1 nil, 2 foreign
}

func c09ArgTensors(shapes [][]int) []argTensor {
	out := []argTensor{{name: "nil", mk: func() tensor.Tensor { return nil }, kind: 1}}
	out = append(out, argTensor{name: "foreign[2 2]", shape: []int{2, 2}, kind: 2, mk: func() tensor.Tensor {
		return foreignTensor{rt.Make(enum.Labels([]int{2, 2}, 0), false)}
	}})
	for _, s := range shapes {
		s := s
		out = append(out, argTensor{name: fmt.Sprint(s), shape: s, mk: func() tensor.Tensor { return rt.Make(enum.Generic(s, 7, 0.5, 2, true), true) }})
	}
	return out
}

func checkC09(c *core.Ctx) {
	if c.Thorough() && c.CaseTimeout < 10*time.Minute {
		c.CaseTimeout = 10 * time.Minute // one case = one entry-point group over the whole argument space
	}
	recvShapes := enum.Shapes(3, []int{1, 2, 3})
	argShapes := enum.Shapes(3, []int{1, 2, 3})
	intVals := []int{-2, -1, 0, 1, 2, 3, 4, 6}
	if c.Thorough() {
		recvShapes = append(enum.Shapes(4, []int{1, 2, 3}), enum.Shapes(5, []int{1, 2})[31:]...) // the 32 rank-5 shapes
		argShapes = enum.Shapes(4, []int{1, 2})
		argShapes = append(argShapes, enum.Shapes(3, []int{1, 2, 3})...)
		intVals = c09Ints
	}
	ralpha := rangeAlphabet(intVals)
	benign := []ref.Range{{From: 0, To: 0}, {From: 0, To: 1}}
	group := func(id string, f func(tc *totalCtx) string) {
		c.Case(id, true, func() core.Verdict {
			tc := &totalCtx{budget: 3_000_000}
			tc.install()
			defer tensor.VerifSetHandler(nil)
			msg := f(tc)
			c.P.Transitions += tc.calls
			c.P.Counters["public_calls"] += tc.calls
			c.P.Counters["calls_with_violated_precondition"] += tc.invalid
			c.P.Counters["calls_with_valid_arguments"] += tc.valid
			if msg != "" {
				return core.Fail("%s", msg)
			}
			return core.Pass()
		})
	}
	mkRecv := func(s []int) tensor.Tensor { return rt.Make(enum.Generic(s, 3, 0.5, 2, true), true) }

	/* ---- tensor methods ---- */
	for _, s := range recvShapes {
		s := s
		rank := len(s)
		group(fmt.Sprintf("At/%v", s), func(tc *totalCtx) string {
			t := mkRecv(s)
			for _, ix := range intLists(intVals, rank+1) {
				valid := vInvalid
				if len(ix) == rank {
					valid = vValid
					for i := range ix {
						if ix[i] < 0 || ix[i] >= s[i] {
							valid = vInvalid
						}
					}
				}
				ix := ix
				if m := tc.call(fmt.Sprintf("At(%v) on %v", ix, s), valid, nil, []tensor.Tensor{t}, func() (tensor.Tensor, error) {
					_, err := t.At(ix...)
					return nil, err
				}); m != "" {
					return m
				}
			}
			return ""
		})
		group(fmt.Sprintf("Slice/%v", s), func(tc *totalCtx) string {
			t := mkRecv(s)
			for _, ix := range rangeLists(rank+1, ralpha, benign) {
				op := ref.Op{K: "Slice", Index: ix}
				shape, ok := ref.ResultShape(op, [][]int{s})
				valid := vInvalid
				if ok {
					valid = vValid
				}
				if m := tc.call(fmt.Sprintf("Slice(%v) on %v", ix, s), valid, shape, []tensor.Tensor{t}, func() (tensor.Tensor, error) {
					return t.Slice(rt.Ranges(ix))
				}); m != "" {
					return m
				}
			}
			return ""
		})
		// Patch: index lists x source argument
		for _, src := range c09ArgTensors(enum.Shapes(rank, []int{1, 2})) {
			src := src
			if src.kind == 0 && len(src.shape) != rank && len(src.shape) != rank-1 && len(src.shape) != rank+1 {
				continue
			}
			group(fmt.Sprintf("Patch/%v/%s", s, src.name), func(tc *totalCtx) string {
				t := mkRecv(s)
				p := src.mk()
				lists := rangeLists(rank+1, ralpha, benign)
				if rank >= 3 {
					lists = rangeLists(2, ralpha, benign)
					lists = append(lists, rangeLists3Benign(rank+1, benign)...)
				}
				for _, ix := range lists {
					valid := vInvalid
					var shape []int
					switch src.kind {
					case 2:
						valid = vUnspecified
					case 0:
						if sh, ok := ref.ResultShape(ref.Op{K: "Patch", Index: ix}, [][]int{s, src.shape}); ok {
							valid, shape = vValid, sh
						}
					}
					if m := tc.call(fmt.Sprintf("Patch(%v, %s) on %v", ix, src.name, s), valid, shape, []tensor.Tensor{t, p}, func() (tensor.Tensor, error) {
						return t.Patch(rt.Ranges(ix), p)
					}); m != "" {
						return m
					}
				}
				return ""
			})
		}
		group(fmt.Sprintf("shapeargs/%v", s), func(tc *totalCtx) string {
			t := mkRecv(s)
			for _, shp := range intLists([]int{-1, 0, 1, 2, 3, 6}, 4) {
				for _, k := range []string{"Reshape", "Broadcast"} {
					op := ref.Op{K: k, Shape: shp}
					shape, ok := ref.ResultShape(op, [][]int{s})
					valid := vInvalid
					if ok {
						valid = vValid
					}
					shp, k := shp, k
					if m := tc.call(fmt.Sprintf("%s(%v) on %v", k, shp, s), valid, shape, []tensor.Tensor{t}, func() (tensor.Tensor, error) {
						if k == "Reshape" {
							return t.Reshape(shp)
						}
						return t.Broadcast(shp)
					}); m != "" {
						return m
					}
				}
			}
			for _, d := range c09Ints {
				for _, k := range append([]string{"UnSqueeze", "Squeeze", "Flatten"}, ref.AlongKinds...) {
					op := ref.Op{K: k, Dim: d}
					shape, ok := ref.ResultShape(op, [][]int{s})
					valid := vInvalid
					if ok {
						valid = vValid
					}
					if m := tc.call(fmt.Sprintf("%s(%d) on %v", k, d, s), valid, shape, []tensor.Tensor{t}, func() (tensor.Tensor, error) {
						return rt.Apply(op, []tensor.Tensor{t})
					}); m != "" {
						return m
					}
				}
			}
			shape, ok := ref.ResultShape(ref.Op{K: "Transpose"}, [][]int{s})
			valid := vInvalid
			if ok {
				valid = vValid
			}
			if m := tc.call(fmt.Sprintf("Transpose on %v", s), valid, shape, []tensor.Tensor{t}, func() (tensor.Tensor, error) { return t.Transpose() }); m != "" {
				return m
			}
			// total functions without error result: must not panic and keep the shape
			for _, f := range []float64{-2, -0.5, 0, 1, 6, math.NaN(), math.Inf(1)} {
				for _, k := range []string{"Scale", "Pow"} {
					op := ref.Op{K: k, F: f}
					if m := tc.call(fmt.Sprintf("%s(%v) on %v", k, f, s), vValid, s, []tensor.Tensor{t}, func() (tensor.Tensor, error) { return rt.Apply(op, []tensor.Tensor{t}) }); m != "" {
						return m
					}
				}
			}
			for _, k := range []string{"Exp", "Log", "Sin", "Cos", "Tan", "Sinh", "Cosh", "Tanh"} {
				op := ref.Op{K: k}
				if m := tc.call(fmt.Sprintf("%s on %v", k, s), vValid, s, []tensor.Tensor{t}, func() (tensor.Tensor, error) { return rt.Apply(op, []tensor.Tensor{t}) }); m != "" {
					return m
				}
			}
			if m := tc.call(fmt.Sprintf("reducers on %v", s), vValid, nil, []tensor.Tensor{t}, func() (tensor.Tensor, error) {
				_ = t.Sum() + t.Max() + t.Min() + t.Avg() + t.Var() + t.Std() + t.Mean() + float64(t.NElems())
				_ = t.Shape()
				_ = t.Gradient()
				_ = t.GradContext()
				return nil, nil
			}); m != "" {
				return m
			}
			return ""
		})
		group(fmt.Sprintf("binary/%v", s), func(tc *totalCtx) string {
			kinds := []string{"Eq", "Ne", "Gt", "Ge", "Lt", "Le", "ElMax", "ElMin", "Add", "Sub", "Mul", "Div", "Dot", "MatMul"}
			for _, a := range c09ArgTensors(argShapes) {
				t := mkRecv(s)
				u := a.mk()
				for _, k := range kinds {
					op := ref.Op{K: k}
					valid := vInvalid
					var shape []int
					switch a.kind {
					case 2:
						valid = vUnspecified
					case 0:
						if sh, ok := ref.ResultShape(op, [][]int{s, a.shape}); ok {
							valid, shape = vValid, sh
						}
					}
					if m := tc.call(fmt.Sprintf("%s(%s) on %v", k, a.name, s), valid, shape, []tensor.Tensor{t, u}, func() (tensor.Tensor, error) {
						return rt.Apply(op, []tensor.Tensor{t, u})
					}); m != "" {
						return m
					}
				}
				valid := vInvalid
				if a.kind == 2 {
					valid = vUnspecified
				} else if a.kind == 0 && ref.SameShape(s, a.shape) {
					valid = vValid
				}
				if m := tc.call(fmt.Sprintf("Equals(%s) on %v", a.name, s), valid, nil, []tensor.Tensor{t, u}, func() (tensor.Tensor, error) {
					_, err := t.Equals(u)
					return nil, err
				}); m != "" {
					return m
				}
			}
			return ""
		})
	}

	// rank-4 operands: batch-dimension logic of MatMul / Dot / broadcasting
	// beyond rank 3, every pair of batch shapes over {1,2,3}^2
	for _, ba := range enum.Shapes(2, []int{1, 2, 3})[4:] {
		ba := ba
		group(fmt.Sprintf("binary4/%v", ba), func(tc *totalCtx) string {
			for _, bb := range enum.Shapes(2, []int{1, 2, 3})[4:] {
				for _, tail := range [][2][]int{{{2, 2}, {2, 2}}, {{2, 3}, {3, 2}}, {{1, 2}, {2, 1}}, {{2, 2}, {3, 2}}} {
					sa := append(ref.CopyShape(ba), tail[0]...)
					sb := append(ref.CopyShape(bb), tail[1]...)
					t := rt.Make(enum.Generic(sa, 3, 0.5, 2, true), true)
					u := rt.Make(enum.Generic(sb, 4, 0.5, 2, true), true)
					for _, k := range []string{"MatMul", "Dot", "Add", "Mul", "ElMax", "Eq"} {
						op := ref.Op{K: k}
						valid := vInvalid
						var shape []int
						if sh, ok := ref.ResultShape(op, [][]int{sa, sb}); ok {
							valid, shape = vValid, sh
						}
						if m := tc.call(fmt.Sprintf("%s(%v) on %v", k, sb, sa), valid, shape, []tensor.Tensor{t, u}, func() (tensor.Tensor, error) {
							return rt.Apply(op, []tensor.Tensor{t, u})
						}); m != "" {
							return m
						}
					}
				}
			}
			return ""
		})
	}

	/* ---- constructors ---- */
	dimLists := intLists(c09DimVals, 4)
	if c.Thorough() {
		dimLists = intLists(c09DimVals, 5)
	}
	for ci, cf := range c09Confs() {
		cf := cf
		group(fmt.Sprintf("ctor/conf%d", ci), func(tc *totalCtx) string {
			for _, d := range dimLists {
				if ref.Size(d) > 1300 && dimsValid(d) && ci > 1 {
					continue // big tensors once per validity class of the config is enough
				}
				valid := vInvalid
				if dimsValid(d) && cf.valid {
					valid = vValid
				}
				exp := d
				if exp == nil {
					exp = []int{}
				}
				d := d
				for _, k := range []string{"Full", "Zeros", "Ones", "RandU", "RandN"} {
					k := k
					if m := tc.call(fmt.Sprintf("%s(%v, conf %d)", k, d, ci), valid, exp, nil, func() (tensor.Tensor, error) {
						switch k {
						case "Full":
							return tensor.Full(d, 2.5, cf.conf)
						case "Zeros":
							return tensor.Zeros(d, cf.conf)
						case "Ones":
							return tensor.Ones(d, cf.conf)
						case "RandU":
							return tensor.RandU(d, -1, 1, cf.conf)
						}
						return tensor.RandN(d, 0, 1, cf.conf)
					}); m != "" {
						return m
					}
				}
			}
			for _, n := range c09Ints {
				valid := vInvalid
				if n > 0 && cf.valid {
					valid = vValid
				}
				if m := tc.call(fmt.Sprintf("Eye(%d, conf %d)", n, ci), valid, []int{n, n}, nil, func() (tensor.Tensor, error) { return tensor.Eye(n, cf.conf) }); m != "" {
					return m
				}
			}
			params := []float64{-1, 0, 1, math.NaN(), math.Inf(1)}
			for _, a := range params {
				for _, b := range params {
					for _, d := range [][]int{nil, {2}, {2, 0}, {1, 2}} {
						finite := !math.IsInf(a, 0) && !math.IsInf(b, 0)
						vu, vn := vInvalid, vInvalid
						if a < b && dimsValid(d) && cf.valid {
							vu = vValid
							if !finite {
								vu = vUnspecified
							}
						}
						if b > 0 && dimsValid(d) && cf.valid {
							vn = vValid
							if !finite || math.IsNaN(a) {
								vn = vUnspecified
							}
						}
						if (math.IsNaN(a) || math.IsNaN(b)) && dimsValid(d) && cf.valid {
							// NaN parameters are outside the stated argument domain: no panic is all that is demanded
							vu, vn = vUnspecified, vUnspecified
						}
						exp := d
						if exp == nil {
							exp = []int{}
						}
						if m := tc.call(fmt.Sprintf("RandU(%v,%v,%v)", d, a, b), vu, exp, nil, func() (tensor.Tensor, error) { return tensor.RandU(d, a, b, cf.conf) }); m != "" {
							return m
						}
						if m := tc.call(fmt.Sprintf("RandN(%v,%v,%v)", d, a, b), vn, exp, nil, func() (tensor.Tensor, error) { return tensor.RandN(d, a, b, cf.conf) }); m != "" {
							return m
						}
					}
				}
			}
			return ""
		})
	}
	c09TensorOf(c, group)
	c09ConcatBP(c, group, argShapes)
	c09Components(c, group)
}

func rangeLists3Benign(maxLen int, benign []ref.Range) [][]ref.Range {
	var out [][]ref.Range
	for l := 3; l <= maxLen; l++ {
		level := [][]ref.Range{{}}
		for i := 0; i < l; i++ {
			var next [][]ref.Range
			for _, p := range level {
				for _, b := range append(benign, ref.Range{From: 1, To: 2}, ref.Range{From: 2, To: 1}, ref.Range{From: -1, To: 1}) {
					next = append(next, append(append([]ref.Range{}, p...), b))
				}
			}
			level = next
		}
		out = append(out, level...)
	}
	return out
}

/* ---- TensorOf: all nested trees with list lengths in {nil, 0, 1, 2}, depth 1..4 ---- */

func c09TensorOf(c *core.Ctx, group func(string, func(*totalCtx) string)) {
	// depth-1 lists
	d1 := [][]float64{nil, {}, {1}, {1, 2}}
	var d2 [][][]float64
	d2 = append(d2, nil, [][]float64{})
	for _, a := range d1 {
		d2 = append(d2, [][]float64{a})
	}
	for _, a := range d1 {
		for _, b := range d1 {
			d2 = append(d2, [][]float64{a, b})
		}
	}
	var d3 [][][][]float64
	d3 = append(d3, nil, [][][]float64{})
	for _, a := range d2 {
		d3 = append(d3, [][][]float64{a})
	}
	for _, a := range d2 {
		for _, b := range d2 {
			d3 = append(d3, [][][]float64{a, b})
		}
	}
	shape1 := func(v []float64) ([]int, bool) { return []int{len(v)}, len(v) > 0 }
	shape2 := func(v [][]float64) ([]int, bool) {
		if len(v) == 0 {
			return nil, false
		}
		s0, ok := shape1(v[0])
		for _, r := range v {
			s, o := shape1(r)
			if !o || !ok || !ref.SameShape(s, s0) {
				return nil, false
			}
		}
		return append([]int{len(v)}, s0...), true
	}
	shape3 := func(v [][][]float64) ([]int, bool) {
		if len(v) == 0 {
			return nil, false
		}
		s0, ok := shape2(v[0])
		for _, r := range v {
			s, o := shape2(r)
			if !o || !ok || !ref.SameShape(s, s0) {
				return nil, false
			}
		}
		return append([]int{len(v)}, s0...), true
	}
	conf := rt.Conf(true)
	group("TensorOf/depth0-3", func(tc *totalCtx) string {
		if m := tc.call("TensorOf(scalar)", vValid, []int{}, nil, func() (tensor.Tensor, error) { return tensor.TensorOf(3.5, conf) }); m != "" {
			return m
		}
		if m := tc.call("TensorOf(scalar, bad device)", vInvalid, nil, nil, func() (tensor.Tensor, error) {
			return tensor.TensorOf(3.5, &tensor.Config{Device: 2})
		}); m != "" {
			return m
		}
		for i, v := range d1 {
			s, ok := shape1(v)
			if m := tc.call(fmt.Sprintf("TensorOf(d1 #%d %v)", i, v), b2v(ok), s, nil, func() (tensor.Tensor, error) { return tensor.TensorOf(v, conf) }); m != "" {
				return m
			}
		}
		for i, v := range d2 {
			s, ok := shape2(v)
			if m := tc.call(fmt.Sprintf("TensorOf(d2 #%d %v)", i, v), b2v(ok), s, nil, func() (tensor.Tensor, error) { return tensor.TensorOf(v, conf) }); m != "" {
				return m
			}
		}
		for i, v := range d3 {
			s, ok := shape3(v)
			if m := tc.call(fmt.Sprintf("TensorOf(d3 #%d %v)", i, v), b2v(ok), s, nil, func() (tensor.Tensor, error) { return tensor.TensorOf(v, conf) }); m != "" {
				return m
			}
		}
		return ""
	})
	// depth 4: 1 + |d3| + |d3|^2 trees, split into groups by the first sub-block
	shape4 := func(v [][][][]float64) ([]int, bool) {
		if len(v) == 0 {
			return nil, false
		}
		s0, ok := shape3(v[0])
		for _, r := range v {
			s, o := shape3(r)
			if !o || !ok || !ref.SameShape(s, s0) {
				return nil, false
			}
		}
		return append([]int{len(v)}, s0...), true
	}
	group("TensorOf/depth4/short", func(tc *totalCtx) string {
		cases := [][][][][]float64{nil, {}}
		for _, a := range d3 {
			cases = append(cases, [][][][]float64{a})
		}
		for i, v := range cases {
			s, ok := shape4(v)
			if m := tc.call(fmt.Sprintf("TensorOf(d4 short #%d %v)", i, v), b2v(ok), s, nil, func() (tensor.Tensor, error) { return tensor.TensorOf(v, conf) }); m != "" {
				return m
			}
		}
		return ""
	})
	step := 1
	if c.Quick() {
		step = 1
	}
	for i := 0; i < len(d3); i += step {
		i := i
		group(fmt.Sprintf("TensorOf/depth4/first%d", i), func(tc *totalCtx) string {
			for j, b := range d3 {
				v := [][][][]float64{d3[i], b}
				s, ok := shape4(v)
				if m := tc.call(fmt.Sprintf("TensorOf(d4 #%d,%d %v)", i, j, v), b2v(ok), s, nil, func() (tensor.Tensor, error) { return tensor.TensorOf(v, conf) }); m != "" {
					return m
				}
			}
			return ""
		})
	}
}

func b2v(ok bool) int {
	if ok {
		return vValid
	}
	return vInvalid
}

/* ---- Concat and BackPropagate ---- */

func c09ConcatBP(c *core.Ctx, group func(string, func(*totalCtx) string), argShapes [][]int) {
	members := c09ArgTensors(append(enum.Shapes(2, []int{1, 2}), []int{2, 1, 2}, []int{1, 1, 1}, []int{3, 2}))
	group("Concat", func(tc *totalCtx) string {
		var lists [][]int
		lists = append(lists, []int{})
		for a := range members {
			lists = append(lists, []int{a})
			for b := range members {
				lists = append(lists, []int{a, b})
				for cc := range members {
					lists = append(lists, []int{a, b, cc})
				}
			}
		}
		// long lists: n copies of one member, and n-1 copies followed by another member
		for a := range members {
			for _, n := range []int{4, 5, 6, 7, 8, 9, 16, 17, 33} {
				l := make([]int, n)
				for i := range l {
					l[i] = a
				}
				lists = append(lists, l)
			}
			for b := range members {
				if b != a {
					lists = append(lists, []int{a, a, a, a, b}, []int{b, a, a, a, a, a})
				}
			}
		}
		for _, l := range append([][]int{nil}, lists...) {
			for _, dim := range []int{-2, -1, 0, 1, 2, 3, 6} {
				var ts []tensor.Tensor
				var shapes [][]int
				valid := vValid
				if l != nil {
					ts = []tensor.Tensor{}
				}
				for _, mi := range l {
					m := members[mi]
					ts = append(ts, m.mk())
					shapes = append(shapes, m.shape)
					if m.kind == 1 {
						valid = vInvalid
					}
				}
				hasForeign := false
				for _, mi := range l {
					if members[mi].kind == 2 {
						hasForeign = true
					}
				}
				var shape []int
				if len(l) < 2 {
					valid = vInvalid
				} else if valid == vValid {
					if hasForeign {
						valid = vUnspecified
					} else if sh, ok := ref.ResultShape(ref.Op{K: "Concat", Dim: dim}, shapes); ok {
						shape = sh
					} else {
						valid = vInvalid
					}
				} else if hasForeign {
					valid = vUnspecified
				}
				if m := tc.call(fmt.Sprintf("Concat(%v, %d)", l, dim), valid, shape, ts, func() (tensor.Tensor, error) { return tensor.Concat(ts, dim) }); m != "" {
					return m
				}
			}
		}
		return ""
	})
	group("BackPropagate", func(tc *totalCtx) string {
		for _, a := range c09ArgTensors(argShapes) {
			t := a.mk()
			valid := vValid
			if a.kind == 1 {
				valid = vInvalid
			} else if a.kind == 2 {
				valid = vUnspecified
			}
			if m := tc.call(fmt.Sprintf("BackPropagate(%s)", a.name), valid, nil, nil, func() (tensor.Tensor, error) { return nil, tensor.BackPropagate(t) }); m != "" {
				return m
			}
			if a.kind == 0 {
				u := rt.Make(enum.Generic(a.shape, 9, 0.5, 2, true), false)
				if m := tc.call(fmt.Sprintf("BackPropagate(untracked %s)", a.name), vValid, nil, nil, func() (tensor.Tensor, error) { return nil, tensor.BackPropagate(u) }); m != "" {
					return m
				}
				if m := tc.call("ResetGradContext", vValid, nil, nil, func() (tensor.Tensor, error) { u.ResetGradContext(true); u.ResetGradContext(false); return nil, nil }); m != "" {
					return m
				}
			}
		}
		// histories of BackPropagate calls that the tracking rules do not define (the same root twice, two
		// roots over a shared intermediate, a root after a reset of its leaf, a gradient tensor as root):
		// whatever they return, they return - no panic, no runaway
		for _, s := range [][]int{{}, {2}, {2, 2}} {
			x := rt.Make(enum.Generic(s, 11, 0.5, 2, true), true)
			h := x.Scale(2)
			r1 := h.Exp()
			r2, _ := h.Mul(h)
			for i, root := range []tensor.Tensor{r1, r1, r2, r2, h, x, r1} {
				root := root
				if m := tc.call(fmt.Sprintf("BackPropagate #%d in a history with repeated and overlapping roots (shape %v)", i, s), vUnspecified, nil, nil, func() (tensor.Tensor, error) { return nil, tensor.BackPropagate(root) }); m != "" {
					return m
				}
			}
			if g := x.Gradient(); g != nil {
				if m := tc.call("BackPropagate(a gradient tensor)", vUnspecified, nil, nil, func() (tensor.Tensor, error) { return nil, tensor.BackPropagate(g) }); m != "" {
					return m
				}
			}
			x.ResetGradContext(true)
			if m := tc.call("BackPropagate(old root after its leaf was reset)", vUnspecified, nil, nil, func() (tensor.Tensor, error) { return nil, tensor.BackPropagate(r2) }); m != "" {
				return m
			}
			y := x.Tanh()
			if m := tc.call("BackPropagate(new root after reset)", vValid, nil, nil, func() (tensor.Tensor, error) { return nil, tensor.BackPropagate(y) }); m != "" {
				return m
			}
		}
		return ""
	})
}

/* ---- components ---- */

func c09Components(c *core.Ctx, group func(string, func(*totalCtx) string)) {
	args := c09ArgTensors(enum.Shapes(3, []int{1, 2}))
	inputLists := func() [][]argTensor {
		out := [][]argTensor{nil, {}}
		for _, a := range args {
			out = append(out, []argTensor{a})
		}
		for _, a := range args[:5] {
			for _, b := range args[:5] {
				out = append(out, []argTensor{a, b})
			}
		}
		return out
	}
	mkAll := func(l []argTensor) []tensor.Tensor {
		if l == nil {
			return nil
		}
		ts := []tensor.Tensor{}
		for _, a := range l {
			ts = append(ts, a.mk())
		}
		return ts
	}
	group("activations", func(tc *totalCtx) string {
		for _, dim := range []int{-2, -1, 0, 1, 2, 3, 6} {
			valid := vValid
			if dim < 0 {
				valid = vInvalid
			}
			var sm *activations.Softmax
			if m := tc.call(fmt.Sprintf("NewSoftmax(Dim %d)", dim), valid, nil, nil, func() (tensor.Tensor, error) {
				var err error
				sm, err = activations.NewSoftmax(&activations.SoftmaxConfig{Dim: dim})
				if err != nil && sm != nil {
					return nil, fmt.Errorf("error and a result: %w", err)
				}
				return nil, err
			}); m != "" {
				return m
			}
			if sm == nil {
				continue
			}
			for _, l := range inputLists() {
				ts := mkAll(l)
				v := vInvalid
				var shape []int
				if len(l) == 1 && l[0].kind == 0 && len(l[0].shape) > dim {
					v, shape = vValid, l[0].shape
				} else if len(l) == 1 && l[0].kind == 2 {
					v = vUnspecified
				}
				if m := tc.call(fmt.Sprintf("Softmax(%d).Forward(%s)", dim, names(l)), v, shape, ts, func() (tensor.Tensor, error) { return sm.Forward(ts...) }); m != "" {
					return m
				}
			}
		}
		type fwd interface {
			Forward(...tensor.Tensor) (tensor.Tensor, error)
		}
		smNil, _ := activations.NewSoftmax(nil)
		acts := map[string]fwd{"Relu": activations.NewRelu(), "LeakyRelu(nil)": activations.NewLeakyRelu(nil), "LeakyRelu(-1)": activations.NewLeakyRelu(&activations.LeakyReluConfig{M: -1}),
			"Sigmoid": activations.NewSigmoid(), "Tanh": activations.NewTanh()}
		for _, name := range []string{"Relu", "LeakyRelu(nil)", "LeakyRelu(-1)", "Sigmoid", "Tanh"} {
			a := acts[name]
			for _, l := range inputLists() {
				ts := mkAll(l)
				v := vInvalid
				var shape []int
				if len(l) == 1 && l[0].kind == 0 {
					v, shape = vValid, l[0].shape
				} else if len(l) == 1 && l[0].kind == 2 {
					v = vUnspecified
				}
				if m := tc.call(fmt.Sprintf("%s.Forward(%s)", name, names(l)), v, shape, ts, func() (tensor.Tensor, error) { return a.Forward(ts...) }); m != "" {
					return m
				}
			}
		}
		for _, l := range inputLists() {
			ts := mkAll(l)
			v := vInvalid
			var shape []int
			if len(l) == 1 && l[0].kind == 0 && len(l[0].shape) > 0 {
				v, shape = vValid, l[0].shape
			} else if len(l) == 1 && l[0].kind == 2 {
				v = vUnspecified
			}
			if m := tc.call(fmt.Sprintf("Softmax(nil).Forward(%s)", names(l)), v, shape, ts, func() (tensor.Tensor, error) { return smNil.Forward(ts...) }); m != "" {
				return m
			}
		}
		return ""
	})
	group("losses+metric", func(tc *totalCtx) string {
		for _, a := range args {
			for _, b := range args {
				p, t := a.mk(), b.mk()
				both := a.kind == 0 && b.kind == 0
				unspec := (a.kind == 2 || b.kind == 2) && a.kind != 1 && b.kind != 1
				v1 := vInvalid
				if both && len(a.shape) == 1 && len(b.shape) == 1 && a.shape[0] == b.shape[0] {
					v1 = vValid
				}
				v2 := vInvalid
				if both && len(a.shape) == 2 && ref.SameShape(a.shape, b.shape) {
					v2 = vValid
				}
				if unspec {
					v1, v2 = vUnspecified, vUnspecified
				}
				ops := []tensor.Tensor{p, t}
				if m := tc.call(fmt.Sprintf("MSE.Compute(%s,%s)", a.name, b.name), v1, []int{}, ops, func() (tensor.Tensor, error) { return losses.NewMSE().Compute(p, t) }); m != "" {
					return m
				}
				if m := tc.call(fmt.Sprintf("BCE.Compute(%s,%s)", a.name, b.name), v1, []int{}, ops, func() (tensor.Tensor, error) { return losses.NewBCE().Compute(p, t) }); m != "" {
					return m
				}
				if m := tc.call(fmt.Sprintf("CE.Compute(%s,%s)", a.name, b.name), v2, []int{}, ops, func() (tensor.Tensor, error) { return losses.NewCE().Compute(p, t) }); m != "" {
					return m
				}
				acc := metrics.NewAccuracy()
				if m := tc.call(fmt.Sprintf("Accuracy.Accumulate(%s,%s)", a.name, b.name), v1, nil, ops, func() (tensor.Tensor, error) {
					err := acc.Accumulate(p, t)
					if _, rerr := acc.Result(); rerr != nil {
						return nil, fmt.Errorf("Result error: %w", rerr)
					}
					return nil, err
				}); m != "" {
					return m
				}
			}
		}
		return ""
	})
	group("optimizer", func(tc *totalCtx) string {
		for _, lr := range []float64{-1, 0, 0.1, math.NaN(), math.Inf(1)} {
			for _, opt := range []*optimizers.SGD{optimizers.NewSGD(nil), optimizers.NewSGD(&optimizers.SGDConfig{LearningRate: lr})} {
				if m := tc.call("SGD.Update(nil)", vInvalid, nil, nil, func() (tensor.Tensor, error) { return nil, opt.Update(nil) }); m != "" {
					return m
				}
				var nt tensor.Tensor
				if m := tc.call("SGD.Update(&nil)", vInvalid, nil, nil, func() (tensor.Tensor, error) { return nil, opt.Update(&nt) }); m != "" {
					return m
				}
				for _, s := range enum.Shapes(3, []int{1, 2}) {
					w := rt.Make(enum.Generic(s, 3, 0.5, 2, true), true)
					if m := tc.call("SGD.Update(no gradient)", vInvalid, nil, []tensor.Tensor{w}, func() (tensor.Tensor, error) { return nil, opt.Update(&w) }); m != "" {
						return m
					}
					_ = tensor.BackPropagate(w.Scale(2))
					if m := tc.call("SGD.Update(with gradient)", vValid, nil, nil, func() (tensor.Tensor, error) { return nil, opt.Update(&w) }); m != "" {
						return m
					}
					if w == nil || !ref.SameShape(w.Shape(), s) {
						return fmt.Sprintf("SGD.Update on shape %v left %v", s, shapeOrNil(w))
					}
				}
			}
		}
		return ""
	})
	group("initializers", func(tc *totalCtx) string {
		type ini interface {
			Init([]int) (tensor.Tensor, error)
		}
		try := func(name string, valid int, mk func() (ini, error)) string {
			var in ini
			if m := tc.call("New"+name, valid, nil, nil, func() (tensor.Tensor, error) {
				var err error
				in, err = mk()
				return nil, err
			}); m != "" {
				return m
			}
			if in == nil || fmt.Sprint(in) == "<nil>" {
				return ""
			}
			for _, d := range intLists(c09DimVals, 3) {
				v := vInvalid
				if dimsValid(d) {
					v = vValid
				}
				if valid == vUnspecified {
					v = vUnspecified
				}
				exp := d
				if exp == nil {
					exp = []int{}
				}
				if m := tc.call(fmt.Sprintf("%s.Init(%v)", name, d), v, exp, nil, func() (tensor.Tensor, error) { return in.Init(d) }); m != "" {
					return m
				}
			}
			return ""
		}
		params := []float64{-1, 0, 1, math.NaN(), math.Inf(1)}
		if m := try("Full(nil)", vValid, func() (ini, error) { return initializers.NewFull(nil), nil }); m != "" {
			return m
		}
		if m := try("Full(3)", vValid, func() (ini, error) { return initializers.NewFull(&initializers.FullConfig{Value: 3}), nil }); m != "" {
			return m
		}
		if m := try("Uniform(nil)", vValid, func() (ini, error) { return nilIfErr(initializers.NewUniform(nil)) }); m != "" {
			return m
		}
		if m := try("Normal(nil)", vValid, func() (ini, error) { return nilIfErrN(initializers.NewNormal(nil)) }); m != "" {
			return m
		}
		for _, a := range params {
			for _, b := range params {
				vu, vn := vInvalid, vInvalid
				if a < b {
					vu = vValid
					if math.IsInf(a, 0) || math.IsInf(b, 0) {
						vu = vUnspecified
					}
				}
				if b > 0 {
					vn = vValid
					if math.IsInf(b, 0) || math.IsNaN(a) || math.IsInf(a, 0) {
						vn = vUnspecified
					}
				}
				if math.IsNaN(a) || math.IsNaN(b) {
					vu, vn = vUnspecified, vUnspecified
				}
				if m := try(fmt.Sprintf("Uniform(%v,%v)", a, b), vu, func() (ini, error) {
					return nilIfErr(initializers.NewUniform(&initializers.UniformConfig{Lower: a, Upper: b}))
				}); m != "" {
					return m
				}
				if m := try(fmt.Sprintf("Normal(%v,%v)", a, b), vn, func() (ini, error) {
					return nilIfErrN(initializers.NewNormal(&initializers.NormalConfig{Mean: a, StdDev: b}))
				}); m != "" {
					return m
				}
			}
		}
		for _, fi := range []int{-2, -1, 0, 1, 2, 6} {
			v := b2v(fi > 0)
			if m := try(fmt.Sprintf("HeNormal(%d)", fi), v, func() (ini, error) {
				x, err := initializers.NewHeNormal(&initializers.HeNormalConfig{FanIn: fi})
				if x == nil {
					return nil, err
				}
				return x, err
			}); m != "" {
				return m
			}
			if m := try(fmt.Sprintf("HeUniform(%d)", fi), v, func() (ini, error) {
				x, err := initializers.NewHeUniform(&initializers.HeUniformConfig{FanIn: fi})
				if x == nil {
					return nil, err
				}
				return x, err
			}); m != "" {
				return m
			}
			for _, fo := range []int{-1, 0, 1, 6} {
				v := b2v(fi > 0 && fo > 0)
				if m := try(fmt.Sprintf("XavierNormal(%d,%d)", fi, fo), v, func() (ini, error) {
					x, err := initializers.NewXavierNormal(&initializers.XavierNormalConfig{FanIn: fi, FanOut: fo})
					if x == nil {
						return nil, err
					}
					return x, err
				}); m != "" {
					return m
				}
				if m := try(fmt.Sprintf("XavierUniform(%d,%d)", fi, fo), v, func() (ini, error) {
					x, err := initializers.NewXavierUniform(&initializers.XavierUniformConfig{FanIn: fi, FanOut: fo})
					if x == nil {
						return nil, err
					}
					return x, err
				}); m != "" {
					return m
				}
			}
		}
		for _, nm := range []string{"HeNormal", "HeUniform", "XavierNormal", "XavierUniform"} {
			nm := nm
			if m := try(nm+"(nil)", vInvalid, func() (ini, error) {
				switch nm {
				case "HeNormal":
					x, err := initializers.NewHeNormal(nil)
					if x == nil {
						return nil, err
					}
					return x, err
				case "HeUniform":
					x, err := initializers.NewHeUniform(nil)
					if x == nil {
						return nil, err
					}
					return x, err
				case "XavierNormal":
					x, err := initializers.NewXavierNormal(nil)
					if x == nil {
						return nil, err
					}
					return x, err
				}
				x, err := initializers.NewXavierUniform(nil)
				if x == nil {
					return nil, err
				}
				return x, err
			}); m != "" {
				return m
			}
		}
		return ""
	})
	group("layers", func(tc *totalCtx) string {
		// Input
		in := layers.NewInput()
		if m := tc.call("NewInput().Forward()", vInvalid, nil, nil, func() (tensor.Tensor, error) { return in.Forward() }); m != "" {
			return m
		}
		seed := rt.Make(enum.Labels([]int{2}, 0), false)
		in2 := layers.NewInput()
		in2.SeedFunc = func() tensor.Tensor { return seed }
		if m := tc.call("Input{SeedFunc}.Forward()", vValid, []int{2}, nil, func() (tensor.Tensor, error) { return in2.Forward() }); m != "" {
			return m
		}
		if m := tc.call("Input{SeedFunc}.Forward(x)", vInvalid, nil, nil, func() (tensor.Tensor, error) { return in2.Forward(seed) }); m != "" {
			return m
		}
		if m := tc.call("Input{SeedFunc}.Forward(nil)", vInvalid, nil, nil, func() (tensor.Tensor, error) { return in2.Forward(nil) }); m != "" {
			return m
		}
		// FC constructor
		if m := tc.call("NewFC(nil)", vInvalid, nil, nil, func() (tensor.Tensor, error) {
			fc, err := layers.NewFC(nil)
			if err != nil && fc != nil {
				return nil, fmt.Errorf("error and layer")
			}
			return nil, err
		}); m != "" {
			return m
		}
		inits := []struct {
			name  string
			m     map[string]layers.Initializer
			valid func(o int) bool
		}{
			{"default", nil, func(int) bool { return true }},
			{"empty", map[string]layers.Initializer{}, func(int) bool { return true }},
			{"nilWeight", map[string]layers.Initializer{"Weight": nil}, func(int) bool { return false }},
			{"nilBias", map[string]layers.Initializer{"Bias": nil}, func(int) bool { return false }},
			{"len2", map[string]layers.Initializer{"Weight": fixedInit{t: ref.FullOf([]int{2}, 1)}}, func(o int) bool { return o == 2 }},
			{"rank2", map[string]layers.Initializer{"Bias": fixedInit{t: ref.FullOf([]int{2, 1}, 1)}}, func(int) bool { return false }},
			{"rank0", map[string]layers.Initializer{"Bias": fixedInit{t: ref.FullOf([]int{}, 1)}}, func(int) bool { return false }},
			{"nilTensor", map[string]layers.Initializer{"Weight": fixedInit{nil_: true}}, func(int) bool { return false }},
			{"err", map[string]layers.Initializer{"Bias": errInit{}}, func(int) bool { return false }},
			{"full", map[string]layers.Initializer{"Weight": initializers.NewFull(nil), "Bias": initializers.NewFull(nil)}, func(int) bool { return true }},
		}
		for _, i := range []int{-2, -1, 0, 1, 2, 6} {
			for _, o := range []int{-2, -1, 0, 1, 2, 6} {
				for _, ini := range inits {
					v := b2v(i > 0 && o > 0 && ini.valid(o))
					var fc *layers.FC
					if m := tc.call(fmt.Sprintf("NewFC(%d,%d,%s)", i, o, ini.name), v, nil, nil, func() (tensor.Tensor, error) {
						var err error
						fc, err = layers.NewFC(&layers.FCConfig{Inputs: i, Outputs: o, Initializers: ini.m})
						if err != nil && fc != nil {
							return nil, fmt.Errorf("error and layer: %w", err)
						}
						return nil, err
					}); m != "" {
						return m
					}
					if fc == nil {
						continue
					}
					if len(fc.Weights()) != 2 {
						return "Weights() does not return two entries"
					}
					for _, l := range inputLists() {
						ts := mkAll(l)
						vv := vInvalid
						var shape []int
						if len(l) == 1 && l[0].kind == 0 && len(l[0].shape) == 2 {
							vv, shape = vValid, []int{l[0].shape[0], o}
						} else if len(l) == 1 && l[0].kind == 2 {
							vv = vUnspecified
						}
						if m := tc.call(fmt.Sprintf("FC(%d,%d).Forward(%s)", i, o, names(l)), vv, shape, ts, func() (tensor.Tensor, error) { return fc.Forward(ts...) }); m != "" {
							return m
						}
					}
				}
			}
		}
		return ""
	})
}

func nilIfErr(x *initializers.Uniform, err error) (interface {
	Init([]int) (tensor.Tensor, error)
}, error) {
	if x == nil {
		return nil, err
	}
	return x, err
}

func nilIfErrN(x *initializers.Normal, err error) (interface {
	Init([]int) (tensor.Tensor, error)
}, error) {
	if x == nil {
		return nil, err
	}
	return x, err
}

func names(l []argTensor) string {
	if l == nil {
		return "<no args>"
	}
	s := ""
	for i, a := range l {
		if i > 0 {
			s += ","
		}
		s += a.name
	}
	return "[" + s + "]"
}
