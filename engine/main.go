// qmc: bounded-exhaustive model checking of qeep (see /verif/DESIGN.md).
package main

import (
	"context"
	"encoding/json"
	"flag"
	"fmt"
	"os"
	"os/exec"
	"path/filepath"
	"sort"
	"strconv"
	"strings"
	"sync"
	"time"

	"qmc/core"
	"qmc/enum"
)

type Check struct {
	ID          string
	Fn          func(c *core.Ctx)
	Rule        string // how cases are enumerated and what makes one non-trivial
	Assumptions []string
	Shards      int           // 0 = default (16)
	Procs       int           // GOMAXPROCS of each worker (0 = 2)
	Cap         time.Duration // thorough time cap per worker (0 = default)
	Bounds      func(thorough bool) map[string]any
	Post        func(tier string, seed int64, m *core.Part) // optional parent-side phase (e.g. -race pass)
}

var registry = map[string]*Check{}

// sweepRule: what checks_sweep.go / checks_grid.go / checks_soak.go add to a
// check's own small-scope enumeration (appended to its rule text in the evidence).
const sweepRule = " PLUS, beyond the small scope: (a) length sweeps - a fixed family of this check's configurations for EVERY length L of one designated dimension, L = 1..40 (thorough 1..300), every power of two 32..4096 (thorough 8192) with both neighbours, round sizes up to 3072 (10000), and every integer constant occurring in the library's CURRENT source (code-derived sizes n-1, n, n+1, small multiples), other dimensions 1..3; (b) grid sweeps - the families over all pairs of 10 (thorough 19) and all triples of 6 (9) medium sizes 4..64 (128), and over shapes of rank 1-3 whose element count is just above 4096, 16384, 65536 (thorough 2^18, 2^20) and above every code-derived integer; (c) soak histories - several hundred (thorough 4000) steps of a rotating list of the check's configurations in one process with fresh operands per step, one set of component objects and runtime.GC() every 8 steps, in two rotation orders. Same reference-model oracle."

var sweptChecks = map[string]bool{"C01": true, "C02": true, "C03": true, "C04": true, "C05": true, "C06": true, "C07": true, "C11": true, "C12": true, "C13": true, "C14": true, "C15": true, "C16": true, "C17": true, "C19": true}

func register(c *Check) {
	if sweptChecks[c.ID] {
		c.Rule += sweepRule
		fn := c.Fn
		c.Fn = func(x *core.Ctx) {
			if x.Shard == 0 {
				x.Note("integer constants found in the library's current source (used as additional lengths / element counts / operand counts): %v", core.CodeInts(2, 1<<21))
			}
			fn(x)
		}
		c.Assumptions = append(c.Assumptions, "sweeps: one long dimension at a time (others 1..3), pairs / triples of medium sizes, element counts near the listed and code-derived thresholds; not every shape")
	}
	registry[c.ID] = c
}

func main() {
	if len(os.Args) < 2 {
		usage()
	}
	switch os.Args[1] {
	case "check":
		os.Exit(cmdCheck(os.Args[2:]))
	case "worker":
		os.Exit(cmdWorker(os.Args[2:]))
	case "replay":
		os.Exit(cmdReplay(os.Args[2:]))
	case "racepass":
		os.Exit(cmdRacePass(os.Args[2:]))
	case "selftest":
		os.Exit(cmdSelftest())
	case "list":
		ids := []string{}
		for id := range registry {
			ids = append(ids, id)
		}
		sort.Strings(ids)
		fmt.Println(strings.Join(ids, " "))
	default:
		usage()
	}
}

func usage() {
	fmt.Fprintln(os.Stderr, "usage: qmc check <Cxx> [--tier quick|thorough] | qmc replay <path> | qmc selftest | qmc list")
	os.Exit(2)
}

// workerLimit: hard wall limit of one worker process (a worker that exceeds it
// is killed and the check is reported broken, never silently passed).
func workerLimit(tier string, capS int) time.Duration {
	if tier == "thorough" {
		return time.Duration(capS)*time.Second + 10*time.Minute
	}
	return 20 * time.Minute
}

func envSeed() int64 {
	if s := os.Getenv("VERIF_SEED"); s != "" {
		if v, err := strconv.ParseInt(s, 10, 64); err == nil {
			return v
		}
	}
	return 1
}

func cmdWorker(args []string) int {
	fs := flag.NewFlagSet("worker", flag.ExitOnError)
	tier := fs.String("tier", "quick", "")
	seed := fs.Int64("seed", 1, "")
	shard := fs.Int("shard", 0, "")
	nshards := fs.Int("nshards", 1, "")
	out := fs.String("out", "", "")
	only := fs.String("only", "", "")
	capS := fs.Int("cap", 0, "")
	id := args[0]
	fs.Parse(args[1:])
	chk := registry[id]
	if chk == nil {
		fmt.Fprintln(os.Stderr, "unknown check", id)
		return 2
	}
	c := core.NewCtx(id, *tier, *seed, *shard, *nshards)
	enum.SetSeed(*seed)
	enum.Deep = *tier == "thorough"
	c.Only = *only
	c.KFListed = map[string]bool{}
	for _, f := range core.LoadKnownFindings() {
		if f.Prop == id {
			c.KFListed[f.Matcher] = true
		}
	}
	if *capS > 0 {
		c.Deadline = time.Now().Add(time.Duration(*capS) * time.Second)
	}
	if s := os.Getenv("QMC_CASE_TIMEOUT_S"); s != "" {
		if v, err := strconv.Atoi(s); err == nil {
			c.CaseTimeout = time.Duration(v) * time.Second
		}
	}
	chk.Fn(c)
	b, _ := json.Marshal(&c.P)
	if c.Hung {
		// a hung case goroutine is still spinning: write the part and leave at once
		if *out != "" {
			os.WriteFile(*out, b, 0o644)
		} else {
			os.Stdout.Write(b)
		}
		os.Exit(0)
	}
	if *out == "" {
		os.Stdout.Write(b)
	} else if err := os.WriteFile(*out, b, 0o644); err != nil {
		fmt.Fprintln(os.Stderr, err)
		return 2
	}
	return 0
}

func cmdCheck(args []string) int {
	fs := flag.NewFlagSet("check", flag.ExitOnError)
	tier := fs.String("tier", "", "")
	only := fs.String("only", "", "")
	id := args[0]
	fs.Parse(args[1:])
	if *tier == "" {
		*tier = os.Getenv("VERIF_TIER")
	}
	if *tier != "thorough" {
		*tier = "quick"
	}
	chk := registry[id]
	if chk == nil {
		fmt.Fprintln(os.Stderr, "unknown check", id)
		return 2
	}
	seed := envSeed()
	start := time.Now()

	n := chk.Shards
	if n == 0 {
		n = 16
	}
	if *only != "" {
		n = 1
	}
	capS := 0
	if *tier == "thorough" {
		capD := chk.Cap
		if capD == 0 {
			capD = 25 * time.Minute
		}
		capS = int(capD.Seconds())
		if s := os.Getenv("QMC_CAP_S"); s != "" {
			if v, err := strconv.Atoi(s); err == nil {
				capS = v
			}
		}
	}
	exe, _ := os.Executable()
	tmp, err := os.MkdirTemp(filepath.Join(core.VerifDir, "evidence"), ".parts-"+id+"-")
	if err != nil {
		os.MkdirAll(filepath.Join(core.VerifDir, "evidence"), 0o755)
		tmp, err = os.MkdirTemp(filepath.Join(core.VerifDir, "evidence"), ".parts-"+id+"-")
		if err != nil {
			fmt.Fprintln(os.Stderr, err)
			return 2
		}
	}
	defer os.RemoveAll(tmp)

	parts := make([]*core.Part, n)
	var wg sync.WaitGroup
	broken := make([]string, n)
	for i := 0; i < n; i++ {
		wg.Add(1)
		go func(i int) {
			defer wg.Done()
			out := filepath.Join(tmp, fmt.Sprintf("part%d.json", i))
			wa := []string{"worker", id, "--tier", *tier, "--seed", fmt.Sprint(seed), "--shard", fmt.Sprint(i), "--nshards", fmt.Sprint(n), "--out", out, "--cap", fmt.Sprint(capS)}
			if *only != "" {
				wa = append(wa, "--only", *only)
			}
			ctx, cancel := context.WithTimeout(context.Background(), workerLimit(*tier, capS))
			defer cancel()
			cmd := exec.CommandContext(ctx, exe, wa...)
			procs := chk.Procs
			if procs == 0 {
				procs = 2
			}
			cmd.Env = append(os.Environ(), fmt.Sprintf("GOMAXPROCS=%d", procs))
			logf := filepath.Join(tmp, fmt.Sprintf("log%d.txt", i))
			lf, _ := os.Create(logf)
			cmd.Stdout, cmd.Stderr = lf, lf
			err := cmd.Run()
			lf.Close()
			b, rerr := os.ReadFile(out)
			if err != nil || rerr != nil {
				lb, _ := os.ReadFile(logf)
				tail := string(lb)
				if len(tail) > 4000 {
					tail = tail[len(tail)-4000:]
				}
				broken[i] = fmt.Sprintf("worker %d failed: %v %v\n%s", i, err, rerr, tail)
				return
			}
			p := &core.Part{}
			if err := json.Unmarshal(b, p); err != nil {
				broken[i] = fmt.Sprintf("worker %d: bad part file: %v", i, err)
				return
			}
			parts[i] = p
		}(i)
	}
	wg.Wait()
	var good []*core.Part
	brokenMsg := ""
	for i, p := range parts {
		if p != nil {
			good = append(good, p)
		} else if brokenMsg == "" {
			brokenMsg = broken[i]
		}
	}
	m := core.Merge(good)
	if brokenMsg != "" && m.Broken == "" {
		m.Broken = brokenMsg
	}
	if chk.Post != nil && m.Broken == "" && *only == "" {
		chk.Post(*tier, seed, m)
	}
	wall := time.Since(start).Seconds()

	// known findings listed for this property
	listed := map[string]core.KnownFinding{}
	for _, f := range core.LoadKnownFindings() {
		if f.Prop == id {
			listed[f.Matcher] = f
		}
	}
	if *only == "" {
		writeEvidence(chk, *tier, seed, m, wall)
	}
	kfs := []string{}
	for k := range m.KFHits {
		kfs = append(kfs, k)
	}
	sort.Strings(kfs)
	for _, k := range kfs {
		f := listed[k]
		fmt.Printf("KNOWN-FINDING: property=%s id=%s matcher=%s hits=%d first_case=%s %s\n", id, f.ID, k, m.KFHits[k], m.KFExamples[k], f.Text)
	}
	fmt.Printf("%s tier=%s seed=%d evaluations=%d nontrivial=%d skipped=%d states=%d transitions=%d violations=%d capped=%v wall=%.1fs\n",
		id, *tier, seed, m.Evaluations, m.Nontrivial, m.Skipped, m.States, m.Transitions, len(m.Violations), m.Capped, wall)
	for _, n := range m.Notes {
		fmt.Println("note:", n)
	}
	{
		ks := []string{}
		for k := range m.Counters {
			if strings.HasPrefix(k, "violating_cases_by_class:") {
				ks = append(ks, k)
			}
		}
		sort.Strings(ks)
		for _, k := range ks {
			fmt.Printf("  %s = %d\n", k, m.Counters[k])
		}
	}
	if m.Broken != "" {
		fmt.Fprintf(os.Stderr, "BROKEN CHECK %s: %s\n", id, m.Broken)
		return 2
	}
	if len(m.Violations) > 0 {
		for i, v := range m.Violations {
			if i >= 12 {
				fmt.Printf("... %d more recorded violations (see evidence/replays)\n", len(m.Violations)-i)
				break
			}
			fmt.Printf("VIOLATION property=%s replay=%s\n", id, v.Replay)
			d := v.Detail
			if len(d) > 1500 {
				d = d[:1500] + "..."
			}
			fmt.Printf("  case %s: %s\n", v.CaseID, d)
		}
		return 1
	}
	return 0
}

func writeEvidence(chk *Check, tier string, seed int64, m *core.Part, wall float64) {
	states, trans, traces := m.States, m.Transitions, m.Traces
	if states == 0 {
		states = m.Evaluations
	}
	if trans == 0 {
		trans = m.Evaluations
	}
	if traces == 0 {
		traces = m.Evaluations - m.Skipped
	}
	samples := m.Samples
	if len(samples) == 0 {
		samples = []any{"(no sample recorded)"}
	}
	cov := map[string]any{
		"evaluations":                   m.Evaluations,
		"distinct_nontrivial":           m.Nontrivial,
		"rule":                          chk.Rule,
		"samples":                       samples,
		"states":                        states,
		"transitions":                   trans,
		"traces_validated_against_impl": traces,
		"skipped_not_judged":            m.Skipped,
		"exhaustive":                    !m.Capped,
		"duplicate_case_ids":            m.DupIDs,
		"known_finding_hits":            m.KFHits,
		"counters":                      m.Counters,
		"distinct_outcomes":             len(m.Outcomes),
		"notes":                         m.Notes,
	}
	if len(m.Outcomes) > 0 && len(m.Outcomes) <= 64 {
		cov["outcomes"] = m.Outcomes
	}
	if m.Capped {
		cov["cap"] = m.CapNote
	}
	if chk.Bounds != nil {
		cov["bounds"] = chk.Bounds(tier == "thorough" || core.PromotedQuick[chk.ID])
		if tier != "thorough" && core.PromotedQuick[chk.ID] {
			cov["bounds_note"] = "quick tier runs the thorough bounds of this property (cheap); the thorough tier adds the deep extensions"
		}
	}
	ev := map[string]any{
		"property_id": chk.ID,
		"tier":        tier,
		"seed":        seed,
		"level":       "model_checking",
		"coverage":    cov,
		"assumptions": chk.Assumptions,
		"wall_s":      wall,
		"violations":  len(m.Violations),
	}
	b, _ := json.MarshalIndent(ev, "", " ")
	os.MkdirAll(filepath.Join(core.VerifDir, "evidence"), 0o755)
	os.WriteFile(filepath.Join(core.VerifDir, "evidence", chk.ID+".json"), b, 0o644)
}

func cmdReplay(args []string) int {
	if len(args) < 1 {
		usage()
	}
	b, err := os.ReadFile(args[0])
	if err != nil {
		fmt.Fprintln(os.Stderr, err)
		return 2
	}
	var doc struct {
		Property string `json:"property"`
		Tier     string `json:"tier"`
		Seed     int64  `json:"seed"`
		CaseID   string `json:"case_id"`
		Detail   string `json:"detail"`
	}
	if err := json.Unmarshal(b, &doc); err != nil {
		fmt.Fprintln(os.Stderr, err)
		return 2
	}
	chk := registry[doc.Property]
	if chk == nil {
		fmt.Fprintln(os.Stderr, "unknown property in replay file:", doc.Property)
		return 2
	}
	fmt.Printf("replaying %s case %q (tier %s, seed %d) against the current /repo tree\n", doc.Property, doc.CaseID, doc.Tier, doc.Seed)
	c := core.NewCtx(doc.Property, doc.Tier, doc.Seed, 0, 1)
	enum.SetSeed(doc.Seed)
	enum.Deep = doc.Tier == "thorough"
	c.Only = doc.CaseID
	c.KFListed = map[string]bool{}
	chk.Fn(c)
	if c.P.Evaluations == 0 {
		fmt.Println("case id not found in the enumeration (different tier/seed or changed generator)")
		return 2
	}
	if len(c.P.Violations) > 0 {
		fmt.Printf("REPRODUCED: %s\n", c.P.Violations[0].Detail)
		return 1
	}
	fmt.Println("case passes on the current tree")
	return 0
}
