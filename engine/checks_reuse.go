package main

import (
	"fmt"
	"strings"

	"qmc/core"
	"qmc/enum"
	"qmc/ref"
	"qmc/rt"
)

/* Component objects are long-lived in real programs: one activation / loss
   object serves many forward and backward passes. These histories call ONE
   object several times (different shapes, tracked or not, with or without a
   back-propagation in between) and compare every call with the model. */

type reuseEv struct {
	shape   int
	tracked bool
	bp      bool
}

func reuseEvents(nShapes int) []reuseEv {
	var out []reuseEv
	for s := 0; s < nShapes; s++ {
		for _, tr := range []bool{true, false} {
			for _, bp := range []bool{true, false} {
				out = append(out, reuseEv{s, tr, bp})
			}
		}
	}
	return out
}

func (e reuseEv) String() string { return fmt.Sprintf("s%d/t%v/bp%v", e.shape, e.tracked, e.bp) }

// forEachReuseHistory enumerates all sequences of 1..depth events.
func forEachReuseHistory(evs []reuseEv, depth int, f func(h []reuseEv, id string)) {
	var rec func(h []reuseEv, id string)
	rec = func(h []reuseEv, id string) {
		if len(h) > 0 {
			f(h, id)
		}
		if len(h) == depth {
			return
		}
		for _, e := range evs {
			rec(append(append([]reuseEv{}, h...), e), id+"|"+e.String())
		}
	}
	rec(nil, "")
}

// reuseActivations: used by C14 (values, withGrad=false) and C15 (gradients).
func reuseActivations(c *core.Ctx, withGrad bool) {
	shapes := [][]int{{4}, {2, 2}, {3}, {1, 4}} // [4], [2,2] and [1,4] share an element count
	depth := 3
	acts := []ref.Op{{K: "Relu"}, {K: "LeakyRelu", F: 0.3}, {K: "Sigmoid"}, {K: "TanhAct"}, {K: "Softmax", Dim: 0}}
	evs := reuseEvents(len(shapes))
	for _, act := range acts {
		run := func(h []reuseEv, id string) {
			if !withGrad {
				// values only: the bp flag is irrelevant, keep one representative
				if strings.HasPrefix(id, "|long") {
					h = append([]reuseEv{}, h...)
					for i := range h {
						h[i].bp = false
					}
				}
				for _, e := range h {
					if e.bp {
						return
					}
				}
			}
			act := act
			c.Case(fmt.Sprintf("reuse/%s%s", act, id), len(h) > 1, func() core.Verdict {
				rt.ObjCache = map[string]any{}
				defer func() { rt.ObjCache = nil }()
				for k, e := range h {
					x := enum.Generic(shapes[e.shape], uint64(1300+k), 0.2, 2, true)
					p := &ref.Program{Leaves: []*ref.T{x}, Tracked: []bool{e.tracked}, Nodes: []ref.Node{{Op: act, In: []int{0}}}}
					var v core.Verdict
					if withGrad && e.bp {
						q, root := withWeighting(p, 1, uint64(40+k))
						v = gradCase(q, root, gradOpts{allowKF: true})
					} else {
						v = forwardCase(p)
					}
					if v.KF != "" {
						return core.Verdict{KF: v.KF, Detail: v.Detail}
					}
					if !v.OK && !v.Skip {
						return core.Fail("call %d of %d on ONE %s object (events %s): %s", k+1, len(h), act, id, v.Detail)
					}
				}
				return core.Pass()
			})
		}
		forEachReuseHistory(evs, depth, run)
		for id, h := range longHistories(evs) {
			run(h, "|"+id)
		}
	}
}

// longHistories: twelve calls on ONE object, alternating between two shapes
// (and, separately, twelve calls with one shape): counters, caches keyed by the
// previous call, "every n-th call" logic.
func longHistories(evs []reuseEv) map[string][]reuseEv {
	out := map[string][]reuseEv{}
	for a := 0; a < 2; a++ {
		for b := a; b < 3; b++ {
			var h []reuseEv
			for k := 0; k < 12; k++ {
				s := a
				if k%2 == 1 {
					s = b
				}
				h = append(h, reuseEv{shape: s, tracked: k%3 != 2, bp: k%4 != 3})
			}
			out[fmt.Sprintf("long/s%d-s%d", a, b)] = h
		}
	}
	return out
}

// forwardCase: run the program on model and real code, compare all values.
func forwardCase(p *ref.Program) core.Verdict {
	vals, ok := p.Forward()
	if !ok {
		return core.Fail("HARNESS: invalid program")
	}
	ts, failed, err := rt.RunProgram(p)
	if err != nil {
		return core.Fail("forward node %d (%s): %v", failed, p.Nodes[failed].Op, err)
	}
	for i := range ts {
		if okc, msg := core.Close(rt.Read(ts[i]), vals[i], scaleOf(vals...)); !okc {
			return core.Fail("value of tensor %d: %s", i, msg)
		}
	}
	return core.Pass()
}

// reuseLosses: used by C12 (values) and C13 (gradients).
func reuseLosses(c *core.Ctx, withGrad bool) {
	depth := 3
	type shp struct{ one, two []int }
	shapes := []shp{{[]int{3}, []int{2, 2}}, {[]int{2}, []int{1, 4}}, {[]int{4}, []int{4, 1}}} // CE shapes share an element count
	// event.tracked = targets tracked (the prediction is always tracked)
	evs := reuseEvents(len(shapes))
	for _, kind := range []string{"MSE", "BCE", "CE"} {
		run := func(h []reuseEv, id string) {
			if !withGrad {
				if strings.HasPrefix(id, "|long") {
					h = append([]reuseEv{}, h...)
					for i := range h {
						h[i].bp = false
					}
				}
				for _, e := range h {
					if e.bp {
						return
					}
				}
			}
			kind := kind
			c.Case(fmt.Sprintf("reuse/%s%s", kind, id), len(h) > 1, func() core.Verdict {
				rt.ObjCache = map[string]any{}
				defer func() { rt.ObjCache = nil }()
				for k, e := range h {
					s := shapes[e.shape].one
					if kind == "CE" {
						s = shapes[e.shape].two
					}
					pr := enum.Generic(s, uint64(1400+k), 0.1, 0.9, false)
					tg := enum.Generic(s, uint64(1450+k), 0.1, 0.9, false)
					p := &ref.Program{Leaves: []*ref.T{pr, tg}, Tracked: []bool{true, e.tracked}, Nodes: []ref.Node{{Op: ref.Op{K: kind}, In: []int{0, 1}}}}
					var v core.Verdict
					if withGrad && e.bp {
						v = gradCase(p, 2, gradOpts{})
					} else {
						v = forwardCase(p)
					}
					if !v.OK && !v.Skip {
						return core.Fail("call %d of %d on ONE %s object (events %s; tracked = targets tracked): %s", k+1, len(h), kind, id, v.Detail)
					}
				}
				return core.Pass()
			})
		}
		forEachReuseHistory(evs, depth, run)
		for id, h := range longHistories(evs) {
			run(h, "|"+id)
		}
	}
}
