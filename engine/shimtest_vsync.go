//go:build vsync

package main

import (
	"fmt"
	"time"

	vsync "github.com/sahandsafizadeh/qeep/verifsync"
	vatomic "github.com/sahandsafizadeh/qeep/verifsync/atomic"
	"qmc/sched"
)

// shimSelftest validates the scheduler + sync shim on small programs with a
// known answer (the explorer must FIND the lock-order deadlock and the lost
// update, and must find nothing in their correct variants). It returns a
// description of the first failed expectation and the schedules executed.
func init() { shimSelftest = shimSelftestImpl }

func shimSelftestImpl() (string, int64) {
	var total int64
	type prog struct {
		name   string
		mk     func() ([]func() any, func(x *sched.Exec) string) // bodies, per-execution oracle ("" = fine)
		expect string                                            // "none" or a substring of the finding that MUST be reported
	}
	progs := []prog{
		{"lock order a,b || b,a", func() ([]func() any, func(*sched.Exec) string) {
			var a, b vsync.Mutex
			t := func(x, y *vsync.Mutex) func() any {
				return func() any { x.Lock(); y.Lock(); y.Unlock(); x.Unlock(); return nil }
			}
			return []func() any{t(&a, &b), t(&b, &a)}, func(*sched.Exec) string { return "" }
		}, "deadlock"},
		{"lock order a,b || a,b", func() ([]func() any, func(*sched.Exec) string) {
			var a, b vsync.Mutex
			n := 0
			t := func(x, y *vsync.Mutex) func() any {
				return func() any {
					x.Lock()
					y.Lock()
					n++
					y.Unlock()
					x.Unlock()
					return nil
				}
			}
			return []func() any{t(&a, &b), t(&a, &b), t(&a, &b)}, func(*sched.Exec) string {
				if n != 3 {
					return fmt.Sprintf("counter %d", n)
				}
				return ""
			}
		}, "none"},
		{"atomic load;store increment x2", func() ([]func() any, func(*sched.Exec) string) {
			var v int64
			t := func() any { x := vatomic.LoadInt64(&v); vatomic.StoreInt64(&v, x+1); return nil }
			return []func() any{t, t}, func(*sched.Exec) string {
				if v != 2 {
					return fmt.Sprintf("lost update: counter %d", v)
				}
				return ""
			}
		}, "lost update"},
		{"atomic add x3", func() ([]func() any, func(*sched.Exec) string) {
			var v vatomic.Int64
			t := func() any { v.Add(1); return nil }
			return []func() any{t, t, t}, func(*sched.Exec) string {
				if v.Load() != 3 {
					return "lost update"
				}
				return ""
			}
		}, "none"},
		{"go + WaitGroup + Mutex", func() ([]func() any, func(*sched.Exec) string) {
			var mu vsync.Mutex
			var got []int
			body := func() any {
				var wg vsync.WaitGroup
				for i := 0; i < 2; i++ {
					i := i
					wg.Add(1)
					vsync.Go(func() { defer wg.Done(); mu.Lock(); got = append(got, i); mu.Unlock() })
				}
				wg.Wait()
				return len(got)
			}
			return []func() any{body}, func(x *sched.Exec) string {
				if len(got) != 2 || x.Results[0] != 2 || x.Threads != 3 {
					return fmt.Sprintf("got %v result %v threads %d", got, x.Results[0], x.Threads)
				}
				return ""
			}
		}, "none"},
		{"WaitGroup.Wait without Done", func() ([]func() any, func(*sched.Exec) string) {
			body := func() any {
				var wg vsync.WaitGroup
				wg.Add(2)
				vsync.Go(func() { wg.Done() })
				wg.Wait()
				return nil
			}
			return []func() any{body}, func(*sched.Exec) string { return "" }
		}, "deadlock"},
		{"Once x3", func() ([]func() any, func(*sched.Exec) string) {
			var once vsync.Once
			n := 0
			t := func() any { once.Do(func() { sched.Point("in once"); n++ }); return n }
			return []func() any{t, t, t}, func(x *sched.Exec) string {
				for _, r := range x.Results {
					if r != 1 {
						return fmt.Sprintf("Do returned before the function completed or ran it twice: %v", x.Results)
					}
				}
				return ""
			}
		}, "none"},
		{"check-then-act under RLock", func() ([]func() any, func(*sched.Exec) string) {
			var mu vsync.RWMutex
			cache := map[int]int{}
			fills := 0
			t := func() any {
				mu.RLock()
				_, ok := cache[1]
				mu.RUnlock()
				if !ok {
					mu.Lock()
					cache[1] = 7
					fills++
					mu.Unlock()
				}
				return nil
			}
			return []func() any{t, t}, func(*sched.Exec) string {
				if fills != 1 {
					return fmt.Sprintf("filled %d times", fills)
				}
				return ""
			}
		}, "filled 2 times"},
		{"recursive RLock with a writer", func() ([]func() any, func(*sched.Exec) string) {
			var mu vsync.RWMutex
			reader := func() any { mu.RLock(); mu.RLock(); mu.RUnlock(); mu.RUnlock(); return nil }
			writer := func() any { mu.Lock(); mu.Unlock(); return nil }
			return []func() any{reader, writer}, func(*sched.Exec) string { return "" }
		}, "deadlock"},
		{"RLock x2 with a writer, not nested", func() ([]func() any, func(*sched.Exec) string) {
			var mu vsync.RWMutex
			n := 0
			reader := func() any { mu.RLock(); mu.RUnlock(); mu.RLock(); mu.RUnlock(); return nil }
			writer := func() any { mu.Lock(); n++; mu.Unlock(); return nil }
			return []func() any{reader, writer, reader}, func(*sched.Exec) string {
				if n != 1 {
					return "writer did not run"
				}
				return ""
			}
		}, "none"},
		{"Cond producer/consumer", func() ([]func() any, func(*sched.Exec) string) {
			var mu vsync.Mutex
			cond := vsync.NewCond(&mu)
			ready := false
			cons := func() any {
				mu.Lock()
				for !ready {
					cond.Wait()
				}
				mu.Unlock()
				return "seen"
			}
			prod := func() any { mu.Lock(); ready = true; cond.Broadcast(); mu.Unlock(); return nil }
			return []func() any{cons, prod, cons}, func(x *sched.Exec) string {
				if x.Results[0] != "seen" || x.Results[2] != "seen" {
					return "consumer did not finish"
				}
				return ""
			}
		}, "none"},
	}
	// a worker goroutine that the code starts and parks for ever is not a deadlock once every body has returned
	progs = append(progs, prog{"parked daemon worker", func() ([]func() any, func(*sched.Exec) string) {
		var mu vsync.Mutex
		cond := vsync.NewCond(&mu)
		body := func() any {
			vsync.Go(func() { mu.Lock(); cond.Wait(); mu.Unlock() })
			mu.Lock()
			mu.Unlock()
			return "done"
		}
		return []func() any{body, body}, func(x *sched.Exec) string {
			if x.Results[0] != "done" || x.Results[1] != "done" {
				return "body did not finish"
			}
			return ""
		}
	}, "none"})
	// a thread that spins on an atomic flag exhausts the decision budget: abandoned, not judged
	{
		saved := sched.MaxPoints
		sched.MaxPoints = 3000
		var flag vatomic.Bool
		spin := func() any {
			for !flag.Load() {
			}
			return nil
		}
		set := func() any { flag.Store(true); return nil }
		x, err := sched.Run([]func() any{spin, set}, nil, 10*time.Second)
		flag.Store(true) // release the abandoned spinner
		sched.MaxPoints = saved
		sched.Tainted = false
		if err != nil || !x.Hung || x.Deadlock != "" {
			return fmt.Sprintf("spinning thread: expected the execution to be abandoned on its decision budget, got err=%v hung=%v deadlock=%q after %d decisions", err, x.Hung, x.Deadlock, len(x.Points)), total
		}
		total++
	}
	for _, p := range progs {
		var oracle func(*sched.Exec) string
		mk := func() []func() any {
			bodies, o := p.mk()
			oracle = o
			return bodies
		}
		found := ""
		st, err := sched.Explore(mk, 2, 200000, 10*time.Second, time.Time{}, func(x *sched.Exec) bool {
			switch {
			case x.Deadlock != "":
				found = "deadlock: " + x.Deadlock
			case x.Hung:
				found = "hung"
			case x.ChildPanic != "":
				found = "panic: " + x.ChildPanic
			default:
				for _, r := range x.Results {
					if s, ok := r.(string); ok && len(s) > 5 && s[:6] == "PANIC:" {
						found = s
					}
				}
				if found == "" {
					found = oracle(x)
				}
			}
			return found == ""
		})
		for _, e := range st.PerBound {
			total += e
		}
		if err != nil {
			return fmt.Sprintf("%s: %v", p.name, err), total
		}
		if p.expect == "none" {
			if found != "" {
				return fmt.Sprintf("%s: correct program reported as faulty: %s", p.name, found), total
			}
			if st.PerBound[len(st.PerBound)-1] < 2 {
				return fmt.Sprintf("%s: only %d schedule(s) explored", p.name, st.PerBound[len(st.PerBound)-1]), total
			}
		} else if found == "" || !contains(found, p.expect) {
			return fmt.Sprintf("%s: expected the explorer to report '%s', it reported '%s' after %v schedules", p.name, p.expect, found, st.PerBound), total
		}
	}
	return "", total
}

func contains(s, sub string) bool {
	for i := 0; i+len(sub) <= len(s); i++ {
		if s[i:i+len(sub)] == sub {
			return true
		}
	}
	return false
}
