package main

import (
	"fmt"
	"math"

	"github.com/sahandsafizadeh/qeep/tensor"

	"qmc/core"
	"qmc/enum"
	"qmc/ref"
	"qmc/rt"
)

// Special DATA (round 16, DESIGN 9.11): operand values that a data-dependent shortcut would single out - all
// zeros, all ones, rows that sum to exactly zero without being zero, interleaved all-zero rows, one operand
// dominating the other everywhere, values closer together than the library's equality tolerance - and an
// upstream gradient that is zero in every element. The enumerations of the first fifteen rounds used generic
// (all-distinct, irregular) values plus value classes on tiny tensors, so a shortcut keyed on such data was
// never taken.

// specialData returns the named special tensors of a shape (patterns that need a last dimension >= 2 or at
// least two rows are left out when the shape does not have them).
func specialData(shape []int, salt uint64) map[string]*ref.T {
	out := map[string]*ref.T{}
	n := ref.Size(shape)
	out["zeros"] = ref.FullOf(shape, 0)
	out["ones"] = ref.FullOf(shape, 1)
	last := 1
	if len(shape) > 0 {
		last = shape[len(shape)-1]
	}
	g := enum.Generic(shape, salt, 0.5, 3, true)
	if last >= 2 {
		z := g.Clone()
		for r := 0; r < n/last; r++ {
			for j := 0; j+1 < last; j += 2 {
				z.V[r*last+j+1] = -z.V[r*last+j]
			}
			if last%2 == 1 {
				z.V[r*last+last-1] = 0
			}
		}
		out["zerosumrows"] = z
	}
	if last >= 1 && n/last >= 2 {
		z := g.Clone()
		for r := 0; r < n/last; r += 2 {
			for j := 0; j < last; j++ {
				z.V[r*last+j] = 0
			}
		}
		out["zerorows"] = z
	}
	return out
}

// smoothEverywhere: operations differentiable at every operand value (so at the special data as well).
var smoothUnary = map[string]bool{"Scale": true, "Exp": true, "Sin": true, "Cos": true, "Tanh": true, "Sinh": true, "Cosh": true,
	"SumAlong": true, "MeanAlong": true, "AvgAlong": true, "VarAlong": true, "Transpose": true, "Reshape": true, "Flatten": true,
	"Squeeze": true, "UnSqueeze": true, "Slice": true}
var smoothBinary = map[string]bool{"Add": true, "Sub": true, "Mul": true, "Dot": true, "MatMul": true, "Patch": true}

// specialC02: every single-operation configuration of small shapes with special operand data and, for each,
// the plain, the weighted and the ALL-ZERO upstream gradient (wi 6): gradients stay non-nil, of the operand's
// shape and equal to the vector-Jacobian product (zeros where that is zero).
func specialC02(c *core.Ctx) {
	o := c02Opts(false)
	var shapes [][]int
	for _, s := range o.shapes {
		if len(s) <= 3 && ref.Size(s) <= 12 {
			shapes = append(shapes, s)
		}
	}
	o.shapes = shapes
	forEachOpCase(o, func(oc OpCase) {
		k := oc.Op.K
		if k == "Pow" && (oc.Op.F < 1 || oc.Op.F != math.Trunc(oc.Op.F)) {
			return
		}
		unary := len(oc.In) == 1 && (smoothUnary[k] || k == "Pow")
		binary := len(oc.In) == 2 && (smoothBinary[k] || k == "Div" || k == "ElMax" || k == "ElMin")
		if !unary && !binary && k != "Concat" {
			return
		}
		type variant struct {
			name string
			in   []*ref.T
		}
		var vs []variant
		base := genInputs(oc.Op, oc.In, 301)
		for i := range oc.In {
			if k == "Div" && i == 1 {
				continue // the divisor stays generic (non-zero)
			}
			for name, t := range specialData(oc.In[i], 311) {
				if (k == "ElMax" || k == "ElMin") && name != "zerosumrows" && name != "zerorows" {
					continue // constant operands are fine, but keep ties out: handled by the domination variants below
				}
				in := append([]*ref.T{}, base...)
				in[i] = t
				vs = append(vs, variant{fmt.Sprintf("%s@%d", name, i), in})
			}
		}
		if len(oc.In) == 2 && (smoothBinary[k]) {
			vs = append(vs, variant{"zeros@both", []*ref.T{ref.FullOf(oc.In[0], 0), ref.FullOf(oc.In[1], 0)}})
		}
		if k == "ElMax" || k == "ElMin" {
			hi := ref.Map(base[0], func(v float64) float64 { return math.Abs(v) + 10 })
			lo := ref.Map(base[1], func(v float64) float64 { return -math.Abs(v) - 10 })
			vs = append(vs, variant{"dominates@0", []*ref.T{hi, base[1]}}, variant{"dominated@0", []*ref.T{lo, base[1]}},
				variant{"zeros-below", []*ref.T{ref.FullOf(oc.In[0], 0), ref.Map(base[1], func(v float64) float64 { return math.Abs(v) })}},
				variant{"zeros-above", []*ref.T{ref.FullOf(oc.In[0], 0), ref.Map(base[1], func(v float64) float64 { return -math.Abs(v) })}})
		}
		n := len(oc.In)
		for _, v := range vs {
			if _, ok := ref.Eval(oc.Op, v.in); !ok {
				continue
			}
			tie := false
			if k == "ElMax" || k == "ElMin" {
				for i := range v.in[0].V {
					if v.in[0].V[i] == v.in[1].V[i] {
						tie = true
					}
				}
			}
			if tie {
				continue
			}
			for mask := 1; mask < 1<<n; mask++ {
				for _, wi := range []int{0, 1, 6} {
					v, mask, wi := v, mask, wi
					c.Case(fmt.Sprintf("special/%s|%s|m%d|w%d", oc.ID(), v.name, mask, wi), true, func() core.Verdict {
						r := c02Run(oc, v.in, mask, wi)
						if !r.OK && !r.Skip {
							r.Detail = "special operand data (" + v.name + "): " + r.Detail
						}
						return r
					})
				}
			}
		}
	})
}

// specialC04: MatMul / Dot / Transpose with special operand data (zero-sum rows, interleaved zero rows, all
// zeros, all ones) in either operand position, against the triple-loop model.
func specialC04(c *core.Ctx) {
	for _, bt := range [][]int{{}, {2}, {1, 2}} {
		for m := 1; m <= 3; m++ {
			for n := 1; n <= 4; n++ {
				for k := 1; k <= 3; k++ {
					sa := append(ref.CopyShape(bt), m, n)
					sb := append(ref.CopyShape(bt), n, k)
					for pos := 0; pos < 2; pos++ {
						shape := [][]int{sa, sb}[pos]
						for name, t := range specialData(shape, 411) {
							pos, name, t := pos, name, t
							c.Case(fmt.Sprintf("special/matmul/%v/%v/%s@%d", sa, sb, name, pos), true, func() core.Verdict {
								in := []*ref.T{enum.Generic(sa, 41, 0.5, 3, true), enum.Generic(sb, 42, 0.5, 3, true)}
								in[pos] = t
								if v := applyBoth(ref.Op{K: "MatMul"}, in, false); !v.OK {
									v.Detail = "special operand data (" + name + "): " + v.Detail
									return v
								}
								if pos == 0 {
									if v := applyBoth(ref.Op{K: "Transpose"}, []*ref.T{t}, true); !v.OK {
										return v
									}
								}
								return core.Pass()
							})
						}
					}
				}
				sd := append(ref.CopyShape(bt), m, n)
				for pos := 0; pos < 2; pos++ {
					for name, t := range specialData(sd, 412) {
						pos, name, t := pos, name, t
						c.Case(fmt.Sprintf("special/dot/%v/%s@%d", sd, name, pos), true, func() core.Verdict {
							in := []*ref.T{enum.Generic(sd, 43, 0.5, 3, true), enum.Generic(sd, 44, 0.5, 3, true)}
							in[pos] = t
							v := applyBoth(ref.Op{K: "Dot"}, in, false)
							if !v.OK {
								v.Detail = "special operand data (" + name + "): " + v.Detail
							}
							return v
						})
					}
				}
			}
		}
	}
}

// specialC06: Patch / Slice / Concat where the written block differs from what it replaces by less than the
// library's equality tolerance (1e-240), or only in the sign of zero: "the source block written" is bit-exact.
func specialC06(c *core.Ctx) {
	negz := math.Copysign(0, -1)
	for _, dst := range [][]int{{3}, {2, 3}, {2, 1, 3}, {3, 2}} {
		dst := dst
		c.Case(fmt.Sprintf("special/patch-tiny/%v", dst), true, func() core.Verdict {
			type tc struct {
				name     string
				tgt, src func(i int) float64
			}
			for _, k := range []tc{
				{"tiny over zeros", func(int) float64 { return 0 }, func(i int) float64 { return float64(i+1) * 3e-250 }},
				{"tiny over tiny", func(i int) float64 { return float64(i+1) * 2e-245 }, func(i int) float64 { return float64(i+2) * 5e-245 }},
				{"-0 over +0", func(int) float64 { return 0 }, func(int) float64 { return negz }},
				{"+0 over -0", func(int) float64 { return negz }, func(int) float64 { return 0 }},
				{"equal values", func(i int) float64 { return float64(i) + 0.5 }, func(i int) float64 { return float64(i) + 0.5 }},
			} {
				src := ref.CopyShape(dst)
				src[len(src)-1] = dst[len(dst)-1] - 1
				if src[len(src)-1] < 1 {
					src[len(src)-1] = 1
				}
				T, S := ref.New(dst), ref.New(src)
				for i := range T.V {
					T.V[i] = k.tgt(i)
				}
				for i := range S.V {
					S.V[i] = k.src(i)
				}
				idx := make([]ref.Range, len(dst))
				for d := range idx {
					idx[d] = ref.Range{From: 0, To: src[d]}
				}
				op := ref.Op{K: "Patch", Index: idx}
				if v := applyBoth(op, []*ref.T{T, S}, true); !v.OK {
					v.Detail = k.name + ": " + v.Detail
					return v
				}
				exp, _ := ref.Eval(op, []*ref.T{T, S})
				got, err := rt.Apply(op, []tensor.Tensor{rt.Make(T, false), rt.Make(S, false)})
				if err != nil {
					return core.Fail("%s: Patch: %v", k.name, err)
				}
				g := rt.Read(got)
				for i := range exp.V {
					if math.Float64bits(g.V[i]) != math.Float64bits(exp.V[i]) {
						return core.Fail("%s: Patch of %v into %v: element %d is %v (bits %x), expected %v (bits %x)", k.name, src, dst, i, g.V[i], math.Float64bits(g.V[i]), exp.V[i], math.Float64bits(exp.V[i]))
					}
				}
			}
			return core.Pass()
		})
	}
}

// specialC16: the FC layer with special data in the batch, the weights or the bias (all zeros, all ones,
// zero-sum rows, interleaved zero rows) and with an all-zero upstream gradient: W, B and a tracked input still
// receive gradients of their own shapes equal to the derivatives of the affine formula (zeros where those are zero).
func specialC16(c *core.Ctx) {
	for _, bdo := range [][3]int{{1, 1, 1}, {1, 2, 2}, {2, 3, 2}, {3, 2, 1}, {2, 4, 3}} {
		B, D, O := bdo[0], bdo[1], bdo[2]
		shapes := [][]int{{B, D}, {O}, {O}}
		for pos := 0; pos < 3; pos++ {
			for name, t := range specialData(shapes[pos], 821) {
				for xt := 0; xt < 2; xt++ {
					for wi := 0; wi < 3; wi++ {
						pos, name, t, xt, wi := pos, name, t, xt, wi
						c.Case(fmt.Sprintf("special/fc/B%dD%dO%d/%s@%d/x%d/w%d", B, D, O, name, pos, xt, wi), true, func() core.Verdict {
							in := []*ref.T{enum.Generic(shapes[0], 801, 0.5, 3, true), enum.Generic(shapes[1], 803, 0.5, 3, true), enum.Generic(shapes[2], 805, 0.5, 3, true)}
							in[pos] = t
							p := &ref.Program{Leaves: in, Tracked: []bool{xt == 1, true, true}, Nodes: []ref.Node{{Op: ref.Op{K: "FC"}, In: []int{0, 1, 2}}}}
							root := 3
							if wi >= 1 {
								p, root = withWeighting(p, root, 31)
							}
							if wi == 2 {
								w := p.Leaves[len(p.Leaves)-1]
								for i := range w.V {
									w.V[i] = 0
								}
							}
							v := gradCase(p, root, gradOpts{allowKF: true})
							if !v.OK && !v.Skip {
								v.Detail = "special data (" + name + " in operand " + fmt.Sprint(pos) + " of x,W,B): " + describeProgram(p) + " :: " + v.Detail
							}
							return v
						})
					}
				}
			}
		}
	}
}

// specialReuse: ONE component object fed with inputs that a cheap digest cannot tell apart - the same multiset
// of exactly representable values in another order (same shape, sum, maximum and minimum), the same values in a
// fresh tensor, the values negated - each result compared with the model. Activations (values for C14,
// gradients for C15) and losses (values for C12, gradients for C13).
func specialReuse(c *core.Ctx, what string, withGrad bool) {
	base := []float64{0.5, -1, 2, 1.5, -0.25, 3, 0.75, -2}
	perm := func(n, k int) []float64 {
		v := append([]float64{}, base[:n]...)
		switch k {
		case 1: // reversed
			for i, j := 0, n-1; i < j; i, j = i+1, j-1 {
				v[i], v[j] = v[j], v[i]
			}
		case 2: // rotated by one
			v = append(v[1:], v[0])
		case 3: // same values again
		case 4: // negated
			for i := range v {
				v[i] = -v[i]
			}
		}
		return v
	}
	var ops []ref.Op
	if what == "act" {
		ops = []ref.Op{{K: "Relu"}, {K: "LeakyRelu", F: 0.3}, {K: "Sigmoid"}, {K: "TanhAct"}, {K: "Softmax", Dim: 0}, {K: "Softmax", Dim: 1}}
	} else {
		ops = []ref.Op{{K: "MSE"}, {K: "BCE"}, {K: "CE"}}
	}
	for _, op := range ops {
		for _, s := range [][]int{{4}, {2, 3}, {4, 2}} {
			if op.K == "Softmax" && op.Dim >= len(s) {
				continue
			}
			if op.K == "CE" && len(s) != 2 {
				continue
			}
			if (op.K == "MSE" || op.K == "BCE") && len(s) != 1 {
				continue
			}
			op, s := op, s
			c.Case(fmt.Sprintf("special/reuse/%s/%v/g%v", op, s, withGrad), true, func() core.Verdict {
				rt.ObjCache = map[string]any{}
				defer func() { rt.ObjCache = nil }()
				n := ref.Size(s)
				for k := 0; k < 5; k++ {
					x := &ref.T{Shape: s, V: perm(n, k)}
					var p *ref.Program
					root := 1
					if what == "act" {
						p = &ref.Program{Leaves: []*ref.T{x}, Tracked: []bool{true}, Nodes: []ref.Node{{Op: op, In: []int{0}}}}
					} else {
						// predictions and targets inside (0,1): an affine image of the same permutation scheme
						pr := ref.Map(x, func(v float64) float64 { return 0.5 + v/8 })
						tg := ref.Map(&ref.T{Shape: s, V: perm(n, (k+1)%3)}, func(v float64) float64 { return 0.5 - v/8 })
						p = &ref.Program{Leaves: []*ref.T{pr, tg}, Tracked: []bool{true, false}, Nodes: []ref.Node{{Op: op, In: []int{0, 1}}}}
						root = 2
					}
					var v core.Verdict
					if withGrad {
						if what == "act" {
							q, r := withWeighting(p, root, uint64(60+k))
							v = gradCase(q, r, gradOpts{allowKF: true})
						} else {
							v = gradCase(p, root, gradOpts{})
						}
					} else {
						v = forwardCase(p)
					}
					if v.KF != "" {
						return core.Verdict{KF: v.KF, Detail: v.Detail}
					}
					if !v.OK && !v.Skip {
						return core.Fail("call %d on ONE %s object with the same multiset of values rearranged (variant %d of: as is, reversed, rotated, again, negated): %s", k+1, op, k, v.Detail)
					}
				}
				return core.Pass()
			})
		}
	}
}

// specialC13: the SAME loss object, prediction object and target object evaluated a second time after the
// prediction was reset: value and gradient of the second evaluation equal those of the first (nothing of the
// first graph is reused).
func specialC13(c *core.Ctx) {
	for _, kind := range []string{"MSE", "BCE", "CE"} {
		for _, s := range [][]int{{3}, {2, 2}, {1, 4}} {
			if (kind == "CE") != (len(s) == 2) {
				continue
			}
			kind, s := kind, s
			c.Case(fmt.Sprintf("special/recompute/%s/%v", kind, s), true, func() core.Verdict {
				rt.ObjCache = map[string]any{}
				defer func() { rt.ObjCache = nil }()
				pr := rt.Make(enum.Generic(s, 1501, 0.1, 0.9, false), true)
				tg := rt.Make(enum.Generic(s, 1502, 0.1, 0.9, false), false)
				var vals, grads []*ref.T
				for k := 0; k < 3; k++ {
					l, err := rt.Apply(ref.Op{K: kind}, []tensor.Tensor{pr, tg})
					if err != nil {
						return core.Fail("evaluation %d: %v", k+1, err)
					}
					if err := tensor.BackPropagate(l); err != nil {
						return core.Fail("evaluation %d: BackPropagate: %v", k+1, err)
					}
					if pr.Gradient() == nil {
						return core.Fail("evaluation %d of ONE %s object on the same prediction / target objects (prediction reset in between): the prediction has no gradient", k+1, kind)
					}
					vals, grads = append(vals, rt.Read(l)), append(grads, rt.Read(pr.Gradient()))
					pr.ResetGradContext(true)
					if k > 0 {
						if ok, msg := core.RelClose(vals[k], vals[0], 1e-12, 0); !ok {
							return core.Fail("evaluation %d of ONE %s object on the same tensor objects: loss value differs from the first evaluation: %s", k+1, kind, msg)
						}
						if ok, msg := core.RelClose(grads[k], grads[0], 1e-12, 0); !ok {
							return core.Fail("evaluation %d of ONE %s object on the same prediction / target objects (prediction reset in between): gradient differs from the first evaluation's: %s", k+1, kind, msg)
						}
					}
				}
				return core.Pass()
			})
		}
	}
}

// specialC03: binary element-wise operations and comparisons on special data: a special tensor in either
// position, both all zeros, and operands whose value ranges touch in exactly one value that both hold at the
// same position (and at different positions).
func specialC03(c *core.Ctx) {
	ops := []string{"Add", "Sub", "Mul", "ElMax", "ElMin", "Gt", "Ge", "Lt", "Le", "Eq", "Ne"}
	for _, s := range [][]int{{3}, {2, 3}, {2, 1, 2}, {4, 2}} {
		type pair struct {
			name string
			a, b *ref.T
		}
		var pairs []pair
		g1, g2 := enum.Generic(s, 71, 0.5, 3, true), enum.Generic(s, 72, 0.5, 3, true)
		for name, t := range specialData(s, 73) {
			pairs = append(pairs, pair{name + "@0", t, g2}, pair{name + "@1", g1, t})
		}
		pairs = append(pairs, pair{"zeros@both", ref.FullOf(s, 0), ref.FullOf(s, 0)}, pair{"ones-zeros", ref.FullOf(s, 1), ref.FullOf(s, 0)})
		up := ref.Map(g1, math.Abs)
		dn := ref.Map(g2, func(v float64) float64 { return -math.Abs(v) })
		up.V[0], dn.V[0] = 0, 0 // ranges [0, max] and [min, 0] touch at 0, held by both at position 0
		pairs = append(pairs, pair{"touching-same-position", up, dn}, pair{"touching-same-position-swapped", dn, up})
		up2, dn2 := up.Clone(), dn.Clone()
		up2.V[0], up2.V[len(up2.V)-1] = up2.V[len(up2.V)-1]+1, 0 // the shared value at different positions
		pairs = append(pairs, pair{"touching-other-position", up2, dn2}, pair{"dominates", ref.Map(up, func(v float64) float64 { return v + 10 }), dn})
		for _, k := range ops {
			for _, pr := range pairs {
				k, pr, s := k, pr, s
				c.Case(fmt.Sprintf("special/%s/%v/%s", k, s, pr.name), true, func() core.Verdict {
					v := applyBoth(ref.Op{K: k}, []*ref.T{pr.a, pr.b}, false)
					if !v.OK {
						v.Detail = "special operand data (" + pr.name + "): " + v.Detail
					}
					return v
				})
			}
		}
	}
}
