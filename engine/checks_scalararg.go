package main

import (
	"fmt"
	"math"

	"github.com/sahandsafizadeh/qeep/component/layers/activations"
	"github.com/sahandsafizadeh/qeep/tensor"

	"qmc/core"
	"qmc/enum"
	"qmc/ref"
	"qmc/rt"
)

// Scalar ARGUMENTS (a Scale factor, a Pow exponent, the constant of Full / of the Full initializer, the
// parameters of the random constructors) are float64 and the statements quantify over all of them. The
// alphabets of the first twelve rounds used constants that a float32 or an integer also holds exactly
// (2, -1.5, 2.5, 0.5, 3), so a narrowing of the stored argument was invisible (seed C18-14, round 14).
// awkwardScalars are values no narrower type holds: not float32-representable, below float32's smallest
// subnormal, above its largest finite value, more than 24 significant bits, and one float64 subnormal.
var awkwardScalars = []float64{0.1, -1.0 / 3, 1e-50, -2.5e40, 123456789.125, 1 + 1.0/(1<<40), 3e-320}

// awkwardExponents: non-integer and larger integer exponents (operands are kept positive for the former).
var awkwardExponents = []float64{1.7, 1.5, 1.0 / 3, 2.5, -1.5, -3, 7, 10}

func relEqElems(got, exp *ref.T, rel float64) (bool, string) {
	if !ref.SameShape(got.Shape, exp.Shape) {
		return false, fmt.Sprintf("shape %v, expected %v", got.Shape, exp.Shape)
	}
	for i, e := range exp.V {
		g := got.V[i]
		if math.IsNaN(e) || math.IsInf(e, 0) {
			if !(math.IsNaN(e) && math.IsNaN(g)) && g != e {
				return false, fmt.Sprintf("element %d: got %v, expected %v", i, g, e)
			}
			continue
		}
		// 5e-324: one unit of the subnormal grid, where a relative bound has no meaning
		if math.IsNaN(g) || math.Abs(g-e) > rel*math.Abs(e)+5e-324 {
			return false, fmt.Sprintf("element %d: got %v, expected %v (relative difference %.3g)", i, g, e, math.Abs(g-e)/math.Abs(e))
		}
	}
	return true, ""
}

// scalarArgC03: Scale with awkward factors (one correctly rounded product per element: 2 ulp allowed) and Pow
// with awkward exponents (relative 1e-12: any correct evaluation of x^a for these magnitudes).
func scalarArgC03(c *core.Ctx) {
	shapes := [][]int{{}, {3}, {2, 3}, {2, 1, 2}}
	for _, s := range shapes {
		for _, a := range awkwardScalars {
			s, a := s, a
			c.Case(fmt.Sprintf("scalararg/Scale/%v/%v", a, s), true, func() core.Verdict {
				for _, neg := range []bool{true, false} {
					x := enum.Generic(s, 77, 0.5, 3, neg)
					got, err := rt.Make(x, false).Scale(a), error(nil)
					if got == nil || err != nil {
						return core.Fail("Scale(%v): nil result", a)
					}
					exp := ref.New(s)
					for i, v := range x.V {
						exp.V[i] = v * a
					}
					if ok, msg := relEqElems(rt.Read(got), exp, 5e-16); !ok {
						return core.Fail("Scale by %v on %v: %s", a, s, msg)
					}
				}
				return core.Pass()
			})
		}
		for _, a := range awkwardExponents {
			s, a := s, a
			c.Case(fmt.Sprintf("scalararg/Pow/%v/%v", a, s), true, func() core.Verdict {
				x := enum.Generic(s, 78, 0.5, 3, a == math.Trunc(a))
				got := rt.Make(x, false).Pow(a)
				if got == nil {
					return core.Fail("Pow(%v): nil result", a)
				}
				exp := ref.New(s)
				for i, v := range x.V {
					exp.V[i] = math.Pow(v, a)
				}
				if ok, msg := relEqElems(rt.Read(got), exp, 1e-12); !ok {
					return core.Fail("Pow with exponent %v on %v: %s", a, s, msg)
				}
				return core.Pass()
			})
		}
	}
}

// scalarArgC06: Full holds exactly (bit for bit) the requested constant, for constants no narrower type holds.
func scalarArgC06(c *core.Ctx) {
	vals := append([]float64{math.MaxFloat64, -math.SmallestNonzeroFloat64, math.Pi}, awkwardScalars...)
	for _, s := range [][]int{{}, {3}, {2, 2}, {2, 1, 2}} {
		for _, tracked := range []bool{false, true} {
			s, tracked := s, tracked
			c.Case(fmt.Sprintf("scalararg/Full/%v/%v", s, tracked), true, func() core.Verdict {
				for _, v := range vals {
					f, err := tensor.Full(ref.CopyShape(s), v, rt.Conf(tracked))
					if err != nil || f == nil {
						return core.Fail("Full(%v, %v): %v", s, v, err)
					}
					g := rt.Read(f)
					if !ref.SameShape(g.Shape, s) {
						return core.Fail("Full(%v, %v): shape %v", s, v, g.Shape)
					}
					for i, e := range g.V {
						if math.Float64bits(e) != math.Float64bits(v) {
							return core.Fail("Full(%v, %v): element %d is %v (bits %x), requested bits %x", s, v, i, e, math.Float64bits(e), math.Float64bits(v))
						}
					}
				}
				return core.Pass()
			})
		}
	}
}

// scalarArgC15: LeakyRelu slopes no narrower type holds (and slopes far below any absolute tolerance): the
// gradient delivered to a leaf and to the operand of a chain is upstream * (1 or m), compared relatively.
func scalarArgC15(c *core.Ctx) {
	slopes := []float64{0.123456789, 1e-50, -2.5e40, 123456789.125, 1 + 1.0/(1<<40), 3e-320, 4, -2}
	xs := []float64{-2, -0.5, 3, -1e-3, 0.25, -7}
	ws := []float64{1.5, -2, 0.7, 3, -1, 0.125}
	for _, m := range slopes {
		for _, shape := range [][]int{{6}, {2, 3}, {3, 1, 2}} {
			for chain := 0; chain < 2; chain++ {
				m, shape, chain := m, shape, chain
				c.Case(fmt.Sprintf("scalararg/LeakyRelu/%v/%v/chain%d", m, shape, chain), true, func() core.Verdict {
					act := activationsLeaky(m)
					if act == nil {
						return core.Fail("NewLeakyRelu(M=%v) returned nil", m)
					}
					leaf := rt.Make(&ref.T{Shape: shape, V: xs}, true)
					in, k := leaf, 1.0
					if chain == 1 {
						leaf = rt.Make(&ref.T{Shape: shape, V: ref.Map(&ref.T{Shape: shape, V: xs}, func(v float64) float64 { return v / 2 }).V}, true)
						in, k = leaf.Scale(2), 2
					}
					y, err := act.Forward(in)
					if err != nil {
						return core.Fail("Forward: %v", err)
					}
					expY, expG := ref.New(shape), ref.New(shape)
					for i, x := range xs {
						d := 1.0
						if x < 0 {
							d = m
						}
						expY.V[i] = x * d
						expG.V[i] = k * (ws[i] * d)
					}
					if ok, msg := relEqElems(rt.Read(y), expY, 1e-12); !ok {
						return core.Fail("LeakyRelu(M=%v) value: %s", m, msg)
					}
					z, err := y.Mul(rt.Make(&ref.T{Shape: shape, V: ws}, false))
					if err != nil {
						return core.Fail("Mul: %v", err)
					}
					if err := tensor.BackPropagate(z); err != nil {
						return core.Fail("BackPropagate: %v", err)
					}
					if leaf.Gradient() == nil {
						return core.Fail("no gradient on the input")
					}
					if ok, msg := relEqElems(rt.Read(leaf.Gradient()), expG, 1e-12); !ok {
						return core.Fail("LeakyRelu(M=%v) gradient (inputs %v away from 0, upstream %v, chain factor %v): %s", m, xs, ws, k, msg)
					}
					return core.Pass()
				})
			}
		}
	}
}

func activationsLeaky(m float64) *activations.LeakyRelu {
	return activations.NewLeakyRelu(&activations.LeakyReluConfig{M: m})
}
