package main

// syncShimInstalled: the binary was built with the sync / sync/atomic shim
// mapped into the library (tag vsync + overlay); set by sched_vsync.go.
var syncShimInstalled bool
var syncShimOps = func() int64 { return 0 }

// syncShimRealWaiters: goroutines parked in real sync primitives of the library (outside any controlled execution)
var syncShimRealWaiters = func() int64 { return 0 }

// shimSelftest (set by shimtest_vsync.go): scheduler + shim on programs with a known answer.
var shimSelftest func() (string, int64)
