package main

import (
	"fmt"

	"qmc/core"
	"qmc/enum"
	"qmc/ref"
)

/*
Self-operand cases: ONE tensor object in several operand positions of the same
call (x.Add(x), x.Dot(x), Concat(x,x,x), x.Patch(part of x), loss(x,x), a layer
whose weight and bias are the same tensor), directly and through a shared
intermediate. Values (forward) and gradients (the total derivative counts every
position) against the model.
*/

type selfProg struct {
	name string
	p    *ref.Program
	root int
	kind string // "elementwise", "compare", "linalg", "move", "loss", "fc"
	kf   bool   // an operand is implicitly broadcast (listed finding may show)
}

func selfPrograms(s []int, positive bool) []selfProg {
	var out []selfProg
	mkLeaf := func() *ref.T {
		if positive {
			return enum.Generic(s, 811, 0.05, 0.95, false)
		}
		return enum.Generic(s, 811, 0.5, 3, true)
	}
	add := func(name, kind string, kf bool, extra []*ref.T, nodes ...ref.Node) {
		p := &ref.Program{Leaves: append([]*ref.T{mkLeaf()}, extra...)}
		p.Tracked = make([]bool, len(p.Leaves))
		p.Nodes = nodes
		if _, ok := p.Forward(); ok {
			out = append(out, selfProg{name, p, p.NTensors() - 1, kind, kf})
		}
	}
	n := len(s)
	for _, k := range []string{"Add", "Sub", "Mul", "Div", "ElMax", "ElMin"} {
		add(k+"(x,x)", "elementwise", false, nil, ref.Node{Op: ref.Op{K: k}, In: []int{0, 0}})
		// through a shared intermediate, and mixed with the leaf itself
		add(k+"(h,h)", "elementwise", false, nil, ref.Node{Op: ref.Op{K: "Scale", F: 2}, In: []int{0}}, ref.Node{Op: ref.Op{K: k}, In: []int{1, 1}})
		add(k+"(h,x)", "elementwise", false, nil, ref.Node{Op: ref.Op{K: "Tanh"}, In: []int{0}}, ref.Node{Op: ref.Op{K: k}, In: []int{1, 0}})
	}
	for _, k := range ref.CompareKinds {
		add(k+"(x,x)", "compare", false, nil, ref.Node{Op: ref.Op{K: k}, In: []int{0, 0}})
	}
	if n >= 1 {
		add("Dot(x,x)", "linalg", false, nil, ref.Node{Op: ref.Op{K: "Dot"}, In: []int{0, 0}})
		for d := 0; d < n; d++ {
			add(fmt.Sprintf("Concat%d(x,x)", d), "move", false, nil, ref.Node{Op: ref.Op{K: "Concat", Dim: d}, In: []int{0, 0}})
			add(fmt.Sprintf("Concat%d(x,x,x)", d), "move", false, nil, ref.Node{Op: ref.Op{K: "Concat", Dim: d}, In: []int{0, 0, 0}})
			add(fmt.Sprintf("Concat%d(x,h,x)", d), "move", false, nil, ref.Node{Op: ref.Op{K: "Scale", F: -1}, In: []int{0}}, ref.Node{Op: ref.Op{K: "Concat", Dim: d}, In: []int{0, 1, 0}})
		}
		add("Patch(x,x)", "move", false, nil, ref.Node{Op: ref.Op{K: "Patch"}, In: []int{0, 0}})
		if s[0] >= 2 {
			add("Patch(x,firstrow->lastrow)", "move", false, nil,
				ref.Node{Op: ref.Op{K: "Slice", Index: []ref.Range{{From: 0, To: 1}}}, In: []int{0}},
				ref.Node{Op: ref.Op{K: "Patch", Index: []ref.Range{{From: s[0] - 1, To: s[0]}}}, In: []int{0, 1}})
		}
	}
	if n >= 2 {
		add("MatMul(x,x^T)", "linalg", false, nil, ref.Node{Op: ref.Op{K: "Transpose"}, In: []int{0}}, ref.Node{Op: ref.Op{K: "MatMul"}, In: []int{0, 1}})
		add("MatMul(x^T,x)", "linalg", false, nil, ref.Node{Op: ref.Op{K: "Transpose"}, In: []int{0}}, ref.Node{Op: ref.Op{K: "MatMul"}, In: []int{1, 0}})
		if s[n-1] == s[n-2] {
			add("MatMul(x,x)", "linalg", false, nil, ref.Node{Op: ref.Op{K: "MatMul"}, In: []int{0, 0}})
		}
	}
	if positive {
		if n == 1 {
			add("MSE(x,x)", "loss", false, nil, ref.Node{Op: ref.Op{K: "MSE"}, In: []int{0, 0}})
			add("BCE(x,x)", "loss", false, nil, ref.Node{Op: ref.Op{K: "BCE"}, In: []int{0, 0}})
			add("MSE(h,x)", "loss", false, nil, ref.Node{Op: ref.Op{K: "Scale", F: 0.5}, In: []int{0}}, ref.Node{Op: ref.Op{K: "MSE"}, In: []int{1, 0}})
			add("BCE(x,h)", "loss", false, nil, ref.Node{Op: ref.Op{K: "Scale", F: 0.5}, In: []int{0}}, ref.Node{Op: ref.Op{K: "BCE"}, In: []int{0, 1}})
			// one tensor as weight AND bias of a layer
			x := enum.Generic([]int{2, 3}, 812, 0.2, 1, true)
			add("FC(in,x,x)", "fc", true, []*ref.T{x}, ref.Node{Op: ref.Op{K: "FC"}, In: []int{1, 0, 0}})
		}
		if n == 2 {
			add("CE(x,x)", "loss", false, nil, ref.Node{Op: ref.Op{K: "CE"}, In: []int{0, 0}})
			add("CE(x,h)", "loss", false, nil, ref.Node{Op: ref.Op{K: "Scale", F: 0.5}, In: []int{0}}, ref.Node{Op: ref.Op{K: "CE"}, In: []int{0, 1}})
			if s[0] == s[1] {
				// the input doubles as ... nothing else fits FC's signature
			}
		}
	}
	return out
}

var selfShapes = [][]int{{}, {3}, {1}, {2, 2}, {2, 3}, {3, 1}, {2, 2, 2}, {1, 3, 3}}

// selfCases: forward (grad=false) or gradient (grad=true) cases of the kinds listed.
func selfCases(c *core.Ctx, grad bool, kinds ...string) {
	want := map[string]bool{}
	for _, k := range kinds {
		want[k] = true
	}
	for _, positive := range []bool{false, true} {
		for _, s := range selfShapes {
			for _, sp := range selfPrograms(s, positive) {
				if !want[sp.kind] || (positive != (sp.kind == "loss" || sp.kind == "fc")) {
					continue
				}
				if grad && sp.kind == "compare" {
					continue
				}
				s, sp := s, sp
				c.Case(fmt.Sprintf("self/%s/%v/grad%v", sp.name, s, grad), true, func() core.Verdict {
					p := &ref.Program{Leaves: sp.p.Leaves, Nodes: sp.p.Nodes, Tracked: make([]bool, len(sp.p.Leaves))}
					if !grad {
						v := forwardCase(p)
						if !v.OK && !v.Skip {
							v.Detail = fmt.Sprintf("%s with x of shape %v (one tensor object in several operand positions): %s :: %s", sp.name, s, describeProgram(p), v.Detail)
						}
						return v
					}
					for i := range p.Tracked {
						p.Tracked[i] = true
					}
					o := gradOpts{allowKF: sp.kf}
					if sp.kind == "loss" {
						o.elementwise = true
					}
					for _, weighted := range []bool{false, true} {
						q, root := p, sp.root
						if weighted {
							q, root = withWeighting(p, sp.root, 813)
						}
						v := gradCase(q, root, o)
						if v.KF != "" {
							return v
						}
						if !v.OK && !v.Skip {
							v.Detail = fmt.Sprintf("%s with x of shape %v (one tensor object in several operand positions; the gradient of x is the sum over all positions): %s :: %s", sp.name, s, describeProgram(q), v.Detail)
							return v
						}
					}
					return core.Pass()
				})
			}
		}
	}
}
