// Package rt drives the real qeep code: builds tensors from model tensors,
// reads them back through the public API, applies model-described operations.
package rt

import (
	"fmt"

	"github.com/sahandsafizadeh/qeep/component/layers"
	"github.com/sahandsafizadeh/qeep/component/layers/activations"
	"github.com/sahandsafizadeh/qeep/component/losses"

	"github.com/sahandsafizadeh/qeep/tensor"
	"qmc/ref"
)

var cpuConf = &tensor.Config{Device: tensor.CPU}
var cpuConfTracked = &tensor.Config{Device: tensor.CPU, GradTrack: true}

func Conf(tracked bool) *tensor.Config {
	if tracked {
		return &tensor.Config{Device: tensor.CPU, GradTrack: true}
	}
	return &tensor.Config{Device: tensor.CPU}
}

// Nested builds nested []float64 data (rank 1..4) from a model tensor.
func Nested(t *ref.T) any {
	switch len(t.Shape) {
	case 0:
		return t.V[0]
	case 1:
		return append([]float64(nil), t.V...)
	case 2:
		r := make([][]float64, t.Shape[0])
		for i := range r {
			r[i] = append([]float64(nil), t.V[i*t.Shape[1]:(i+1)*t.Shape[1]]...)
		}
		return r
	case 3:
		r := make([][][]float64, t.Shape[0])
		s := ref.Size(t.Shape[1:])
		for i := range r {
			r[i] = Nested(&ref.T{Shape: t.Shape[1:], V: t.V[i*s : (i+1)*s]}).([][]float64)
		}
		return r
	case 4:
		r := make([][][][]float64, t.Shape[0])
		s := ref.Size(t.Shape[1:])
		for i := range r {
			r[i] = Nested(&ref.T{Shape: t.Shape[1:], V: t.V[i*s : (i+1)*s]}).([][][]float64)
		}
		return r
	}
	panic("rt.Nested: rank > 4")
}

func tensorOfAny(data any, conf *tensor.Config) (tensor.Tensor, error) {
	switch v := data.(type) {
	case float64:
		return tensor.TensorOf(v, conf)
	case []float64:
		return tensor.TensorOf(v, conf)
	case [][]float64:
		return tensor.TensorOf(v, conf)
	case [][][]float64:
		return tensor.TensorOf(v, conf)
	case [][][][]float64:
		return tensor.TensorOf(v, conf)
	}
	panic("rt.tensorOfAny: bad data")
}

// Make builds a real leaf tensor holding the model tensor's values. Ranks up to
// 4 use TensorOf directly; higher ranks are built flat, reshaped, and turned
// into a fresh leaf with ResetGradContext.
func Make(t *ref.T, tracked bool) tensor.Tensor {
	if len(t.Shape) <= 4 {
		r, err := tensorOfAny(Nested(t), Conf(tracked))
		if err != nil {
			panic(fmt.Sprintf("rt.Make: TensorOf failed for shape %v: %v", t.Shape, err))
		}
		return r
	}
	flat, err := tensor.TensorOf(append([]float64(nil), t.V...), Conf(false))
	if err != nil {
		panic(fmt.Sprintf("rt.Make: %v", err))
	}
	r, err := flat.Reshape(ref.CopyShape(t.Shape))
	if err != nil {
		panic(fmt.Sprintf("rt.Make: reshape to %v: %v", t.Shape, err))
	}
	r.ResetGradContext(tracked)
	return r
}

// Read copies a real tensor into a model tensor through Shape and At only.
func Read(t tensor.Tensor) *ref.T {
	sh := t.Shape()
	r := ref.New(sh)
	for o := range r.V {
		v, err := t.At(ref.Unravel(o, sh)...)
		if err != nil {
			panic(fmt.Sprintf("rt.Read: At failed on shape %v offset %d: %v", sh, o, err))
		}
		r.V[o] = v
	}
	return r
}

func Ranges(ix []ref.Range) []tensor.Range {
	if ix == nil {
		return nil
	}
	r := make([]tensor.Range, len(ix))
	for i, x := range ix {
		r[i] = tensor.Range{From: x.From, To: x.To}
	}
	return r
}

// ObjCache, when non-nil, makes Apply reuse ONE component object (activation,
// loss) per distinct operation description for as long as the cache lives, the
// way a training program holds on to its layers and losses. nil: a fresh
// object per call. Set and cleared by the case that wants reuse (workers run
// one case at a time).
var ObjCache map[string]any

func cached[T any](key string, mk func() (T, error)) (T, error) {
	if ObjCache != nil {
		if o, ok := ObjCache[key]; ok {
			return o.(T), nil
		}
	}
	o, err := mk()
	if err == nil && ObjCache != nil {
		ObjCache[key] = o
	}
	return o, err
}

// Apply runs one model-described operation on the real code.
func Apply(op ref.Op, in []tensor.Tensor) (tensor.Tensor, error) {
	x := in[0]
	switch op.K {
	case "Scale":
		return x.Scale(op.F), nil
	case "Pow":
		return x.Pow(op.F), nil
	case "Exp":
		return x.Exp(), nil
	case "Log":
		return x.Log(), nil
	case "Sin":
		return x.Sin(), nil
	case "Cos":
		return x.Cos(), nil
	case "Tan":
		return x.Tan(), nil
	case "Sinh":
		return x.Sinh(), nil
	case "Cosh":
		return x.Cosh(), nil
	case "Tanh":
		return x.Tanh(), nil
	case "Add":
		return x.Add(in[1])
	case "Sub":
		return x.Sub(in[1])
	case "Mul":
		return x.Mul(in[1])
	case "Div":
		return x.Div(in[1])
	case "ElMax":
		return x.ElMax(in[1])
	case "ElMin":
		return x.ElMin(in[1])
	case "Eq":
		return x.Eq(in[1])
	case "Ne":
		return x.Ne(in[1])
	case "Gt":
		return x.Gt(in[1])
	case "Ge":
		return x.Ge(in[1])
	case "Lt":
		return x.Lt(in[1])
	case "Le":
		return x.Le(in[1])
	case "Dot":
		return x.Dot(in[1])
	case "MatMul":
		return x.MatMul(in[1])
	case "Transpose":
		return x.Transpose()
	case "Reshape":
		sh := ref.CopyShape(op.Shape)
		r, err := x.Reshape(sh)
		mustUnchangedInts("Reshape", sh, op.Shape)
		return r, err
	case "Broadcast":
		sh := ref.CopyShape(op.Shape)
		r, err := x.Broadcast(sh)
		mustUnchangedInts("Broadcast", sh, op.Shape)
		return r, err
	case "UnSqueeze":
		return x.UnSqueeze(op.Dim)
	case "Squeeze":
		return x.Squeeze(op.Dim)
	case "Flatten":
		return x.Flatten(op.Dim)
	case "SumAlong":
		return x.SumAlong(op.Dim)
	case "MaxAlong":
		return x.MaxAlong(op.Dim)
	case "MinAlong":
		return x.MinAlong(op.Dim)
	case "AvgAlong":
		return x.AvgAlong(op.Dim)
	case "VarAlong":
		return x.VarAlong(op.Dim)
	case "StdAlong":
		return x.StdAlong(op.Dim)
	case "MeanAlong":
		return x.MeanAlong(op.Dim)
	case "Slice":
		ix := Ranges(op.Index)
		r, err := x.Slice(ix)
		mustUnchangedRanges("Slice", ix, op.Index)
		return r, err
	case "Patch":
		ix := Ranges(op.Index)
		r, err := x.Patch(ix, in[1])
		mustUnchangedRanges("Patch", ix, op.Index)
		return r, err
	case "Concat":
		ts := append([]tensor.Tensor(nil), in...)
		r, err := tensor.Concat(ts, op.Dim)
		for i := range ts {
			if ts[i] != in[i] {
				panic(fmt.Sprintf("Concat modified the caller's tensor list at position %d", i))
			}
			ts[i] = nil // the caller reuses its list
		}
		return r, err
	case "Relu":
		o, _ := cached(op.String(), func() (*activations.Relu, error) { return activations.NewRelu(), nil })
		return o.Forward(x)
	case "LeakyRelu":
		o, _ := cached(op.String(), func() (*activations.LeakyRelu, error) {
			return activations.NewLeakyRelu(&activations.LeakyReluConfig{M: op.F}), nil
		})
		return o.Forward(x)
	case "Sigmoid":
		o, _ := cached(op.String(), func() (*activations.Sigmoid, error) { return activations.NewSigmoid(), nil })
		return o.Forward(x)
	case "TanhAct":
		o, _ := cached(op.String(), func() (*activations.Tanh, error) { return activations.NewTanh(), nil })
		return o.Forward(x)
	case "Softmax":
		sm, err := cached(op.String(), func() (*activations.Softmax, error) {
			return activations.NewSoftmax(&activations.SoftmaxConfig{Dim: op.Dim})
		})
		if err != nil {
			return nil, err
		}
		return sm.Forward(x)
	case "MSE":
		o, _ := cached(op.String(), func() (*losses.MSE, error) { return losses.NewMSE(), nil })
		return o.Compute(x, in[1])
	case "BCE":
		o, _ := cached(op.String(), func() (*losses.BCE, error) { return losses.NewBCE(), nil })
		return o.Compute(x, in[1])
	case "CE":
		o, _ := cached(op.String(), func() (*losses.CE, error) { return losses.NewCE(), nil })
		return o.Compute(x, in[1])
	case "FC":
		// a layer whose parameters are the given tensors (replaced through Weights())
		sh := in[1].Shape()
		fc, err := cached(fmt.Sprintf("FC/%d/%d", x.Shape()[1], sh[0]), func() (*layers.FC, error) {
			return layers.NewFC(&layers.FCConfig{Inputs: x.Shape()[1], Outputs: sh[0]})
		})
		if err != nil {
			return nil, err
		}
		ws := fc.Weights()
		*ws[0].Value = in[1]
		*ws[1].Value = in[2]
		return fc.Forward(x)
	}
	panic("rt.Apply: unknown op " + op.K)
}

// The library must not write into slices the caller passes in (a {0,0} range
// must still mean "whole dimension" when the caller reuses its index).
func mustUnchangedInts(what string, passed, orig []int) {
	for i := range orig {
		if passed[i] != orig[i] {
			panic(fmt.Sprintf("%s modified the caller's slice: passed %v, now %v", what, orig, passed))
		}
	}
	// the caller is free to reuse its buffer: scribble over it, so that a
	// library that kept the slice (as dims, or inside a backward closure)
	// shows it in everything observed later
	for i := range passed {
		passed[i] = -7 - i
	}
}

func mustUnchangedRanges(what string, passed []tensor.Range, orig []ref.Range) {
	for i := range orig {
		if passed[i].From != orig[i].From || passed[i].To != orig[i].To {
			panic(fmt.Sprintf("%s modified the caller's index slice: passed %v, now %v", what, orig, passed))
		}
	}
	for i := range passed {
		passed[i] = tensor.Range{From: -3 - i, To: -9}
	}
}

// Catch runs f and returns the recovered panic value, if any.
func Catch(f func()) (p any) {
	defer func() {
		if r := recover(); r != nil {
			p = r
		}
	}()
	f()
	return nil
}

// RunProgram executes a model program on the real code; returns all tensors
// (leaves first). Any error from an operation is returned with its node index.
func RunProgram(p *ref.Program) (ts []tensor.Tensor, failedNode int, err error) {
	ts = make([]tensor.Tensor, 0, p.NTensors())
	for i, l := range p.Leaves {
		if i < len(p.Ctor) && p.Ctor[i] != "" {
			var t tensor.Tensor
			var err error
			dims := append([]int{}, l.Shape...)
			switch p.Ctor[i] {
			case "Full":
				t, err = tensor.Full(dims, l.V[0], Conf(p.Tracked[i]))
			case "Zeros":
				t, err = tensor.Zeros(dims, Conf(p.Tracked[i]))
			case "Ones":
				t, err = tensor.Ones(dims, Conf(p.Tracked[i]))
			case "Eye":
				t, err = tensor.Eye(l.Shape[0], Conf(p.Tracked[i]))
			default:
				panic("HARNESS: unknown leaf constructor " + p.Ctor[i])
			}
			if err != nil {
				panic(fmt.Sprintf("constructor %s%v returned an error on valid arguments: %v", p.Ctor[i], l.Shape, err))
			}
			ts = append(ts, t)
			continue
		}
		ts = append(ts, Make(l, p.Tracked[i]))
	}
	for i, n := range p.Nodes {
		in := make([]tensor.Tensor, len(n.In))
		for k, id := range n.In {
			in[k] = ts[id]
		}
		r, err := Apply(n.Op, in)
		if err != nil {
			return ts, i, err
		}
		ts = append(ts, r)
	}
	return ts, -1, nil
}
