package main

import (
	"fmt"
	"math"

	"github.com/sahandsafizadeh/qeep/tensor"
	"qmc/core"
	"qmc/enum"
	"qmc/ref"
	"qmc/rt"
)

func c06Ops(s []int) []ref.Op {
	ops := []ref.Op{{K: "Reshape", Shape: []int{ref.Size(s)}}, {K: "UnSqueeze", Dim: 0}, {K: "UnSqueeze", Dim: len(s)}, {K: "Flatten", Dim: 0}, {K: "Slice"},
		{K: "Slice", Index: []ref.Range{{From: 0, To: 1}}}, {K: "Broadcast", Shape: append([]int{2}, s...)}, {K: "Concat", Dim: 0}, {K: "Concat", Dim: len(s) - 1}}
	full := make([]ref.Range, len(s))
	for i, d := range s {
		full[i] = ref.Range{From: d - 1, To: d}
	}
	ops = append(ops, ref.Op{K: "Slice", Index: full})
	if len(s) >= 2 {
		ops = append(ops, ref.Op{K: "Transpose"}, ref.Op{K: "Flatten", Dim: len(s) - 1})
	}
	return ops
}

func checkC06(c *core.Ctx) {
	defer specialC06(c)
	defer scalarArgC06(c)
	defer sweepC06(c)
	defer sidefxCases(c, "Slice", "Patch", "Concat", "Reshape", "Flatten", "UnSqueeze", "Squeeze")
	defer selfCases(c, false, "move")
	defer soakC06(c)
	defer sweepConcatN(c, false)
	defer gridC06(c)
	sameOperandSequence(c, "sameoperand", [][]int{{3}, {2, 3}, {3, 2, 2}, {2, 1, 3}, {4, 5}}, c06Ops, true)
	composeCases(c, "compose", composeShapes, consumersMove, true)
	shapes := enum.ShapeSet(c.Thorough())
	for _, s := range shapes {
		if c.Expired() {
			break
		}
		s := s
		// At, Shape, NElems; TensorOf / Full / Zeros / Ones hold the requested values
		c.Case(fmt.Sprintf("at/%v", s), ref.Size(s) > 1, func() core.Verdict {
			x := enum.Labels(s, 0)
			rx := rt.Make(x, false)
			if !ref.SameShape(rx.Shape(), s) {
				return core.Fail("Shape() = %v, expected %v", rx.Shape(), s)
			}
			if rx.NElems() != ref.Size(s) {
				return core.Fail("NElems() = %d, expected %d", rx.NElems(), ref.Size(s))
			}
			if ok, msg := core.ExactEq(rt.Read(rx), x); !ok {
				return core.Fail("At over %v: %s", s, msg)
			}
			for _, v := range []float64{0, 1, -3.5} {
				var f tensor.Tensor
				var err error
				switch v {
				case 0:
					f, err = tensor.Zeros(ref.CopyShape(s), rt.Conf(false))
				case 1:
					f, err = tensor.Ones(ref.CopyShape(s), rt.Conf(false))
				default:
					f, err = tensor.Full(ref.CopyShape(s), v, rt.Conf(false))
				}
				if err != nil {
					return core.Fail("Full/Zeros/Ones(%v): %v", s, err)
				}
				if ok, msg := core.ExactEq(rt.Read(f), ref.FullOf(s, v)); !ok {
					return core.Fail("Full(%v,%v): %s", s, v, msg)
				}
				if f.NElems() != ref.Size(s) {
					return core.Fail("NElems of Full(%v) = %d", s, f.NElems())
				}
			}
			return core.Pass()
		})
		// Slice: every index list
		for _, ix := range enum.IndexLists(s) {
			ix := ix
			c.Case(fmt.Sprintf("slice/%v/%v", s, ix), ref.Size(s) > 1, func() core.Verdict {
				x := enum.Labels(s, 0)
				return applyBoth(ref.Op{K: "Slice", Index: ix}, []*ref.T{x}, true)
			})
		}
		// Patch: every source block shape, every position, every index form
		for _, src := range enum.SubShapes(s) {
			for _, ix := range enum.PatchIndexLists(src, s) {
				src, ix := src, ix
				c.Case(fmt.Sprintf("patch/%v/%v/%v", s, src, ix), ref.Size(s) > 1, func() core.Verdict {
					x := enum.Labels(s, 0)
					p := enum.Labels(src, 1000)
					op := ref.Op{K: "Patch", Index: ix}
					v := applyBoth(op, []*ref.T{x, p}, true)
					if !v.OK {
						return v
					}
					// round trips on the real code
					rx, rp := rt.Make(x, false), rt.Make(p, false)
					y, err := rx.Patch(rt.Ranges(ix), rp)
					if err != nil {
						return core.Fail("Patch: %v", err)
					}
					region := ref.PatchRegion(ix, src)
					back, err := y.Slice(rt.Ranges(region))
					if err != nil {
						return core.Fail("Slice of patched region %v: %v", region, err)
					}
					if ok, msg := core.ExactEq(rt.Read(back), p); !ok {
						return core.Fail("slicing what was patched (%v into %v at %v) does not return the source: %s", src, s, ix, msg)
					}
					orig, err := rx.Slice(rt.Ranges(region))
					if err != nil {
						return core.Fail("Slice %v: %v", region, err)
					}
					ident, err := rx.Patch(rt.Ranges(region), orig)
					if err != nil {
						return core.Fail("Patch of own slice: %v", err)
					}
					if ok, msg := core.ExactEq(rt.Read(ident), x); !ok {
						return core.Fail("patching a slice back is not the identity: %s", msg)
					}
					return core.Pass()
				})
			}
		}
		// Reshape to every equal-count shape of the set
		for _, t := range enum.SameCountShapes(shapes, ref.Size(s)) {
			t := t
			c.Case(fmt.Sprintf("reshape/%v/%v", s, t), ref.Size(s) > 1 && !ref.SameShape(s, t), func() core.Verdict {
				return applyBoth(ref.Op{K: "Reshape", Shape: t}, []*ref.T{enum.Labels(s, 0)}, true)
			})
		}
		for d := 0; d <= len(s); d++ {
			d := d
			c.Case(fmt.Sprintf("unsqueeze/%v/%d", s, d), ref.Size(s) > 1, func() core.Verdict {
				return applyBoth(ref.Op{K: "UnSqueeze", Dim: d}, []*ref.T{enum.Labels(s, 0)}, true)
			})
			if d < len(s) {
				c.Case(fmt.Sprintf("flatten/%v/%d", s, d), ref.Size(s) > 1, func() core.Verdict {
					return applyBoth(ref.Op{K: "Flatten", Dim: d}, []*ref.T{enum.Labels(s, 0)}, true)
				})
				if s[d] == 1 {
					c.Case(fmt.Sprintf("squeeze/%v/%d", s, d), ref.Size(s) > 1, func() core.Verdict {
						return applyBoth(ref.Op{K: "Squeeze", Dim: d}, []*ref.T{enum.Labels(s, 0)}, true)
					})
				}
			}
		}
		// Broadcast: s as target, every compatible source
		for _, src := range enum.BroadcastSources(s) {
			src := src
			c.Case(fmt.Sprintf("broadcast/%v->%v", src, s), ref.Size(src) != ref.Size(s), func() core.Verdict {
				return applyBoth(ref.Op{K: "Broadcast", Shape: s}, []*ref.T{enum.Labels(src, 0)}, true)
			})
		}
		// Concat of 2 and 3 operands along every dim (s with s[d]==1 is the base)
		sizes := []int{1, 2, 3}
		for d := range s {
			if s[d] != 1 {
				continue
			}
			for _, d1 := range sizes {
				for _, d2 := range sizes {
					for _, d3 := range []int{0, 1, 2, 3} {
						d, d1, d2, d3 := d, d1, d2, d3
						c.Case(fmt.Sprintf("concat/%v/dim%d/%d,%d,%d", s, d, d1, d2, d3), true, func() core.Verdict {
							var in []*ref.T
							for i, dd := range []int{d1, d2, d3} {
								if dd == 0 {
									continue
								}
								sh := ref.CopyShape(s)
								sh[d] = dd
								in = append(in, enum.Labels(sh, float64(1000*i)))
							}
							op := ref.Op{K: "Concat", Dim: d}
							v := applyBoth(op, in, true)
							if !v.OK {
								return v
							}
							// slicing the concatenation returns the pieces
							rin := make([]tensor.Tensor, len(in))
							for i := range in {
								rin[i] = rt.Make(in[i], false)
							}
							y, err := tensor.Concat(rin, d)
							if err != nil {
								return core.Fail("Concat: %v", err)
							}
							base := 0
							for i := range in {
								ix := make([]ref.Range, d+1)
								ix[d] = ref.Range{From: base, To: base + in[i].Shape[d]}
								base += in[i].Shape[d]
								piece, err := y.Slice(rt.Ranges(ix))
								if err != nil {
									return core.Fail("Slice %v of concatenation: %v", ix, err)
								}
								if ok, msg := core.ExactEq(rt.Read(piece), in[i]); !ok {
									return core.Fail("slicing concatenation (dim %d) does not return operand %d: %s", d, i, msg)
								}
							}
							return core.Pass()
						})
					}
				}
			}
		}
	}
	// long dimensions: element-moving operations beyond size 3
	for _, s := range longShapes(c.Thorough()) {
		s := s
		c.Case(fmt.Sprintf("long/%v", s), true, func() core.Verdict {
			x := enum.Labels(s, 0)
			rx := rt.Make(x, false)
			if ok, msg := core.ExactEq(rt.Read(rx), x); !ok {
				return core.Fail("At over %v: %s", s, msg)
			}
			// a window in the middle of every dimension, patched back
			ix := make([]ref.Range, len(s))
			for i, d := range s {
				ix[i] = ref.Range{From: d / 3, To: d/3 + (d+1)/2}
			}
			if v := applyBoth(ref.Op{K: "Slice", Index: ix}, []*ref.T{x}, true); !v.OK {
				return v
			}
			sub, _ := ref.Eval(ref.Op{K: "Slice", Index: ix}, []*ref.T{x})
			p := enum.Labels(sub.Shape, 5000)
			if v := applyBoth(ref.Op{K: "Patch", Index: ix}, []*ref.T{x, p}, true); !v.OK {
				return v
			}
			for d := range s {
				if v := applyBoth(ref.Op{K: "Concat", Dim: d}, []*ref.T{x, enum.Labels(s, 9000)}, true); !v.OK {
					return v
				}
				if v := applyBoth(ref.Op{K: "Flatten", Dim: d}, []*ref.T{x}, true); !v.OK {
					return v
				}
				if v := applyBoth(ref.Op{K: "UnSqueeze", Dim: d}, []*ref.T{x}, true); !v.OK {
					return v
				}
			}
			if v := applyBoth(ref.Op{K: "Reshape", Shape: []int{ref.Size(s)}}, []*ref.T{x}, true); !v.OK {
				return v
			}
			if v := applyBoth(ref.Op{K: "Broadcast", Shape: append([]int{2}, s...)}, []*ref.T{x}, true); !v.OK {
				return v
			}
			if len(s) >= 2 {
				if v := applyBoth(ref.Op{K: "Transpose"}, []*ref.T{x}, true); !v.OK {
					return v
				}
			}
			return core.Pass()
		})
	}
	// constant tensors of many shapes with multi-digit sizes, created one after
	// the other (shape-keyed sharing of constant data must not confuse shapes)
	c.Case("const/multidigit", true, func() core.Verdict {
		shapes := [][]int{{1, 24}, {12, 4}, {1, 64}, {16, 4}, {11, 1}, {1, 11}, {1, 12}, {11, 2}, {2, 1, 15}, {2, 11, 5}, {21, 3}, {2, 13}, {10, 10}, {1, 10, 10}, {101}, {10, 1}, {1, 1, 0 + 12}}
		for round := 0; round < 2; round++ {
			for _, s := range shapes {
				for _, v := range []float64{0, 1, 2.5} {
					var f tensor.Tensor
					var err error
					switch v {
					case 0:
						f, err = tensor.Zeros(ref.CopyShape(s), rt.Conf(round == 1))
					case 1:
						f, err = tensor.Ones(ref.CopyShape(s), rt.Conf(false))
					default:
						f, err = tensor.Full(ref.CopyShape(s), v, rt.Conf(false))
					}
					if err != nil {
						return core.Fail("constant tensor of shape %v: %v", s, err)
					}
					g := rt.Read(f)
					if ok, msg := core.ExactEq(g, ref.FullOf(s, v)); !ok {
						return core.Fail("constant %v of shape %v (created after other shapes): %s", v, s, msg)
					}
					if m := wellFormed(f, g); m != "" {
						return core.Fail("constant %v of shape %v: %s", v, s, m)
					}
				}
			}
		}
		return core.Pass()
	})
	// negative zero: "hold exactly the requested values" / "move elements
	// without changing them" includes the sign of zero (compared bit-exactly)
	negz := math.Copysign(0, -1)
	bitsEq := func(got tensor.Tensor, exp *ref.T, what string) core.Verdict {
		g := rt.Read(got)
		if !ref.SameShape(g.Shape, exp.Shape) {
			return core.Fail("%s: shape %v, expected %v", what, g.Shape, exp.Shape)
		}
		for i := range exp.V {
			if math.Float64bits(g.V[i]) != math.Float64bits(exp.V[i]) {
				return core.Fail("%s: element %d is %v (bits %x), requested %v (bits %x)", what, i, g.V[i], math.Float64bits(g.V[i]), exp.V[i], math.Float64bits(exp.V[i]))
			}
		}
		return core.Pass()
	}
	for _, s := range [][]int{{}, {3}, {2, 2}, {2, 1, 2}} {
		s := s
		c.Case(fmt.Sprintf("negzero/%v", s), true, func() core.Verdict {
			for _, v := range []float64{negz, 0, 1, -1} {
				f, err := tensor.Full(ref.CopyShape(s), v, rt.Conf(false))
				if err != nil {
					return core.Fail("Full: %v", err)
				}
				if r := bitsEq(f, ref.FullOf(s, v), fmt.Sprintf("Full(%v, %v)", s, v)); !r.OK {
					return r
				}
			}
			x := ref.New(s)
			for i := range x.V {
				x.V[i] = []float64{negz, 0, 2.5, negz}[i%4]
			}
			rx := rt.Make(x, false)
			if r := bitsEq(rx, x, "TensorOf with negative zeros"); !r.OK {
				return r
			}
			ops := []ref.Op{{K: "Reshape", Shape: []int{ref.Size(s)}}, {K: "UnSqueeze", Dim: 0}, {K: "Slice"}, {K: "Broadcast", Shape: append([]int{2}, s...)}}
			if len(s) >= 1 {
				ops = append(ops, ref.Op{K: "Flatten", Dim: 0})
			}
			if len(s) >= 2 {
				ops = append(ops, ref.Op{K: "Transpose"})
			}
			for _, op := range ops {
				exp, _ := ref.Eval(op, []*ref.T{x})
				got, err := rt.Apply(op, []tensor.Tensor{rx})
				if err != nil {
					return core.Fail("%s: %v", op, err)
				}
				if r := bitsEq(got, exp, op.String()+" of a tensor with negative zeros"); !r.OK {
					return r
				}
			}
			if len(s) >= 1 {
				exp, _ := ref.Eval(ref.Op{K: "Concat", Dim: 0}, []*ref.T{x, x})
				got, err := tensor.Concat([]tensor.Tensor{rx, rx}, 0)
				if err != nil {
					return core.Fail("Concat: %v", err)
				}
				if r := bitsEq(got, exp, "Concat of tensors with negative zeros"); !r.OK {
					return r
				}
				z, _ := tensor.Zeros(ref.CopyShape(s), rt.Conf(false))
				pg, err := z.Patch(nil, rx)
				if err != nil {
					return core.Fail("Patch: %v", err)
				}
				if r := bitsEq(pg, x, "Patch of a block with negative zeros"); !r.OK {
					return r
				}
			}
			return core.Pass()
		})
	}
	// an index object reused for a second call on a tensor of another size: a
	// {0,0} entry still means the whole dimension of THAT tensor
	c.Case("indexreuse", true, func() core.Verdict {
		ix := []tensor.Range{{From: 0, To: 0}, {From: 0, To: 1}}
		small := rt.Make(enum.Labels([]int{2, 3}, 0), false)
		large := rt.Make(enum.Labels([]int{4, 3}, 100), false)
		a, err := small.Slice(ix)
		if err != nil {
			return core.Fail("Slice: %v", err)
		}
		b, err := large.Slice(ix)
		if err != nil {
			return core.Fail("second Slice with the same index object: %v", err)
		}
		if !ref.SameShape(a.Shape(), []int{2, 1}) || !ref.SameShape(b.Shape(), []int{4, 1}) {
			return core.Fail("index {{0,0},{0,1}} reused on [2,3] then [4,3]: shapes %v and %v, expected [2 1] and [4 1] (index is now %v)", a.Shape(), b.Shape(), ix)
		}
		pix := []tensor.Range{{From: 0, To: 0}, {From: 1, To: 2}}
		p1 := rt.Make(enum.Labels([]int{2, 1}, 500), false)
		p2 := rt.Make(enum.Labels([]int{3, 1}, 600), false)
		if _, err := large.Patch(pix, p1); err != nil {
			return core.Fail("Patch: %v", err)
		}
		if _, err := large.Patch(pix, p2); err != nil {
			return core.Fail("second Patch with the same index object and a 3x1 source: %v (index is now %v)", err, pix)
		}
		return core.Pass()
	})
	// Concat of four and five operands of different sizes along every dimension
	for _, base := range [][]int{{1}, {1, 2}, {2, 1}, {2, 1, 3}, {1, 2, 2}} {
		for d := range base {
			if base[d] != 1 {
				continue
			}
			for _, sizes := range [][]int{{1, 2, 1, 3}, {2, 1, 1, 1, 2}, {3, 3, 3, 3}, {1, 1, 1, 1, 1}} {
				base, d, sizes := base, d, sizes
				c.Case(fmt.Sprintf("concatN/%v/dim%d/%v", base, d, sizes), true, func() core.Verdict {
					var in []*ref.T
					for i, n := range sizes {
						sh := ref.CopyShape(base)
						sh[d] = n
						in = append(in, enum.Labels(sh, float64(100*i)))
					}
					return applyBoth(ref.Op{K: "Concat", Dim: d}, in, true)
				})
			}
		}
	}
	// Eye
	for _, n := range []int{1, 2, 3, 4, 5, 17, 40} {
		n := n
		c.Case(fmt.Sprintf("eye/%d", n), n > 1, func() core.Verdict {
			e, err := tensor.Eye(n, rt.Conf(false))
			if err != nil {
				return core.Fail("Eye(%d): %v", n, err)
			}
			if ok, msg := core.ExactEq(rt.Read(e), ref.Eye(n)); !ok {
				return core.Fail("Eye(%d): %s", n, msg)
			}
			return core.Pass()
		})
	}
}
