package main

import "fmt"

func cmdSelftest() int {
	fails := refSelftest()
	if fails > 0 {
		fmt.Printf("selftest: %d FAILURES\n", fails)
		return 2
	}
	fmt.Println("selftest: ok")
	return 0
}
