package main

import (
	"fmt"
	"math"

	"github.com/sahandsafizadeh/qeep/tensor"
	"qmc/core"
	"qmc/enum"
	"qmc/ref"
	"qmc/rt"
)

var valueClasses = []float64{0, math.Copysign(0, -1), 1, -1, 2.5, -2.5, 1e-6, 1e6, -1e6}

func scaleOf(ts ...*ref.T) float64 {
	m := enum.MaxAbs(ts...)
	if m < 1 {
		m = 1
	}
	return m
}

// applyBoth runs op on the model and on the real code (fresh untracked
// operands) and compares. exact selects bit-exact comparison.
func applyBoth(op ref.Op, in []*ref.T, exact bool) core.Verdict {
	exp, ok := ref.Eval(op, in)
	if !ok {
		return core.Fail("HARNESS: model rejects enumerated configuration %s", op)
	}
	rin := make([]tensor.Tensor, len(in))
	for i, t := range in {
		rin[i] = rt.Make(t, false)
	}
	got, err := rt.Apply(op, rin)
	if err != nil {
		return core.Fail("%s on shapes %v: unexpected error: %v", op, shapesStr(in), err)
	}
	if got == nil {
		return core.Fail("%s on shapes %v: nil result without error", op, shapesStr(in))
	}
	g := rt.Read(got)
	if n := got.NElems(); n != ref.Size(exp.Shape) {
		return core.Fail("%s: NElems %d, expected %d", op, n, ref.Size(exp.Shape))
	}
	if msg := wellFormed(got, g); msg != "" {
		return core.Fail("%s on %v: %s", op, shapesStr(in), msg)
	}
	for i := range rin {
		if ok, msg := core.ExactEq(rt.Read(rin[i]), in[i]); !ok {
			return core.Fail("%s on %v changed its operand %d: %s", op, shapesStr(in), i, msg)
		}
	}
	var same bool
	var msg string
	if exact {
		same, msg = core.ExactEq(g, exp)
	} else {
		same, msg = core.Close(g, exp, scaleOf(append(in, exp)...))
	}
	if !same {
		return core.Fail("%s on %v: %s", op, shapesStr(in), msg)
	}
	return core.Pass()
}

// wellFormed: the result's nested data is exactly what its shape announces
// (directly through the hook, and through the public API: the global Sum must
// be the sum of the elements At returns).
func wellFormed(t tensor.Tensor, read *ref.T) string {
	flat, nesting, dims, rect, ok := tensor.VerifInspect(t)
	sh := read.Shape
	if ok {
		if !rect || !ref.SameShape(dims, sh) || len(flat) != ref.Size(sh) || (len(sh) > 0 && !ref.SameShape(nesting, sh)) {
			return fmt.Sprintf("malformed result: Shape() %v but stored dims %v, nesting %v (rectangular=%v), %d stored elements", sh, dims, nesting, rect, len(flat))
		}
	}
	sum, abs, finite := 0., 0., true
	for _, v := range read.V {
		sum += v
		abs += math.Abs(v)
		if math.IsNaN(v) || math.IsInf(v, 0) {
			finite = false
		}
	}
	if finite && !math.IsInf(abs, 0) {
		if s := t.Sum(); math.Abs(s-sum) > 1e-9*(1+abs) {
			return fmt.Sprintf("Sum() = %v but the elements returned by At add up to %v (shape %v)", s, sum, sh)
		}
	}
	return ""
}

// smallInts: exact small integers 1,2,3,...,10,1,2,... in ascending runs
// (sorted data, integer-valued floats, the value 10.0, repeated maxima).
func smallInts(s []int) *ref.T {
	t := ref.New(s)
	for i := range t.V {
		t.V[i] = float64(i%10 + 1)
	}
	return t
}

func shapesStr(in []*ref.T) string {
	s := ""
	for _, t := range in {
		s += fmt.Sprint(t.Shape)
	}
	return s
}

/* ---------------- C03 ---------------- */

func c03Ops(s []int) []ref.Op {
	ops := []ref.Op{{K: "Scale", F: 2}, {K: "Exp"}, {K: "Sin"}, {K: "Pow", F: 2}, {K: "Tanh"}, {K: "Add"}, {K: "Mul"}, {K: "Sub"}, {K: "Div"}, {K: "ElMax"}, {K: "Gt"}, {K: "Eq"}}
	return ops
}

// c03PowNegative: the element-wise power function on negative bases: integer exponents give the
// signed power, non-integer exponents give NaN (x^a is not a real number), zero gives 0 / 1 / +Inf.
func c03PowNegative(c *core.Ctx) {
	for _, a := range []float64{0.5, 1. / 3, 2. / 3, -0.5, 1.5, 2.5, -1. / 3, 0.2, 3, -3, 2, -2, 0, 1} {
		a := a
		c.Case(fmt.Sprintf("pownegative/%g", a), true, func() core.Verdict {
			x := &ref.T{Shape: []int{2, 4}, V: []float64{-8, -1, -1e-3, -27, 8, 0.001, -0.5, 27}}
			return applyBoth(ref.Op{K: "Pow", F: a}, []*ref.T{x}, false)
		})
	}
}

func checkC03(c *core.Ctx) {
	defer c03PowNegative(c)
	defer sweepC03(c)
	defer scalingCases(c, "Add", "Sub", "Mul", "Div", "ElMax", "ElMin", "Scale", "Pow")
	defer sidefxCases(c, "Scale", "Pow", "Exp", "Log", "Sin", "Cos", "Tan", "Sinh", "Cosh", "Tanh", "Add", "Sub", "Mul", "Div", "ElMax", "ElMin")
	defer selfCases(c, false, "elementwise", "compare")
	defer soakC03(c)
	defer gridC03(c)
	defer scalarArgC03(c)
	defer specialC03(c)
	sameOperandSequence(c, "sameoperand", [][]int{{3}, {2, 3}, {2, 1, 3}, {5, 2}}, c03Ops, false)
	composeCases(c, "compose", composeShapes, consumersElementwise, false)
	shapes := append(enum.ShapeSet(c.Thorough()), longShapes(c.Thorough())...)
	unaryOps := []ref.Op{}
	for _, a := range []float64{-1.5, 0, 2} {
		unaryOps = append(unaryOps, ref.Op{K: "Scale", F: a})
	}
	for _, a := range []float64{-2, -1, 0, 0.5, 1, 2, 3} {
		unaryOps = append(unaryOps, ref.Op{K: "Pow", F: a})
	}
	for _, k := range []string{"Exp", "Log", "Sin", "Cos", "Tan", "Sinh", "Cosh", "Tanh"} {
		unaryOps = append(unaryOps, ref.Op{K: k})
	}
	// (a) unary operations, every shape, generic (all-distinct) values
	for _, s := range shapes {
		for _, op := range unaryOps {
			op, s := op, s
			c.Case(fmt.Sprintf("unary/%s/%v", op, s), ref.Size(s) > 1, func() core.Verdict {
				in := genInputs(op, [][]int{s}, 11)
				if op.K == "Pow" && op.F == 0.5 {
					in = []*ref.T{enum.Generic(s, 11, 0.5, 3, false)}
				}
				if v := applyBoth(op, in, false); !v.OK {
					return v
				}
				// data-dependent paths: all elements equal; small exact integers in ascending order
				for _, x := range []*ref.T{ref.FullOf(s, 2), ref.FullOf(s, 0.5), smallInts(s)} {
					if v := applyBoth(op, []*ref.T{x}, false); !v.OK {
						return v
					}
				}
				return core.Pass()
			})
		}
	}
	// (b) unary operations on value classes (single element and pairs)
	for _, op := range unaryOps {
		for _, v := range valueClasses {
			op, v := op, v
			c.Case(fmt.Sprintf("unaryclass/%s/%v", op, v), true, func() core.Verdict {
				return applyBoth(op, []*ref.T{{Shape: []int{2}, V: []float64{v, 0.75}}}, false)
			})
		}
	}
	// (b2) unary functions at the edges of the finite range
	edge := []float64{5e-324, 1e-300, 1e-17, 1e-12, 1e-9, 1 - 1e-16, 1 + 2e-16, 700.5, 709.7, 710, -745, -746, 1e300, -1e300, 1.7e308}
	for _, op := range unaryOps {
		for _, v := range edge {
			op, v := op, v
			c.Case(fmt.Sprintf("unaryedge/%s/%v", op, v), true, func() core.Verdict {
				x := &ref.T{Shape: []int{2}, V: []float64{v, 0.75}}
				exp, _ := ref.Eval(op, []*ref.T{x})
				got, err := rt.Apply(op, []tensor.Tensor{rt.Make(x, false)})
				if err != nil {
					return core.Fail("%s: %v", op, err)
				}
				g := rt.Read(got)
				if !ref.SameShape(g.Shape, exp.Shape) {
					return core.Fail("%s(%v): shape %v", op, v, g.Shape)
				}
				for i, e := range exp.V {
					if math.IsInf(e, 0) && math.Abs(x.V[i]) < 710.5 {
						continue // Go's Cosh / Sinh overflow a little before the true value does: a more accurate result is not wrong
					}
					if math.IsNaN(e) || math.IsInf(e, 0) {
						if !(math.IsNaN(e) && math.IsNaN(g.V[i])) && g.V[i] != e {
							return core.Fail("%s(%v) = %v, expected %v", op, x.V[i], g.V[i], e)
						}
						continue
					}
					// relative 1e-12 with an absolute floor in the subnormal range (a faithfully rounded
					// result may differ there by a unit of the last subnormal place)
					if d := math.Abs(g.V[i] - e); d > 1e-12*math.Abs(e)+1e-300 || math.IsNaN(d) {
						return core.Fail("%s(%v) = %v, expected %v", op, x.V[i], g.V[i], e)
					}
				}
				return core.Pass()
			})
		}
	}
	// (c) Add/Sub/Mul/Div: every target shape, every operand pair broadcasting to it
	bshapes := append(enum.ShapeSet(c.Thorough()), []int{40}, []int{2, 33}, []int{33, 2}, []int{3, 17, 2})
	for _, t := range bshapes {
		if c.Expired() {
			break
		}
		pairs := enum.BroadcastPairs(t)
		for _, pr := range pairs {
			for _, k := range ref.BroadcastingKinds {
				k, pr, t := k, pr, t
				nontrivial := !ref.SameShape(pr[0], pr[1])
				c.Case(fmt.Sprintf("bcast/%s/%v/%v->%v", k, pr[0], pr[1], t), nontrivial, func() core.Verdict {
					a := enum.Generic(pr[0], 21, 0.5, 3, true)
					b := enum.Generic(pr[1], 22, 0.5, 3, true)
					op := ref.Op{K: k}
					v := applyBoth(op, []*ref.T{a, b}, false)
					if !v.OK {
						return v
					}
					// exact integers / constant operands
					if v := applyBoth(op, []*ref.T{smallInts(pr[0]), ref.FullOf(pr[1], 2)}, false); !v.OK {
						return v
					}
					if v := applyBoth(op, []*ref.T{ref.FullOf(pr[0], 0.5), smallInts(pr[1])}, false); !v.OK {
						return v
					}
					// differential: identical to broadcasting explicitly first
					ra, rb := rt.Make(a, false), rt.Make(b, false)
					implicit, err := rt.Apply(op, []tensor.Tensor{ra, rb})
					if err != nil {
						return core.Fail("%s: %v", op, err)
					}
					ea, err1 := ra.Broadcast(ref.CopyShape(t))
					eb, err2 := rb.Broadcast(ref.CopyShape(t))
					if err1 != nil || err2 != nil {
						return core.Fail("explicit Broadcast of %v/%v to %v failed: %v %v", pr[0], pr[1], t, err1, err2)
					}
					explicit, err := rt.Apply(op, []tensor.Tensor{ea, eb})
					if err != nil {
						return core.Fail("%s after explicit broadcast: %v", op, err)
					}
					if ok, msg := core.ExactEq(rt.Read(implicit), rt.Read(explicit)); !ok {
						return core.Fail("%s %v,%v: implicit vs explicit broadcasting differ: %s", k, pr[0], pr[1], msg)
					}
					return core.Pass()
				})
			}
		}
	}
	// (d) same-shape binary ops and comparisons on every shape, generic values
	sameOps := []string{"ElMax", "ElMin", "Eq", "Ne", "Gt", "Ge", "Lt", "Le"}
	for _, s := range shapes {
		for _, k := range sameOps {
			k, s := k, s
			c.Case(fmt.Sprintf("same/%s/%v", k, s), ref.Size(s) > 1, func() core.Verdict {
				a := enum.Generic(s, 31, 0.5, 3, true)
				b := enum.Generic(s, 32, 0.5, 3, true)
				// make about a third of the positions exact ties
				for i := range b.V {
					if i%3 == 1 {
						b.V[i] = a.V[i]
					}
				}
				v := applyBoth(ref.Op{K: k}, []*ref.T{a, b}, true)
				if !v.OK {
					return v
				}
				return checkEquals(a, b)
			})
		}
	}
	// (e0) ordered comparisons and ElMax/ElMin on tiny and huge magnitudes
	// (distinct values closer than the Eq tolerance are still ordered)
	extremes := []float64{0, 5e-324, -5e-324, 1e-300, 2e-300, -1e-300, 2e-250, -3e-250, 1e-200, 1e300, -1e300, 1.7e308, 1, 1 + 1e-15}
	for i, a := range extremes {
		for j, b := range extremes {
			a, b := a, b
			c.Case(fmt.Sprintf("extreme/%d,%d", i, j), true, func() core.Verdict {
				x := &ref.T{Shape: []int{2}, V: []float64{a, 0.5}}
				y := &ref.T{Shape: []int{2}, V: []float64{b, 0.5}}
				for _, k := range []string{"Gt", "Ge", "Lt", "Le", "ElMax", "ElMin"} {
					if v := applyBoth(ref.Op{K: k}, []*ref.T{x, y}, true); !v.OK {
						return v
					}
				}
				if a == b || math.Abs(a-b) > 1e-200 {
					for _, k := range []string{"Eq", "Ne"} {
						if v := applyBoth(ref.Op{K: k}, []*ref.T{x, y}, true); !v.OK {
							return v
						}
					}
					return checkEquals(x, y)
				}
				return core.Pass()
			})
		}
	}
	// (e) value classes, exhaustively over tensors of <= 2 (thorough: 3) elements
	maxN := 2
	if c.Thorough() {
		maxN = 3
	}
	allOps := append(append([]string{}, ref.BroadcastingKinds...), sameOps...)
	for n := 1; n <= maxN; n++ {
		total := 1
		for i := 0; i < 2*n; i++ {
			total *= len(valueClasses)
		}
		for code := 0; code < total; code++ {
			code, n := code, n
			c.Case(fmt.Sprintf("class/n%d/%d", n, code), true, func() core.Verdict {
				a, b := ref.New([]int{n}), ref.New([]int{n})
				x := code
				for i := 0; i < n; i++ {
					a.V[i] = valueClasses[x%len(valueClasses)]
					x /= len(valueClasses)
					b.V[i] = valueClasses[x%len(valueClasses)]
					x /= len(valueClasses)
				}
				for _, k := range allOps {
					exact := k != "Add" && k != "Sub" && k != "Mul" && k != "Div"
					if v := applyBoth(ref.Op{K: k}, []*ref.T{a, b}, exact); !v.OK {
						return v
					}
				}
				return checkEquals(a, b)
			})
		}
	}
}

// checkEquals: Equals is true exactly when every position compares equal.
func checkEquals(a, b *ref.T) core.Verdict {
	ra, rb := rt.Make(a, false), rt.Make(b, false)
	got, err := ra.Equals(rb)
	if err != nil {
		return core.Fail("Equals on equal shapes %v: error %v", a.Shape, err)
	}
	exp := true
	for i := range a.V {
		if a.V[i] != b.V[i] {
			exp = false
		}
	}
	if got != exp {
		return core.Fail("Equals(%v, %v) = %v, expected %v", a, b, got, exp)
	}
	self, err := ra.Equals(ra)
	if err != nil || !self {
		return core.Fail("Equals(x, x) = %v, %v", self, err)
	}
	return core.Pass()
}

/* ---------------- C04 ---------------- */

func checkC04(c *core.Ctx) {
	defer specialC04(c)
	defer sweepC04(c)
	defer scalingCases(c, "Dot", "MatMul", "Transpose")
	defer sidefxCases(c, "Dot", "MatMul", "Transpose")
	defer selfCases(c, false, "linalg")
	defer soakC04(c)
	defer gridC04(c)
	composeCases(c, "compose", composeShapes, consumersLinalg, false)
	// batch shapes
	var batches [][]int
	if c.Thorough() {
		batches = append(enum.Shapes(2, []int{1, 2, 3}), filterRank(enum.Shapes(4, []int{1, 2}), 3, 4)...)
	} else {
		batches = enum.Shapes(2, []int{1, 2, 3})
	}
	mk := func(batch []int, tail ...int) []int { return append(ref.CopyShape(batch), tail...) }
	for _, bt := range batches {
		if c.Expired() {
			break
		}
		for _, pr := range enum.BroadcastPairs(bt) {
			for m := 1; m <= 3; m++ {
				for n := 1; n <= 3; n++ {
					for k := 1; k <= 3; k++ {
						sa, sb := mk(pr[0], m, n), mk(pr[1], n, k)
						c.Case(fmt.Sprintf("matmul/%v/%v", sa, sb), m*n*k > 1, func() core.Verdict {
							a := enum.Generic(sa, 41, 0.5, 3, true)
							b := enum.Generic(sb, 42, 0.5, 3, true)
							v := applyBoth(ref.Op{K: "MatMul"}, []*ref.T{a, b}, false)
							if !v.OK {
								return v
							}
							return matmulIdentities(a, b)
						})
					}
				}
			}
			for n := 1; n <= 3; n++ {
				sa, sb := mk(pr[0], n), mk(pr[1], n)
				c.Case(fmt.Sprintf("dot/%v/%v", sa, sb), n > 1 || len(sa) > 1, func() core.Verdict {
					a := enum.Generic(sa, 43, 0.5, 3, true)
					b := enum.Generic(sb, 44, 0.5, 3, true)
					return applyBoth(ref.Op{K: "Dot"}, []*ref.T{a, b}, false)
				})
			}
		}
	}
	// magnitudes: entries from value classes spanning 1e-300..1e250 (terms must
	// not be dropped or reordered away), exhaustively for [1,2]x[2,1], [2,1]x[1,2]
	// and Dot of 2-vectors
	mags := []float64{0, 1, -2.5, 1e-250, -1e-300, 1e250, 5e-324}
	nm := len(mags)
	for code := 0; code < nm*nm*nm*nm; code++ {
		code := code
		c.Case(fmt.Sprintf("magnitude/%d", code), true, func() core.Verdict {
			v := make([]float64, 4)
			x := code
			for i := range v {
				v[i] = mags[x%nm]
				x /= nm
			}
			a12, b21 := &ref.T{Shape: []int{1, 2}, V: []float64{v[0], v[1]}}, &ref.T{Shape: []int{2, 1}, V: []float64{v[2], v[3]}}
			for _, pr := range [][2]*ref.T{{a12, b21}, {b21, a12}} {
				exp, _ := ref.Eval(ref.Op{K: "MatMul"}, []*ref.T{pr[0], pr[1]})
				got, err := rt.Apply(ref.Op{K: "MatMul"}, []tensor.Tensor{rt.Make(pr[0], false), rt.Make(pr[1], false)})
				if err != nil {
					return core.Fail("MatMul: %v", err)
				}
				if ok, msg := relCloseFloor(rt.Read(got), exp, 1e-12, 1e-300); !ok {
					return core.Fail("MatMul %v x %v: %s", pr[0], pr[1], msg)
				}
			}
			d1, d2 := &ref.T{Shape: []int{2}, V: []float64{v[0], v[1]}}, &ref.T{Shape: []int{2}, V: []float64{v[2], v[3]}}
			exp, _ := ref.Eval(ref.Op{K: "Dot"}, []*ref.T{d1, d2})
			got, err := rt.Apply(ref.Op{K: "Dot"}, []tensor.Tensor{rt.Make(d1, false), rt.Make(d2, false)})
			if err != nil {
				return core.Fail("Dot: %v", err)
			}
			if ok, msg := relCloseFloor(rt.Read(got), exp, 1e-12, 1e-300); !ok {
				return core.Fail("Dot %v . %v: %s", d1, d2, msg)
			}
			return core.Pass()
		})
	}
	// structured operands (shortcuts for "special" matrices must be exact about what is special)
	structured := func(kind string, n int) *ref.T {
		m := ref.New([]int{n, n})
		for i := 0; i < n; i++ {
			for j := 0; j < n; j++ {
				v := 0.
				switch kind {
				case "identity":
					if i == j {
						v = 1
					}
				case "unitlower":
					if i == j {
						v = 1
					} else if i > j {
						v = 0.5 + float64(i+2*j)
					}
				case "unitupper":
					if i == j {
						v = 1
					} else if i < j {
						v = -1.5 + float64(2*i+j)
					}
				case "diagonal":
					if i == j {
						v = float64(i + 2)
					}
				case "permutation":
					if j == (i+1)%n {
						v = 1
					}
				case "symmetric":
					v = float64((i+1)*(j+1)) + 0.25
				case "zero":
				case "ones":
					v = 1
				case "almostidentity":
					if i == j {
						v = 1
					}
					if i == n-1 && j == 0 {
						v = 1e-9
					}
				}
				m.V[i*n+j] = v
			}
		}
		return m
	}
	for _, kind := range []string{"identity", "unitlower", "unitupper", "diagonal", "permutation", "symmetric", "zero", "ones", "almostidentity"} {
		for _, n := range []int{2, 3, 4} {
			kind, n := kind, n
			c.Case(fmt.Sprintf("structured/%s/%d", kind, n), true, func() core.Verdict {
				s := structured(kind, n)
				g := enum.Generic([]int{n, n}, 52, 0.5, 3, true)
				gb := enum.Generic([]int{2, n, n}, 53, 0.5, 3, true)
				for _, pr := range [][2]*ref.T{{s, g}, {g, s}, {s, s}, {gb, s}, {s, gb}} {
					if v := applyBoth(ref.Op{K: "MatMul"}, []*ref.T{pr[0], pr[1]}, false); !v.OK {
						return v
					}
				}
				if v := matmulIdentities(s, g); !v.OK {
					return v
				}
				return applyBoth(ref.Op{K: "Transpose"}, []*ref.T{s}, true)
			})
		}
	}
	// long inner / outer dimensions
	for _, mnk := range [][3]int{{1, 40, 1}, {2, 33, 3}, {17, 2, 19}, {9, 9, 9}, {33, 1, 33}, {5, 64, 2}, {20, 24, 10}, {64, 8, 9}, {16, 16, 17}, {3, 40, 40}, {40, 40, 3}, {1, 300, 20}, {130, 3, 2}} {
		for _, batch := range [][]int{{}, {2}, {3, 1}} {
			mnk, batch := mnk, batch
			c.Case(fmt.Sprintf("matmullong/%v/%v", batch, mnk), true, func() core.Verdict {
				sa := append(ref.CopyShape(batch), mnk[0], mnk[1])
				sb := append(ref.CopyShape(batch), mnk[1], mnk[2])
				a, b := enum.Generic(sa, 49, 0.5, 3, true), enum.Generic(sb, 50, 0.5, 3, true)
				if v := applyBoth(ref.Op{K: "MatMul"}, []*ref.T{a, b}, false); !v.OK {
					return v
				}
				return applyBoth(ref.Op{K: "Dot"}, []*ref.T{a, enum.Generic(sa, 51, 0.5, 3, true)}, false)
			})
		}
	}
	// Dot up to rank 6, Transpose over the whole shape set
	for _, s := range append(enum.ShapeSet(c.Thorough()), longShapes(c.Thorough())...) {
		s := s
		if len(s) >= 1 {
			c.Case(fmt.Sprintf("dotfull/%v", s), true, func() core.Verdict {
				return applyBoth(ref.Op{K: "Dot"}, []*ref.T{enum.Generic(s, 45, 0.5, 3, true), enum.Generic(s, 46, 0.5, 3, true)}, false)
			})
		}
		if len(s) >= 2 {
			c.Case(fmt.Sprintf("transpose/%v", s), ref.Size(s) > 1, func() core.Verdict {
				x := enum.Labels(s, 0)
				v := applyBoth(ref.Op{K: "Transpose"}, []*ref.T{x}, true)
				if !v.OK {
					return v
				}
				rx := rt.Make(x, false)
				t1, err := rx.Transpose()
				if err != nil {
					return core.Fail("Transpose: %v", err)
				}
				t2, err := t1.Transpose()
				if err != nil {
					return core.Fail("Transpose: %v", err)
				}
				if ok, msg := core.ExactEq(rt.Read(t2), x); !ok {
					return core.Fail("Transpose∘Transpose != id on %v: %s", s, msg)
				}
				return core.Pass()
			})
			// MatMul with full-rank equal batches up to rank 6
			for _, k := range []int{1, 2, 3} {
				k := k
				c.Case(fmt.Sprintf("matmulfull/%v/k%d", s, k), true, func() core.Verdict {
					sb := ref.CopyShape(s)
					sb[len(sb)-2], sb[len(sb)-1] = s[len(s)-1], k
					return applyBoth(ref.Op{K: "MatMul"}, []*ref.T{enum.Generic(s, 47, 0.5, 3, true), enum.Generic(sb, 48, 0.5, 3, true)}, false)
				})
			}
		}
	}
}

func filterRank(ss [][]int, lo, hi int) [][]int {
	var out [][]int
	for _, s := range ss {
		if len(s) >= lo && len(s) <= hi {
			out = append(out, s)
		}
	}
	return out
}

// matmulIdentities: A·I = A, I·A = A, (A·B)^T = B^T·A^T on the real code.
func matmulIdentities(a, b *ref.T) core.Verdict {
	ra, rb := rt.Make(a, false), rt.Make(b, false)
	la := len(a.Shape)
	n := a.Shape[la-1]
	m := a.Shape[la-2]
	in, _ := tensor.Eye(n, rt.Conf(false))
	im, _ := tensor.Eye(m, rt.Conf(false))
	ai, err := ra.MatMul(in)
	if err != nil {
		return core.Fail("A·I: %v", err)
	}
	if ok, msg := core.ExactEq(rt.Read(ai), a); !ok {
		return core.Fail("A·I != A for A%v: %s", a.Shape, msg)
	}
	ia, err := im.MatMul(ra)
	if err != nil {
		return core.Fail("I·A: %v", err)
	}
	if ok, msg := core.ExactEq(rt.Read(ia), a); !ok {
		return core.Fail("I·A != A for A%v: %s", a.Shape, msg)
	}
	ab, err := ra.MatMul(rb)
	if err != nil {
		return core.Fail("A·B: %v", err)
	}
	abt, err := ab.Transpose()
	if err != nil {
		return core.Fail("(A·B)^T: %v", err)
	}
	at, _ := ra.Transpose()
	bt, _ := rb.Transpose()
	btat, err := bt.MatMul(at)
	if err != nil {
		return core.Fail("B^T·A^T: %v", err)
	}
	if ok, msg := core.Close(rt.Read(abt), rt.Read(btat), scaleOf(a, b)*scaleOf(a, b)*float64(n)); !ok {
		return core.Fail("(A·B)^T != B^T·A^T for %v,%v: %s", a.Shape, b.Shape, msg)
	}
	return core.Pass()
}

/* ---------------- C05 ---------------- */

// longShapes: a few shapes with long dimensions (thresholds such as block
// sizes, unrolling factors or small-buffer optimisations live beyond size 3).
func longShapes(thorough bool) [][]int {
	out := [][]int{{31}, {32}, {33}, {64}, {65}, {100}, {257}, {2, 40}, {40, 2}, {33, 3}, {2, 40, 3}, {5, 7}, {7, 5, 4}, {17, 17},
		{4}, {6}, {8}, {16}, {4, 4}, {8, 2}, {2, 16}, {4, 6}, {1000}, {1024}, {1025}, {512, 2},
		{2, 1, 2, 1, 2}, {1, 2, 1, 2, 1, 2}, {2, 2, 1, 2, 2}, {2, 1, 1, 1, 1, 3}, {3, 1, 4, 1, 2}}
	if thorough {
		out = append(out, []int{1000}, []int{1025}, []int{3, 129, 2}, []int{130, 3}, []int{4, 4, 4, 4}, []int{5, 5, 5}, []int{2, 2, 2, 2, 2, 2, 2}[:6], []int{8, 9, 10})
	}
	return out
}

// relCloseFloor: |g - e| <= rel*|e| + floor element-wise (the floor covers the subnormal range, where a
// fused multiply-add or another rounding of the last place is as right as separate rounding).
func relCloseFloor(got, exp *ref.T, rel, floor float64) (bool, string) {
	if !ref.SameShape(got.Shape, exp.Shape) {
		return false, fmt.Sprintf("shape %v, expected %v", got.Shape, exp.Shape)
	}
	for i, e := range exp.V {
		g := got.V[i]
		if math.IsNaN(e) || math.IsInf(e, 0) {
			if !(math.IsNaN(e) && math.IsNaN(g)) && g != e {
				return false, fmt.Sprintf("element %d: got %v, expected %v", i, g, e)
			}
			continue
		}
		if d := math.Abs(g - e); d > rel*math.Abs(e)+floor || math.IsNaN(d) {
			return false, fmt.Sprintf("element %d: got %v, expected %v", i, g, e)
		}
	}
	return true, ""
}

// smallPart: for the 'hugecancel' value mode the rounding tolerance is derived
// from the elements that do not cancel (the huge pairs cancel exactly in any
// reasonable summation order); other modes: all elements.
func smallPart(mode string, xs []float64) []float64 {
	if mode != "hugecancel" {
		return xs
	}
	var out []float64
	for _, x := range xs {
		if math.Abs(x) < 1e300 {
			out = append(out, x)
		}
	}
	if len(out) == 0 {
		return []float64{0}
	}
	return out
}

// statTol: condition-aware tolerance of a statistic of xs. Sum/Avg: relative to
// the sum of magnitudes. Var/Std: a backward-stable algorithm has relative
// error about n*eps*kappa with kappa = sqrt(1 + mean^2/var) (two-pass and
// Welford do much better; the naive one-pass formula loses everything once
// kappa^2*eps ~ 1); extrema are exact.
func statTol(kind string, xs []float64, exp float64) float64 {
	n := float64(len(xs))
	abs := 0.
	for _, x := range xs {
		abs += math.Abs(x)
	}
	switch kind {
	case "Max", "Min":
		return 0
	case "Sum":
		return 1e-12*abs + 1e-300
	case "Avg", "Mean":
		return 1e-12*abs/n + 1e-300
	}
	mean := ref.Stat("Avg", xs)
	v := ref.Stat("Var", xs)
	floor := n * math.Pow(4.5e-16*math.Abs(mean), 2) // rounding of the mean itself
	if v == 0 {
		if kind == "Std" {
			return math.Sqrt(floor) + 1e-300
		}
		return floor + 1e-300
	}
	r := mean / math.Sqrt(v) // (not mean*mean/v: the square of a huge mean overflows)
	kappa := math.Sqrt(1 + r*r)
	rel := 1e-9 + 1e-14*n*kappa
	if kind == "Std" {
		return math.Abs(exp)*rel + math.Sqrt(floor) + 1e-300
	}
	return math.Abs(exp)*rel + floor + 1e-300
}

// sameOperandSequence: ONE tensor object goes through a list of operations,
// forwards, backwards and forwards again; every result is compared with the
// model (a cache or scratch area kept on the operand must not leak from one
// operation into the next).
func sameOperandSequence(c *core.Ctx, prefix string, shapes [][]int, opsOf func(s []int) []ref.Op, exact bool) {
	for _, s := range shapes {
		ops := opsOf(s)
		for start := 0; start < len(ops); start++ {
			s, start := s, start
			c.Case(fmt.Sprintf("%s/%v/from%d", prefix, s, start), true, func() core.Verdict {
				var x *ref.T
				if exact {
					x = enum.Labels(s, 0)
				} else {
					x = enum.Generic(s, 59, 0.5, 3, true)
				}
				rx := rt.Make(x, false)
				other := rt.Make(x, false)
				order := []int{}
				for i := 0; i < len(ops); i++ {
					order = append(order, (start+i)%len(ops))
				}
				for i := len(ops) - 1; i >= 0; i-- {
					order = append(order, (start+i)%len(ops))
				}
				for _, oi := range order {
					op := ops[oi]
					in := []*ref.T{x}
					rin := []tensor.Tensor{rx}
					if op.Arity() == 2 {
						in = append(in, x)
						rin = append(rin, other)
					} else if op.K == "Concat" {
						in = append(in, x)
						rin = append(rin, rx)
					}
					exp, ok := ref.Eval(op, in)
					if !ok {
						return core.Fail("HARNESS: invalid op %s on %v", op, s)
					}
					got, err := rt.Apply(op, rin)
					if err != nil {
						return core.Fail("%s: %v", op, err)
					}
					g := rt.Read(got)
					var same bool
					var msg string
					if exact {
						same, msg = core.ExactEq(g, exp)
					} else {
						same, msg = core.Close(g, exp, scaleOf(x, exp))
					}
					if !same {
						return core.Fail("%s on a %v tensor object that already went through other operations: %s", op, s, msg)
					}
					if m := wellFormed(got, g); m != "" {
						return core.Fail("%s: %s", op, m)
					}
				}
				if ok, msg := core.ExactEq(rt.Read(rx), x); !ok {
					return core.Fail("operand changed: %s", msg)
				}
				return core.Pass()
			})
		}
	}
}

// c05SameOperand: ONE tensor object is reduced along every ordered pair of
// dimensions (longer first and shorter first) with every reducer, and globally
// in between: results must not depend on what was computed from the operand before.
func c05SameOperand(c *core.Ctx) {
	shapes := [][]int{{3, 2}, {2, 3}, {4, 2, 3}, {2, 5, 3}, {3, 1, 4}, {2, 2, 2, 3}, {7, 2}}
	for _, s := range shapes {
		for d1 := range s {
			for d2 := range s {
				s, d1, d2 := s, d1, d2
				c.Case(fmt.Sprintf("sameoperand/%v/%d,%d", s, d1, d2), true, func() core.Verdict {
					x := enum.Generic(s, 58, 0.5, 4, true)
					rx := rt.Make(x, false)
					for round := 0; round < 2; round++ {
						for _, d := range []int{d1, d2} {
							for _, k := range ref.AlongKinds {
								op := ref.Op{K: k, Dim: d}
								exp, _ := ref.Eval(op, []*ref.T{x})
								got, err := rt.Apply(op, []tensor.Tensor{rx})
								if err != nil {
									return core.Fail("%s: %v", op, err)
								}
								if ok, msg := core.Close(rt.Read(got), exp, scaleOf(x)*scaleOf(x)*float64(s[d])); !ok {
									return core.Fail("%s on a %v tensor that was already reduced along dim %d (round %d): %s", op, s, d1, round, msg)
								}
							}
							if got, exp := rx.Sum(), ref.Stat("Sum", x.V); math.Abs(got-exp) > 1e-9*float64(len(x.V))*scaleOf(x) {
								return core.Fail("Sum() after Along reductions: %v, expected %v", got, exp)
							}
							if got, exp := rx.Var(), ref.Stat("Var", x.V); math.Abs(got-exp) > statTol("Var", x.V, exp) {
								return core.Fail("Var() after Along reductions: %v, expected %v", got, exp)
							}
						}
					}
					if ok, msg := core.ExactEq(rt.Read(rx), x); !ok {
						return core.Fail("operand changed: %s", msg)
					}
					return core.Pass()
				})
			}
		}
	}
}

func checkC05(c *core.Ctx) {
	defer gridC05(c)
	defer scalingCases(c, "SumAlong", "MaxAlong", "MinAlong", "AvgAlong", "VarAlong", "StdAlong", "MeanAlong", "global")
	defer sidefxCases(c, "SumAlong", "MaxAlong", "MinAlong", "AvgAlong", "VarAlong", "StdAlong", "MeanAlong")
	defer soakC05(c)
	c05SameOperand(c)
	composeCases(c, "compose", composeShapes, consumersReduce, false)
	kinds := []string{"Sum", "Max", "Min", "Avg", "Var", "Std", "Mean"}
	global := func(t tensor.Tensor, k string) float64 {
		switch k {
		case "Sum":
			return t.Sum()
		case "Max":
			return t.Max()
		case "Min":
			return t.Min()
		case "Avg":
			return t.Avg()
		case "Var":
			return t.Var()
		case "Std":
			return t.Std()
		}
		return t.Mean()
	}
	type valmode struct {
		name string
		gen  func(s []int) *ref.T
	}
	modes := []valmode{
		{"generic", func(s []int) *ref.T { return enum.Generic(s, 51, 0.5, 3, true) }},
		{"generic2", func(s []int) *ref.T { return enum.Generic(s, 52, 0.1, 7, true) }},
		{"negative", func(s []int) *ref.T {
			return ref.Map(enum.Generic(s, 53, 0.5, 3, false), func(x float64) float64 { return -x })
		}},
		{"constant", func(s []int) *ref.T { return ref.FullOf(s, 1.25) }},
		{"offset1e8", func(s []int) *ref.T {
			return ref.Map(enum.Generic(s, 55, 0.5, 4, true), func(x float64) float64 { return 1e8 + x })
		}},
		{"offset-7e8", func(s []int) *ref.T {
			return ref.Map(enum.Generic(s, 56, 0.5, 6, true), func(x float64) float64 { return -7e8 - math.Abs(x) })
		}},
		{"offset3e9", func(s []int) *ref.T {
			return ref.Map(enum.Generic(s, 57, 0.5, 4, true), func(x float64) float64 { return 3e9 + math.Round(x*2)/2 })
		}},
		{"ascending", func(s []int) *ref.T {
			t := ref.New(s)
			for i := range t.V {
				t.V[i] = float64(i) + 0.5
			}
			return t
		}},
		{"descending-ints", func(s []int) *ref.T {
			t := ref.New(s)
			for i := range t.V {
				t.V[i] = float64(len(t.V) - i)
			}
			return t
		}},
		{"two-valued", func(s []int) *ref.T {
			t := ref.New(s)
			for i := range t.V {
				t.V[i] = []float64{2, 10}[(i/2)%2]
			}
			return t
		}},
		{"firstmean", func(s []int) *ref.T { // the first element equals the mean of the whole tensor / of its row
			t := enum.Generic(s, 58, 0.5, 3, true)
			if n := len(t.V); n >= 3 {
				t.V[0] = 2
				for i := 1; i < n; i++ {
					t.V[i] = 2 + float64((i%2)*2-1)*float64(1+i/2) // 2 -+ k in pairs: mean 2 when n is odd
				}
			}
			return t
		}},
		{"hugecancel", func(s []int) *ref.T { // finite values near the overflow bound that cancel pairwise; the defined statistic is small
			t := enum.Generic(s, 59, 0.5, 3, true)
			for i := 0; i+1 < len(t.V)/2*2 && i < 4; i += 2 {
				t.V[i], t.V[i+1] = 1.2e308, -1.2e308
			}
			return t
		}},
		{"hugespread", func(s []int) *ref.T { // 2e154 +- 2e150: the squares of the VALUES overflow, the squared deviations (4e300) do not
			t := enum.Generic(s, 60, 0.1, 1, true)
			for i := range t.V {
				t.V[i] = 2e154 + 2e150*t.V[i]
			}
			return t
		}},
		{"tie", func(s []int) *ref.T {
			t := enum.Generic(s, 54, 0.5, 3, true)
			if len(t.V) >= 2 {
				mx := ref.Stat("Max", t.V)
				mn := ref.Stat("Min", t.V)
				t.V[0], t.V[len(t.V)-1] = mx+1, mx+1
				if len(t.V) >= 4 {
					t.V[1], t.V[len(t.V)-2] = mn-1, mn-1
				}
			}
			return t
		}},
		// special data (round 16, checks_special.go): what a data-dependent shortcut would single out
		{"zeros", func(s []int) *ref.T { return ref.FullOf(s, 0) }},
		{"ones", func(s []int) *ref.T { return ref.FullOf(s, 1) }},
		{"zerosumrows", func(s []int) *ref.T {
			if t, ok := specialData(s, 61)["zerosumrows"]; ok {
				return t
			}
			return enum.Generic(s, 61, 0.5, 3, true)
		}},
		{"zerorows", func(s []int) *ref.T {
			if t, ok := specialData(s, 62)["zerorows"]; ok {
				return t
			}
			return enum.Generic(s, 62, 0.5, 3, true)
		}},
		{"sparse", func(s []int) *ref.T { // exact zeros among values of non-zero mean
			t := enum.Generic(s, 63, 0.5, 3, false)
			for i := range t.V {
				if i%3 == 1 {
					t.V[i] = 0
				}
			}
			return t
		}},
	}
	base05 := append(enum.ShapeSet(c.Thorough()), longShapes(c.Thorough())...)
	nBase05 := len(base05)
	for si, s := range append(base05, sweepShapes05(c.Thorough())...) {
		for _, md := range modes {
			if si >= nBase05 && md.name != "generic" && md.name != "ascending" && md.name != "two-valued" && md.name != "tie" && md.name != "hugespread" {
				continue // length sweep (see checks_sweep.go): four value modes
			}
			s, md := s, md
			c.Case(fmt.Sprintf("global/%s/%v", md.name, s), ref.Size(s) > 1, func() core.Verdict {
				x := md.gen(s)
				rx := rt.Make(x, false)
				for _, k := range kinds {
					exp := ref.Stat(k, x.V)
					got := global(rx, k)
					if math.IsInf(exp, 0) || math.IsNaN(exp) {
						continue // the defined statistic itself is not finite
					}
					if md.name == "hugecancel" && k != "Max" && k != "Min" {
						// +-1.2e308 pairs: the small part survives only in some summation orders (adding small
						// values to a huge partial sum absorbs them) - any order is correct; what is demanded
						// is a FINITE result within one unit of the huge terms of the defined one
						if math.IsNaN(got) || math.IsInf(got, 0) || math.Abs(got-exp) > 1e293 {
							return core.Fail("%s() of %v = %v, expected about %v (finite)", k, shortT(x), got, exp)
						}
						continue
					}
					if tol := statTol(k, smallPart(md.name, x.V), exp); math.IsNaN(got) || math.IsInf(got, 0) || math.Abs(got-exp) > tol {
						return core.Fail("%s() of %v = %v, expected %v (tolerance %.3g)", k, shortT(x), got, exp, tol)
					}
				}
				return core.Pass()
			})
			for d := range s {
				d := d
				c.Case(fmt.Sprintf("along/%s/%v/dim%d", md.name, s, d), s[d] > 1 && ref.Size(s) > s[d], func() core.Verdict {
					x := md.gen(s)
					for _, k := range ref.AlongKinds {
						op := ref.Op{K: k, Dim: d}
						exp, _ := ref.Eval(op, []*ref.T{x})
						got, err := rt.Apply(op, []tensor.Tensor{rt.Make(x, false)})
						if err != nil {
							return core.Fail("%s on %v: %v", op, s, err)
						}
						g := rt.Read(got)
						if !ref.SameShape(g.Shape, exp.Shape) {
							return core.Fail("%s on %v: shape %v, expected %v", op, s, g.Shape, exp.Shape)
						}
						bad := ""
						buf := make([]float64, s[d])
						ref.Fibres(x, d, func(ro int, offs []int) {
							for i, o := range offs {
								buf[i] = x.V[o]
							}
							if math.IsInf(exp.V[ro], 0) || math.IsNaN(exp.V[ro]) {
								return
							}
							if md.name == "hugecancel" && ref.StatKind(k) != "Max" && ref.StatKind(k) != "Min" {
								if bad == "" && (math.IsNaN(g.V[ro]) || math.IsInf(g.V[ro], 0) || math.Abs(g.V[ro]-exp.V[ro]) > 1e293) {
									bad = fmt.Sprintf("fibre %d %v: got %v, expected about %v (finite)", ro, buf, g.V[ro], exp.V[ro])
								}
								return
							}
							if tol := statTol(ref.StatKind(k), smallPart(md.name, buf), exp.V[ro]); bad == "" && (math.IsNaN(g.V[ro]) || math.IsInf(g.V[ro], 0) || math.Abs(g.V[ro]-exp.V[ro]) > tol) {
								bad = fmt.Sprintf("fibre %d %v: got %v, expected %v (tolerance %.3g)", ro, buf, g.V[ro], exp.V[ro], tol)
							}
						})
						if bad != "" {
							return core.Fail("%s on %v (%s values): %s", op, s, md.name, bad)
						}
					}
					return core.Pass()
				})
			}
		}
	}
}
