package main

import (
	"fmt"
	"math"
	"sort"

	"github.com/sahandsafizadeh/qeep/component/initializers"
	"github.com/sahandsafizadeh/qeep/component/layers"
	"github.com/sahandsafizadeh/qeep/tensor"
	xrand "golang.org/x/exp/rand"
	"gonum.org/v1/gonum/stat/distuv"
	"qmc/core"
	"qmc/enum"
	"qmc/ref"
	"qmc/rt"
)

// fixedInit is a custom layers.Initializer returning a given tensor.
type fixedInit struct {
	t    *ref.T
	nil_ bool
}

func (f fixedInit) Init(shape []int) (tensor.Tensor, error) {
	if f.nil_ {
		return nil, nil
	}
	return rt.Make(f.t, true), nil
}

type errInit struct{}

func (errInit) Init(shape []int) (tensor.Tensor, error) { return nil, fmt.Errorf("initializer failed") }

func fcModel(x, w, b *ref.T) *ref.T {
	r, _ := ref.Eval(ref.Op{K: "FC"}, []*ref.T{x, w, b})
	return r
}

func checkC16(c *core.Ctx) {
	defer specialC16(c)
	defer sweepC16(c)
	defer selfCases(c, false, "fc")
	defer selfCases(c, true, "fc")
	defer soakC16(c)
	defer gridC16(c)
	if c.Shard == 0 && c.Only == "" {
		if f := refSelftest(); f > 0 {
			c.Broken("reference model selftest failed (%d)", f)
			return
		}
	}
	maxDim := 3
	if c.Thorough() {
		maxDim = 4
	}
	// (1) forward formula and gradients, x tracked / untracked, two value
	// assignments, all-ones and non-uniform upstream
	for B := 1; B <= maxDim; B++ {
		for D := 1; D <= maxDim; D++ {
			for O := 1; O <= maxDim; O++ {
				for vi := 0; vi < 2; vi++ {
					for xt := 0; xt < 2; xt++ {
						for wi := 0; wi < 2; wi++ {
							B, D, O, vi, xt, wi := B, D, O, vi, xt, wi
							c.Case(fmt.Sprintf("grad/B%d/D%d/O%d/v%d/x%d/w%d", B, D, O, vi, xt, wi), B > 1 || D > 1 || O > 1, func() core.Verdict {
								x := enum.Generic([]int{B, D}, uint64(801+vi), 0.5, 3, true)
								w := enum.Generic([]int{O}, uint64(803+vi), 0.5, 3, true)
								b := enum.Generic([]int{O}, uint64(805+vi), 0.5, 3, true)
								p := &ref.Program{Leaves: []*ref.T{x, w, b}, Tracked: []bool{xt == 1, true, true},
									Nodes: []ref.Node{{Op: ref.Op{K: "FC"}, In: []int{0, 1, 2}}}}
								root := 3
								if wi == 1 {
									p, root = withWeighting(p, root, 31)
								}
								v := gradCase(p, root, gradOpts{allowKF: true})
								if !v.OK && !v.Skip {
									v.Detail = describeProgram(p) + " :: " + v.Detail
								}
								return v
							})
						}
					}
				}
				// (2) row independence, exactly: changing row r' leaves every other row bit-identical
				B, D, O := B, D, O
				c.Case(fmt.Sprintf("rows/B%d/D%d/O%d", B, D, O), B > 1, func() core.Verdict {
					x := enum.Generic([]int{B, D}, 811, 0.5, 3, true)
					w := enum.Generic([]int{O}, 812, 0.5, 3, true)
					b := enum.Generic([]int{O}, 813, 0.5, 3, true)
					fc, err := layers.NewFC(&layers.FCConfig{Inputs: D, Outputs: O, Initializers: map[string]layers.Initializer{"Weight": fixedInit{t: w}, "Bias": fixedInit{t: b}}})
					if err != nil {
						return core.Fail("NewFC with custom initializers: %v", err)
					}
					y0, err := fc.Forward(rt.Make(x, false))
					if err != nil {
						return core.Fail("Forward: %v", err)
					}
					base := rt.Read(y0)
					if ok, msg := core.Close(base, fcModel(x, w, b), 100); !ok {
						return core.Fail("Forward with custom initializers: %s", msg)
					}
					for r := 0; r < B; r++ {
						x2 := x.Clone()
						for d := 0; d < D; d++ {
							x2.V[r*D+d] += 7.5
						}
						y, err := fc.Forward(rt.Make(x2, false))
						if err != nil {
							return core.Fail("Forward: %v", err)
						}
						got := rt.Read(y)
						for r2 := 0; r2 < B; r2++ {
							for o := 0; o < O; o++ {
								same := got.V[r2*O+o] == base.V[r2*O+o]
								if r2 != r && !same {
									return core.Fail("output row %d changed when only input row %d changed", r2, r)
								}
							}
						}
					}
					return core.Pass()
				})
			}
		}
	}
	// (1b) dimensions beyond the bound, one configuration each, and an upstream
	// weighting whose elements cancel exactly
	for _, bdo := range [][3]int{{1, 5, 4}, {5, 1, 7}, {7, 6, 5}, {1, 33, 2}, {2, 2, 33}, {33, 3, 1}, {257, 2, 2}, {300, 3, 2}, {1000, 1, 1}, {2, 300, 3}, {3, 2, 300}} {
		for wi := 0; wi < 3; wi++ {
			bdo, wi := bdo, wi
			c.Case(fmt.Sprintf("gradbig/%v/w%d", bdo, wi), true, func() core.Verdict {
				x := enum.Generic([]int{bdo[0], bdo[1]}, 851, 0.5, 3, true)
				w := enum.Generic([]int{bdo[2]}, 852, 0.5, 3, true)
				b := enum.Generic([]int{bdo[2]}, 853, 0.5, 3, true)
				p := &ref.Program{Leaves: []*ref.T{x, w, b}, Tracked: []bool{true, true, true},
					Nodes: []ref.Node{{Op: ref.Op{K: "FC"}, In: []int{0, 1, 2}}}}
				root := 3
				if wi >= 1 {
					p, root = withWeighting(p, root, 33)
				}
				if wi == 2 {
					wt := p.Leaves[len(p.Leaves)-1]
					for i := 0; i+1 < len(wt.V); i += 2 {
						wt.V[i+1] = -wt.V[i]
					}
					if len(wt.V)%2 == 1 {
						wt.V[len(wt.V)-1] = 0
					}
				}
				v := gradCase(p, root, gradOpts{allowKF: true})
				if !v.OK && !v.Skip {
					v.Detail = describeProgram(p) + " :: " + v.Detail
				}
				return v
			})
		}
	}
	// (3) default initializers under a seeded source: W ~ XavierUniform(Inputs, Outputs), B = 0
	for D := 1; D <= maxDim; D++ {
		for O := 1; O <= maxDim; O++ {
			D, O := D, O
			c.Case(fmt.Sprintf("default/D%d/O%d", D, O), true, func() core.Verdict {
				seed := uint64(9000 + D*10 + O)
				xrand.Seed(seed)
				fc, err := layers.NewFC(&layers.FCConfig{Inputs: D, Outputs: O})
				if err != nil {
					return core.Fail("NewFC default: %v", err)
				}
				ws := fc.Weights()
				if len(ws) != 2 || !ws[0].Trainable || !ws[1].Trainable {
					return core.Fail("Weights() = %v", ws)
				}
				w, b := rt.Read(*ws[0].Value), rt.Read(*ws[1].Value)
				if !ref.SameShape(w.Shape, []int{O}) || !ref.SameShape(b.Shape, []int{O}) {
					return core.Fail("parameter shapes %v %v, expected [%d]", w.Shape, b.Shape, O)
				}
				src := xrand.New(xrand.NewSource(seed))
				r := math.Sqrt(6 / float64(D+O))
				exp := make([]float64, O)
				for i := range exp {
					exp[i] = distuv.Uniform{Min: -r, Max: r, Src: src}.Rand()
				}
				g := append([]float64{}, w.V...)
				sort.Float64s(g)
				sort.Float64s(exp)
				for i := range exp {
					if g[i] != exp[i] {
						// not the seeded stream: fall back to the support bound
						for _, v := range w.V {
							if !(v >= -r && v < r) {
								return core.Fail("default W element %v outside +-sqrt(6/(%d+%d))", v, D, O)
							}
						}
						break
					}
				}
				for _, v := range b.V {
					if v != 0 {
						return core.Fail("default bias %v, expected zeros", b)
					}
				}
				for k, wt := range ws {
					tr, dirty, g, targets, _ := tensor.VerifGradState(*wt.Value)
					if !tr || dirty || g != nil || len(targets) != 0 {
						return core.Fail("parameter %d of a newly constructed layer is not a fresh tracked leaf: tracked=%v spent=%v has gradient=%v edges=%d", k, tr, dirty, g != nil, len(targets))
					}
				}
				// a second layer of the same size has its own parameter tensors,
				// and both layers train independently
				fc2, err := layers.NewFC(&layers.FCConfig{Inputs: D, Outputs: O})
				if err != nil {
					return core.Fail("NewFC default (second layer): %v", err)
				}
				if fc2.Weight == fc.Weight || fc2.Bias == fc.Bias || fc.Weight == fc.Bias {
					return core.Fail("two newly constructed layers (or W and B of one layer) share a parameter tensor object")
				}
				for li, l := range []*layers.FC{fc, fc2} {
					xin := rt.Make(enum.Generic([]int{1, D}, uint64(822+li), 0.5, 3, true), true)
					out, err := l.Forward(xin)
					if err != nil {
						return core.Fail("Forward: %v", err)
					}
					if err := tensor.BackPropagate(out); err != nil {
						return core.Fail("BackPropagate: %v", err)
					}
					if l.Weight.Gradient() == nil || l.Bias.Gradient() == nil || xin.Gradient() == nil {
						return core.Fail("layer %d of two default-initialised layers used one after the other: W, B or the tracked input received no gradient", li+1)
					}
					if ok, msg := core.Close(rt.Read(l.Bias.Gradient()), ref.FullOf([]int{O}, 1), 10); !ok {
						return core.Fail("layer %d bias gradient at batch size 1: %s", li+1, msg)
					}
				}
				x := enum.Generic([]int{2, D}, 821, 0.5, 3, true)
				y, err := fc.Forward(rt.Make(x, false))
				if err != nil {
					return core.Fail("Forward: %v", err)
				}
				if ok, msg := core.Close(rt.Read(y), fcModel(x, w, b), 100); !ok {
					return core.Fail("Forward with default parameters: %s", msg)
				}
				return core.Pass()
			})
		}
	}
	// (4) initializers from the library and failing custom initializers
	c.Case("custom/errors", true, func() core.Verdict {
		full := initializers.NewFull(&initializers.FullConfig{Value: 1.5})
		fc, err := layers.NewFC(&layers.FCConfig{Inputs: 2, Outputs: 3, Initializers: map[string]layers.Initializer{"Weight": full, "Bias": full}})
		if err != nil {
			return core.Fail("NewFC with Full initializers: %v", err)
		}
		x := enum.Generic([]int{2, 2}, 831, 0.5, 3, true)
		y, err := fc.Forward(rt.Make(x, false))
		if err != nil {
			return core.Fail("Forward: %v", err)
		}
		if ok, msg := core.Close(rt.Read(y), fcModel(x, ref.FullOf([]int{3}, 1.5), ref.FullOf([]int{3}, 1.5)), 100); !ok {
			return core.Fail("Forward with Full(1.5) parameters: %s", msg)
		}
		bad := []map[string]layers.Initializer{
			{"Weight": fixedInit{t: ref.FullOf([]int{2}, 1)}},  // wrong length
			{"Bias": fixedInit{t: ref.FullOf([]int{3, 1}, 1)}}, // wrong rank
			{"Weight": fixedInit{nil_: true}},                  // returns nil tensor
			{"Bias": errInit{}},                                // returns an error
			{"Weight": nil},                                    // nil initializer
		}
		for i, ini := range bad {
			var fc *layers.FC
			var err error
			if p := rt.Catch(func() { fc, err = layers.NewFC(&layers.FCConfig{Inputs: 2, Outputs: 3, Initializers: ini}) }); p != nil {
				return core.Fail("NewFC with bad initializer %d panicked: %v", i, p)
			}
			if err == nil || fc != nil {
				return core.Fail("NewFC with bad initializer %d: err=%v layer=%v", i, err, fc)
			}
		}
		return core.Pass()
	})
	// (4b) the config struct and its Initializers map are decoupled from the layer
	c.Case("config/decoupled", true, func() core.Verdict {
		w := enum.Generic([]int{3}, 861, 0.5, 3, true)
		b := enum.Generic([]int{3}, 862, 0.5, 3, true)
		inits := map[string]layers.Initializer{"Weight": fixedInit{t: w}, "Bias": fixedInit{t: b}}
		conf := &layers.FCConfig{Inputs: 2, Outputs: 3, Initializers: inits}
		fc, err := layers.NewFC(conf)
		if err != nil {
			return core.Fail("NewFC: %v", err)
		}
		conf.Inputs, conf.Outputs = 7, 1
		inits["Weight"] = fixedInit{t: ref.FullOf([]int{1}, 99)}
		delete(inits, "Bias")
		x := enum.Generic([]int{2, 2}, 863, 0.5, 3, true)
		y, err := fc.Forward(rt.Make(x, false))
		if err != nil {
			return core.Fail("Forward after the caller changed the config: %v", err)
		}
		if ok, msg := core.Close(rt.Read(y), fcModel(x, w, b), 100); !ok {
			return core.Fail("layer output after the caller changed its config struct / initializer map: %s", msg)
		}
		if len(inits) != 1 {
			return core.Fail("HARNESS")
		}
		// one (initially empty) Initializers map reused for a second layer of a
		// different size: the second layer's default W is XavierUniform of ITS
		// OWN Inputs/Outputs, i.e. within +-sqrt(6/(Inputs+Outputs))
		xrand.Seed(8642)
		m2 := map[string]layers.Initializer{}
		if _, err := layers.NewFC(&layers.FCConfig{Inputs: 1, Outputs: 1, Initializers: m2}); err != nil {
			return core.Fail("NewFC: %v", err)
		}
		big, err := layers.NewFC(&layers.FCConfig{Inputs: 300, Outputs: 300, Initializers: m2})
		if err != nil {
			return core.Fail("NewFC: %v", err)
		}
		bound := math.Sqrt(6. / 600.)
		outside := 0
		for _, v := range rt.Read(big.Weight).V {
			if !(v >= -bound && v < bound) {
				outside++
			}
		}
		if outside > 0 {
			return core.Fail("second layer (Inputs 300, Outputs 300) built from the same Initializers map as a 1x1 layer: %d of 300 default weights lie outside +-sqrt(6/600) = %.4f (the first layer's default initializer was written into the caller's map: map now has %d entries)", outside, bound, len(m2))
		}
		return core.Pass()
	})
	// (4d) a COPY of the layer value has live pointers of its own
	c.Case("copy/livepointers", true, func() core.Verdict {
		w := enum.Generic([]int{2}, 881, 0.5, 3, true)
		b := enum.Generic([]int{2}, 882, 0.5, 3, true)
		fc, err := layers.NewFC(&layers.FCConfig{Inputs: 2, Outputs: 2, Initializers: map[string]layers.Initializer{"Weight": fixedInit{t: w}, "Bias": fixedInit{t: b}}})
		if err != nil {
			return core.Fail("NewFC: %v", err)
		}
		_ = fc.Weights()
		clone := *fc
		w2 := enum.Generic([]int{2}, 883, 0.5, 3, true)
		b2 := enum.Generic([]int{2}, 884, 0.5, 3, true)
		ws := clone.Weights()
		*ws[0].Value = rt.Make(w2, true)
		*ws[1].Value = rt.Make(b2, true)
		x := enum.Generic([]int{2, 2}, 885, 0.5, 3, true)
		yc, err := clone.Forward(rt.Make(x, false))
		if err != nil {
			return core.Fail("Forward on the copy: %v", err)
		}
		if ok, msg := core.Close(rt.Read(yc), fcModel(x, w2, b2), 100); !ok {
			return core.Fail("a copy of the layer value: parameters replaced through ITS Weights() pointers are not used by ITS Forward: %s", msg)
		}
		yo, err := fc.Forward(rt.Make(x, false))
		if err != nil {
			return core.Fail("Forward: %v", err)
		}
		if ok, msg := core.Close(rt.Read(yo), fcModel(x, w, b), 100); !ok {
			return core.Fail("replacing parameters through a COPY's Weights() pointers changed the original layer: %s", msg)
		}
		return core.Pass()
	})
	// (4f) the input, the weight or the bias is itself the RESULT of an operation (images.Flatten(1) before the
	// first layer, tied / reshaped weights installed through Weights()): gradients reach the intermediate
	// tensor handed to the layer AND the leaves behind it
	{
		type prod struct {
			name  string
			leaf  []int
			nodes []ref.Op
		}
		B, D, O := 2, 6, 3
		xProds := []prod{
			{"Flatten", []int{B, 2, 3}, []ref.Op{{K: "Flatten", Dim: 1}}},
			{"Reshape", []int{B * D}, []ref.Op{{K: "Reshape", Shape: []int{B, D}}}},
			{"Squeeze", []int{B, 1, D}, []ref.Op{{K: "Squeeze", Dim: 1}}},
			{"UnSqueeze>Squeeze", []int{B, D}, []ref.Op{{K: "UnSqueeze", Dim: 0}, {K: "Squeeze", Dim: 0}}},
			{"Transpose", []int{D, B}, []ref.Op{{K: "Transpose"}}},
			{"Scale", []int{B, D}, []ref.Op{{K: "Scale", F: 1.5}}},
			{"Scale>Scale", []int{B, D}, []ref.Op{{K: "Scale", F: 0.5}, {K: "Scale", F: 3}}},
			{"Tanh", []int{B, D}, []ref.Op{{K: "Tanh"}}},
			{"Slice", []int{B + 1, D}, []ref.Op{{K: "Slice", Index: []ref.Range{{From: 1, To: B + 1}}}}},
			{"Reshape>Flatten", []int{B, 3, 2}, []ref.Op{{K: "Reshape", Shape: []int{B, 2, 3}}, {K: "Flatten", Dim: 1}}},
		}
		wProds := []prod{
			{"leaf", []int{O}, nil},
			{"Reshape", []int{O, 1}, []ref.Op{{K: "Reshape", Shape: []int{O}}}},
			{"Squeeze", []int{1, O}, []ref.Op{{K: "Squeeze", Dim: 0}}},
			{"Flatten", []int{O, 1}, []ref.Op{{K: "Flatten", Dim: 0}}},
			{"Scale", []int{O}, []ref.Op{{K: "Scale", F: 2}}},
			{"Slice", []int{O + 2}, []ref.Op{{K: "Slice", Index: []ref.Range{{From: 1, To: O + 1}}}}},
		}
		for _, xp := range xProds {
			for _, wp := range wProds {
				xp, wp := xp, wp
				c.Case(fmt.Sprintf("produced/x=%s/w=%s", xp.name, wp.name), true, func() core.Verdict {
					p := &ref.Program{Leaves: []*ref.T{enum.Generic(xp.leaf, 861, 0.1, 0.9, true), enum.Generic(wp.leaf, 862, 0.5, 2, true), enum.Generic(wp.leaf, 863, 0.5, 2, true)}, Tracked: []bool{true, true, true}}
					chain := func(start int, ops []ref.Op) int {
						cur := start
						for _, op := range ops {
							p.Nodes = append(p.Nodes, ref.Node{Op: op, In: []int{cur}})
							cur = p.NTensors() - 1
						}
						return cur
					}
					x := chain(0, xp.nodes)
					w := chain(1, wp.nodes)
					b := chain(2, wp.nodes)
					p.Nodes = append(p.Nodes, ref.Node{Op: ref.Op{K: "FC"}, In: []int{x, w, b}})
					if _, ok := p.Forward(); !ok {
						return core.Fail("HARNESS: invalid produced-input program")
					}
					q, root := withWeighting(p, p.NTensors()-1, 864)
					v := gradCase(q, root, gradOpts{allowKF: true})
					if !v.OK && !v.Skip && v.KF == "" {
						d := v.Detail
						if len(d) > 900 {
							d = d[:900]
						}
						v.Detail = fmt.Sprintf("FC whose input is the result of %s and whose parameters are results of %s: %s :: %s", xp.name, wp.name, describeProgram(q), d)
					}
					return v
				})
			}
		}
	}
	// (4e) a further Forward (an evaluation batch) between BackPropagate and the use of the
	// delivered gradients leaves them in place: same gradient objects, same values, and the
	// optimizer can still step the parameters through the Weights() pointers
	for _, evalTracked := range []bool{false, true} {
		evalTracked := evalTracked
		c.Case(fmt.Sprintf("evalforward/tracked%v", evalTracked), true, func() core.Verdict {
			w := enum.Generic([]int{2}, 891, 0.5, 3, true)
			b := enum.Generic([]int{2}, 892, 0.5, 3, true)
			fc, err := layers.NewFC(&layers.FCConfig{Inputs: 3, Outputs: 2, Initializers: map[string]layers.Initializer{"Weight": fixedInit{t: w}, "Bias": fixedInit{t: b}}})
			if err != nil {
				return core.Fail("NewFC: %v", err)
			}
			x := enum.Generic([]int{1, 3}, 893, 0.5, 3, true) // batch of one: the listed finding cannot show
			y, err := fc.Forward(rt.Make(x, false))
			if err != nil {
				return core.Fail("Forward: %v", err)
			}
			if err := tensor.BackPropagate(y); err != nil {
				return core.Fail("BackPropagate: %v", err)
			}
			ws := fc.Weights()
			gw, gb := (*ws[0].Value).Gradient(), (*ws[1].Value).Gradient()
			if gw == nil || gb == nil {
				return core.Fail("no parameter gradients after back-propagation")
			}
			vw, vb := rt.Read(gw), rt.Read(gb)
			wt, bt := *ws[0].Value, *ws[1].Value
			for k := 0; k < 2; k++ {
				x2 := enum.Generic([]int{2, 3}, uint64(894+k), 0.5, 3, true)
				y2, err := fc.Forward(rt.Make(x2, evalTracked))
				if err != nil {
					return core.Fail("second Forward: %v", err)
				}
				if ok, msg := core.Close(rt.Read(y2), fcModel(x2, w, b), 100); !ok {
					return core.Fail("second Forward: %s", msg)
				}
			}
			ws = fc.Weights()
			if *ws[0].Value != wt || *ws[1].Value != bt {
				return core.Fail("a Forward replaced the parameter tensors behind the Weights() pointers")
			}
			if (*ws[0].Value).Gradient() == nil || (*ws[1].Value).Gradient() == nil {
				return core.Fail("a further Forward (evaluation batch) after BackPropagate removed the gradients delivered to W / B (W: %v, B: %v)", (*ws[0].Value).Gradient() != nil, (*ws[1].Value).Gradient() != nil)
			}
			if ok, msg := core.ExactEq(rt.Read((*ws[0].Value).Gradient()), vw); !ok {
				return core.Fail("a further Forward changed W's gradient: %s", msg)
			}
			if ok, msg := core.ExactEq(rt.Read((*ws[1].Value).Gradient()), vb); !ok {
				return core.Fail("a further Forward changed B's gradient: %s", msg)
			}
			opt := lrCfg{lr: 0.5}.opt()
			for i, wp := range ws {
				before := rt.Read(*wp.Value)
				g := rt.Read((*wp.Value).Gradient())
				if err := opt.Update(wp.Value); err != nil {
					return core.Fail("Update of parameter %d after an evaluation Forward: %v", i, err)
				}
				exp := ref.New(before.Shape)
				for j := range exp.V {
					exp.V[j] = before.V[j] - 0.5*g.V[j]
				}
				if ok, msg := core.Close(rt.Read(*wp.Value), exp, 10); !ok {
					return core.Fail("Update of parameter %d after an evaluation Forward: %s", i, msg)
				}
			}
			return core.Pass()
		})
	}
	// (4c) twelve forward/backward passes on ONE layer, alternating batch sizes
	c.Case("long/alternating", true, func() core.Verdict {
		w := enum.Generic([]int{3}, 871, 0.5, 3, true)
		b := enum.Generic([]int{3}, 872, 0.5, 3, true)
		fc, err := layers.NewFC(&layers.FCConfig{Inputs: 2, Outputs: 3, Initializers: map[string]layers.Initializer{"Weight": fixedInit{t: w}, "Bias": fixedInit{t: b}}})
		if err != nil {
			return core.Fail("NewFC: %v", err)
		}
		for k := 0; k < 12; k++ {
			B := []int{1, 3, 1, 2}[k%4]
			x := enum.Generic([]int{B, 2}, uint64(873+k), 0.5, 3, true)
			xr := rt.Make(x, true)
			y, err := fc.Forward(xr)
			if err != nil {
				return core.Fail("pass %d Forward: %v", k+1, err)
			}
			if ok, msg := core.Close(rt.Read(y), fcModel(x, w, b), 100); !ok {
				return core.Fail("pass %d (batch %d): %s", k+1, B, msg)
			}
			if err := tensor.BackPropagate(y); err != nil {
				return core.Fail("pass %d BackPropagate: %v", k+1, err)
			}
			gx := ref.New([]int{B, 2})
			sw := w.V[0] + w.V[1] + w.V[2]
			for i := range gx.V {
				gx.V[i] = sw
			}
			if xr.Gradient() == nil {
				return core.Fail("pass %d: the tracked input received no gradient", k+1)
			}
			if ok, msg := core.Close(rt.Read(xr.Gradient()), gx, 100); !ok {
				return core.Fail("pass %d (batch %d) input gradient: %s", k+1, B, msg)
			}
			for pi, wt := range fc.Weights() {
				if (*wt.Value).Gradient() == nil {
					return core.Fail("pass %d: parameter %d received no gradient", k+1, pi)
				}
				(*wt.Value).ResetGradContext(true)
			}
		}
		return core.Pass()
	})
	// (5) every history of <= 4 (thorough 5) events over {replace W (2 values), replace B (2 values), Forward}
	depth := 4
	if c.Thorough() {
		depth = 5
	}
	total := 1
	for i := 0; i < depth; i++ {
		total *= 5
	}
	for code := 0; code < total; code++ {
		code := code
		c.Case(fmt.Sprintf("replace/%d", code), true, func() core.Verdict {
			const B, D, O = 2, 2, 3
			w := enum.Generic([]int{O}, 841, 0.5, 3, true)
			b := enum.Generic([]int{O}, 842, 0.5, 3, true)
			alts := []*ref.T{enum.Generic([]int{O}, 843, 0.5, 3, true), enum.Generic([]int{O}, 844, 0.5, 3, true)}
			x := enum.Generic([]int{B, D}, 845, 0.5, 3, true)
			fc, err := layers.NewFC(&layers.FCConfig{Inputs: D, Outputs: O, Initializers: map[string]layers.Initializer{"Weight": fixedInit{t: w}, "Bias": fixedInit{t: b}}})
			if err != nil {
				return core.Fail("NewFC: %v", err)
			}
			ws := fc.Weights() // taken once: the pointers must stay live
			k := code
			for step := 0; step < depth; step++ {
				ev := k % 5
				k /= 5
				switch ev {
				case 0, 1:
					w = alts[ev]
					*ws[0].Value = rt.Make(w, true)
				case 2, 3:
					b = alts[ev-2]
					*ws[1].Value = rt.Make(b, true)
				case 4:
					xr := rt.Make(x, true)
					y, err := fc.Forward(xr)
					if err != nil {
						return core.Fail("step %d Forward: %v", step, err)
					}
					if ok, msg := core.Close(rt.Read(y), fcModel(x, w, b), 100); !ok {
						return core.Fail("step %d: Forward does not use the tensors behind the Weights() pointers: %s", step, msg)
					}
					// the gradient reaches the very tensors behind the pointers
					if err := tensor.BackPropagate(y); err != nil {
						return core.Fail("BackPropagate: %v", err)
					}
					for pi, wt := range fc.Weights() {
						if (*wt.Value).Gradient() == nil {
							return core.Fail("step %d: parameter %d behind Weights() pointer received no gradient", step, pi)
						}
						(*wt.Value).ResetGradContext(true)
					}
				}
			}
			if *fc.Weights()[0].Value != fc.Weight || *fc.Weights()[1].Value != fc.Bias {
				return core.Fail("Weights() pointers do not address the layer's own tensors")
			}
			return core.Pass()
		})
	}
}
