// Package sched is a hand-written cooperative scheduler for stateless model
// checking of the real library: worker goroutines are real goroutines, exactly
// one holds the baton at any time, every Point() hands it back to the
// scheduler, which consults the schedule being explored (CHESS-style
// preemption-bounded search).
package sched

import (
	"fmt"
	"time"
)

type msg struct {
	tid  int
	done bool
	site string
}

// PointRec is one scheduling decision of an execution.
type PointRec struct {
	Enabled             []int // canonical order: running thread first if still enabled, then ascending ids
	Chosen              int   // index into Enabled
	RunningStillEnabled bool
	Site                string // where the previously running thread stopped
}

type Exec struct {
	Points  []PointRec
	Choices []int
	Hung    bool
	Results []any // per thread
}

// PreemptionsBefore counts preemptions among the first i decisions.
func (x *Exec) PreemptionsBefore(i int) int {
	n := 0
	for k := 0; k < i; k++ {
		if x.Points[k].RunningStillEnabled && x.Points[k].Chosen != 0 {
			n++
		}
	}
	return n
}

// Runner executes thread bodies under a given choice prefix.
type Runner struct {
	active  bool
	current int
	toSched chan msg
	resume  []chan struct{}
}

var theRunner *Runner

// Point is the scheduling point: called (through the library's verif hook, or
// directly by a thread body at API boundaries) on the goroutine that currently
// holds the baton. Outside a controlled execution it is a no-op.
func Point(site string) {
	r := theRunner
	if r == nil || !r.active {
		return
	}
	tid := r.current
	r.toSched <- msg{tid: tid, site: site}
	<-r.resume[tid]
}

// Run executes the bodies once. prefix gives the choices at the first
// len(prefix) decisions (an out-of-range choice is a hard error); later
// decisions take choice 0 (keep running the current thread).
func Run(bodies []func() any, prefix []int, stepTimeout time.Duration) (*Exec, error) {
	n := len(bodies)
	r := &Runner{toSched: make(chan msg), resume: make([]chan struct{}, n)}
	x := &Exec{Results: make([]any, n)}
	done := make([]bool, n)
	for i := range bodies {
		r.resume[i] = make(chan struct{})
		go func(i int) {
			<-r.resume[i]
			func() {
				defer func() {
					if p := recover(); p != nil {
						x.Results[i] = fmt.Sprintf("PANIC: %v", p)
					}
				}()
				x.Results[i] = bodies[i]()
			}()
			r.toSched <- msg{tid: i, done: true}
		}(i)
	}
	theRunner = r
	r.active = true
	defer func() { r.active = false; theRunner = nil }()
	running := -1
	lastSite := "start"
	for {
		var enabled []int
		stillEnabled := running >= 0 && !done[running]
		if stillEnabled {
			enabled = append(enabled, running)
		}
		for i := 0; i < n; i++ {
			if !done[i] && i != running {
				enabled = append(enabled, i)
			}
		}
		if len(enabled) == 0 {
			break
		}
		k := len(x.Points)
		choice := 0
		if k < len(prefix) {
			choice = prefix[k]
			if choice < 0 || choice >= len(enabled) {
				return x, fmt.Errorf("schedule divergence: decision %d has %d enabled threads, prefix asks for choice %d", k, len(enabled), choice)
			}
		}
		x.Points = append(x.Points, PointRec{Enabled: enabled, Chosen: choice, RunningStillEnabled: stillEnabled, Site: lastSite})
		x.Choices = append(x.Choices, choice)
		running = enabled[choice]
		r.current = running
		r.resume[running] <- struct{}{}
		select {
		case m := <-r.toSched:
			if m.done {
				done[m.tid] = true
				lastSite = "done"
			} else {
				lastSite = m.site
			}
		case <-time.After(stepTimeout):
			x.Hung = true
			return x, nil
		}
	}
	return x, nil
}

// Stats of one exploration.
type Stats struct {
	Executions int64
	MaxPoints  int
	PerBound   []int64 // executions first reached at each preemption bound
	BoundDone  int
	Truncated  bool
	TimedOut   bool
}

// Explore runs every schedule with at most `bound` preemptions (iterating the
// bound 0,1,..), calling check for every complete execution. check returns
// false to stop (a violation was found). mk builds fresh bodies (and a fresh
// fixture) for every execution.
func Explore(mk func() []func() any, bound int, maxExec int64, stepTimeout time.Duration, deadline time.Time, check func(x *Exec) bool) (Stats, error) {
	var st Stats
	stop := false
	var rec func(prefix []int, b int) error
	rec = func(prefix []int, b int) error {
		if stop {
			return nil
		}
		if maxExec > 0 && st.Executions >= maxExec {
			st.Truncated = true
			stop = true
			return nil
		}
		if !deadline.IsZero() && st.Executions%64 == 0 && time.Now().After(deadline) {
			st.Truncated = true
			st.TimedOut = true
			stop = true
			return nil
		}
		x, err := Run(mk(), prefix, stepTimeout)
		if err != nil {
			return err
		}
		st.Executions++
		if len(x.Points) > st.MaxPoints {
			st.MaxPoints = len(x.Points)
		}
		if !check(x) {
			stop = true
			return nil
		}
		for i := len(prefix); i < len(x.Points); i++ {
			p := x.Points[i]
			cost := x.PreemptionsBefore(i)
			if p.RunningStillEnabled {
				cost++
			}
			if cost > b {
				continue
			}
			for alt := 1; alt < len(p.Enabled); alt++ {
				np := append(append([]int{}, x.Choices[:i]...), alt)
				if err := rec(np, b); err != nil {
					return err
				}
				if stop {
					return nil
				}
			}
		}
		return nil
	}
	// A single recursion with the full bound visits every schedule with
	// <= bound preemptions exactly once (alternatives are only taken at
	// positions beyond the prefix). Bounds are iterated so that the first
	// counterexample has the fewest preemptions.
	for b := 0; b <= bound; b++ {
		before := st.Executions
		if b == 0 {
			if err := rec(nil, 0); err != nil {
				return st, err
			}
		} else {
			// re-explore with a larger bound; executions with fewer preemptions are revisited
			st.Executions = 0
			if err := rec(nil, b); err != nil {
				return st, err
			}
		}
		_ = before
		st.PerBound = append(st.PerBound, st.Executions)
		if stop {
			return st, nil
		}
		st.BoundDone = b
	}
	return st, nil
}
