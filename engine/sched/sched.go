// Package sched is a hand-written cooperative scheduler for stateless model
// checking of the real library: worker goroutines are real goroutines, exactly
// one holds the baton at any time, every Point() hands it back to the
// scheduler, which consults the schedule being explored (CHESS-style
// preemption-bounded search).
package sched

import (
	"fmt"
	"time"
)

type msg struct {
	tid  int
	done bool
	site string
}

// PointRec is one scheduling decision of an execution.
type PointRec struct {
	Enabled             []int // canonical order: running thread first if still enabled, then ascending ids
	Chosen              int   // index into Enabled
	RunningStillEnabled bool
	Site                string // where the previously running thread stopped
}

type Exec struct {
	Points     []PointRec
	Choices    []int
	Hung       bool     // a thread did not reach its next scheduling point within the step timeout (blocked in something the scheduler does not see)
	HungSite   string   // last scheduling point reached before the hang
	Deadlock   string   // non-empty: no thread is enabled although some have not finished (who waits where)
	ChildPanic string   // a thread spawned by the code under test (intercepted go statement) panicked
	Threads    int      // threads that existed (top-level bodies + spawned)
	Results    []any    // per top-level thread
	Sites      []string // site of every decision (same as Points[i].Site; kept for rendering)
}

// PreemptionsBefore counts preemptions among the first i decisions.
func (x *Exec) PreemptionsBefore(i int) int {
	n := 0
	for k := 0; k < i; k++ {
		if x.Points[k].RunningStillEnabled && x.Points[k].Chosen != 0 {
			n++
		}
	}
	return n
}

// Runner executes thread bodies under a given choice prefix.
type Runner struct {
	active  bool
	current int
	toSched chan msg
	threads []*thread
	x       *Exec
}

type thread struct {
	resume chan struct{}
	done   bool
	cond   func() bool // non-nil: blocked until cond() holds (evaluated by the scheduler while no thread runs)
	site   string
}

var theRunner *Runner

// Point is the scheduling point: called (through the library's verif hook, or
// directly by a thread body at API boundaries) on the goroutine that currently
// holds the baton. Outside a controlled execution it is a no-op.
func Point(site string) {
	r := theRunner
	if r == nil || !r.active {
		return
	}
	tid := r.current
	r.toSched <- msg{tid: tid, site: site}
	<-r.threads[tid].resume
}

// Active reports whether the calling code runs inside a controlled execution.
func Active() bool {
	r := theRunner
	return r != nil && r.active
}

// Block is a scheduling point at which the calling thread is enabled only
// once cond() holds (a lock that is free, a counter that reached zero...).
// cond must be a pure function of state that only controlled threads change.
// When Block returns, cond() holds and no other thread ran since it was
// evaluated.
func Block(site string, cond func() bool) {
	r := theRunner
	if r == nil || !r.active {
		panic("sched.Block outside a controlled execution")
	}
	tid := r.current
	t := r.threads[tid]
	t.cond, t.site = cond, site
	r.toSched <- msg{tid: tid, site: site}
	<-t.resume
}

// Spawn registers fn as a new thread of the running execution (the
// intercepted form of a go statement in the code under test). The new thread
// is enabled at once and first runs when the scheduler picks it.
func Spawn(fn func()) {
	r := theRunner
	if r == nil || !r.active {
		go fn()
		return
	}
	t := &thread{resume: make(chan struct{})}
	tid := len(r.threads)
	r.threads = append(r.threads, t)
	x := r.x
	go func() {
		<-t.resume
		func() {
			defer func() {
				if p := recover(); p != nil && x.ChildPanic == "" {
					x.ChildPanic = fmt.Sprintf("thread %d (spawned by the code under test): %v", tid, p)
				}
			}()
			fn()
		}()
		r.toSched <- msg{tid: tid, done: true}
	}()
}

// MaxPoints bounds the scheduling decisions of one execution.
var MaxPoints = 2000000

// Tainted is set when an execution was abandoned (step timeout or point budget): its goroutines are
// still alive and may reach a scheduling point later, so further controlled executions in this
// process cannot be trusted; the caller stops exploring.
var Tainted bool

// OnRunStart is called at the beginning of every controlled execution (the
// sync shim uses it to forget cooperative lock state left by an aborted one).
var OnRunStart func()

// Run executes the bodies once. prefix gives the choices at the first
// len(prefix) decisions (an out-of-range choice is a hard error); later
// decisions take choice 0 (keep running the current thread).
func Run(bodies []func() any, prefix []int, stepTimeout time.Duration) (*Exec, error) {
	n := len(bodies)
	x := &Exec{Results: make([]any, n)}
	r := &Runner{toSched: make(chan msg), x: x}
	if OnRunStart != nil {
		OnRunStart()
	}
	for i := range bodies {
		t := &thread{resume: make(chan struct{})}
		r.threads = append(r.threads, t)
		go func(i int) {
			<-t.resume
			func() {
				defer func() {
					if p := recover(); p != nil {
						x.Results[i] = fmt.Sprintf("PANIC: %v", p)
					}
				}()
				x.Results[i] = bodies[i]()
			}()
			r.toSched <- msg{tid: i, done: true}
		}(i)
	}
	theRunner = r
	r.active = true
	defer func() { r.active = false; theRunner = nil }()
	running := -1
	lastSite := "start"
	timer := time.NewTimer(stepTimeout)
	defer timer.Stop()
	isEnabled := func(i int) bool {
		t := r.threads[i]
		return !t.done && (t.cond == nil || t.cond())
	}
	for {
		var enabled []int
		stillEnabled := running >= 0 && isEnabled(running)
		if stillEnabled {
			enabled = append(enabled, running)
		}
		unfinished := 0
		for i := range r.threads {
			if !r.threads[i].done {
				unfinished++
			}
			if i != running && isEnabled(i) {
				enabled = append(enabled, i)
			}
		}
		x.Threads = len(r.threads)
		if len(enabled) == 0 {
			// a deadlock only if a TOP-LEVEL body cannot finish: goroutines the code under test
			// started for itself may legitimately stay parked for ever (a worker pool)
			topUnfinished := false
			for i := 0; i < n; i++ {
				if !r.threads[i].done {
					topUnfinished = true
				}
			}
			if unfinished > 0 && topUnfinished {
				for i, t := range r.threads {
					if !t.done {
						x.Deadlock += fmt.Sprintf("thread %d waits at %s; ", i, t.site)
					}
				}
			}
			break
		}
		if len(x.Points) >= MaxPoints {
			// a thread that spins on an atomic / TryLock reaches scheduling points for ever: this
			// scheduler has no fairness, so such code is not explorable here (not a verdict)
			x.Hung = true
			x.HungSite = fmt.Sprintf("%s (point budget of %d decisions exhausted: a spinning thread?)", lastSite, MaxPoints)
			Tainted = true
			return x, nil
		}
		k := len(x.Points)
		choice := 0
		if k < len(prefix) {
			choice = prefix[k]
			if choice < 0 || choice >= len(enabled) {
				return x, fmt.Errorf("schedule divergence: decision %d has %d enabled threads, prefix asks for choice %d", k, len(enabled), choice)
			}
		}
		x.Points = append(x.Points, PointRec{Enabled: enabled, Chosen: choice, RunningStillEnabled: stillEnabled, Site: lastSite})
		x.Choices = append(x.Choices, choice)
		running = enabled[choice]
		r.current = running
		r.threads[running].cond = nil
		// (a goroutine the scheduler does not own - started by the code under test outside a controlled
		// execution - may have stolen the thread's place at a scheduling point: then nobody receives here)
		if !timer.Stop() {
			select {
			case <-timer.C:
			default:
			}
		}
		timer.Reset(stepTimeout)
		select {
		case r.threads[running].resume <- struct{}{}:
		case <-timer.C:
			x.Hung = true
			x.HungSite = lastSite + " (the chosen thread did not take the baton: a goroutine outside the scheduler's control reached a scheduling point?)"
			Tainted = true
			return x, nil
		}
		// one timer per execution, re-armed for every step (a time.After per step leaves millions of
		// pending timers behind: they are only released when they fire)
		if !timer.Stop() {
			select {
			case <-timer.C:
			default:
			}
		}
		timer.Reset(stepTimeout)
		select {
		case m := <-r.toSched:
			if m.done {
				r.threads[m.tid].done = true
				lastSite = "done"
			} else {
				lastSite = m.site
			}
		case <-timer.C:
			x.Hung = true
			x.HungSite = lastSite
			Tainted = true
			return x, nil
		}
	}
	return x, nil
}

// Stats of one exploration.
type Stats struct {
	Executions int64
	MaxPoints  int
	PerBound   []int64 // executions first reached at each preemption bound
	BoundDone  int
	Truncated  bool
	TimedOut   bool
}

// Explore runs every schedule with at most `bound` preemptions (iterating the
// bound 0,1,..), calling check for every complete execution. check returns
// false to stop (a violation was found). mk builds fresh bodies (and a fresh
// fixture) for every execution.
func Explore(mk func() []func() any, bound int, maxExec int64, stepTimeout time.Duration, deadline time.Time, check func(x *Exec) bool) (Stats, error) {
	var st Stats
	stop := false
	var rec func(prefix []int, b int) error
	rec = func(prefix []int, b int) error {
		if stop {
			return nil
		}
		if maxExec > 0 && st.Executions >= maxExec {
			st.Truncated = true
			stop = true
			return nil
		}
		if !deadline.IsZero() && st.Executions%64 == 0 && time.Now().After(deadline) {
			st.Truncated = true
			st.TimedOut = true
			stop = true
			return nil
		}
		x, err := Run(mk(), prefix, stepTimeout)
		if err != nil {
			return err
		}
		st.Executions++
		if len(x.Points) > st.MaxPoints {
			st.MaxPoints = len(x.Points)
		}
		if !check(x) {
			stop = true
			return nil
		}
		for i := len(prefix); i < len(x.Points); i++ {
			p := x.Points[i]
			cost := x.PreemptionsBefore(i)
			if p.RunningStillEnabled {
				cost++
			}
			if cost > b {
				continue
			}
			for alt := 1; alt < len(p.Enabled); alt++ {
				np := append(append([]int{}, x.Choices[:i]...), alt)
				if err := rec(np, b); err != nil {
					return err
				}
				if stop {
					return nil
				}
			}
		}
		return nil
	}
	// A single recursion with the full bound visits every schedule with
	// <= bound preemptions exactly once (alternatives are only taken at
	// positions beyond the prefix). Bounds are iterated so that the first
	// counterexample has the fewest preemptions.
	for b := 0; b <= bound; b++ {
		before := st.Executions
		if b == 0 {
			if err := rec(nil, 0); err != nil {
				return st, err
			}
		} else {
			// re-explore with a larger bound; executions with fewer preemptions are revisited
			st.Executions = 0
			if err := rec(nil, b); err != nil {
				return st, err
			}
		}
		_ = before
		st.PerBound = append(st.PerBound, st.Executions)
		if stop {
			return st, nil
		}
		st.BoundDone = b
	}
	return st, nil
}
