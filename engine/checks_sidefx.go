package main

import (
	"fmt"

	"qmc/core"
	"qmc/enum"
	"qmc/ref"
)

/*
Side-effect histories: every operation is a pure function of its operands, so
what was computed from a tensor EARLIER (and thrown away) must not change what
is computed from it, or from results derived from it, LATER. For every ordered
triple (A, B, C) of operation configurations (one per operation kind and
parameter class) over a base tensor t:

    _ = A(t)          // result discarded: only its side effects on t, if any, remain
    p = B(t)
    q = C(p)

all of t, A(t), p, q are compared with the model after the last call. This is
the exhaustive three-call version of the composition cases (a lazily built
view or count cached on t by A and inherited by B's result is the typical
defect; seed C06-10).
*/

func sidefxAlphabet(s []int) []OpCase {
	var out []OpCase
	seen := map[string]bool{}
	forEachOpCase(opCaseOpts{shapes: [][]int{s}, maxIndexRank: 1, concatSizes: []int{1}, concat3: false}, func(oc OpCase) {
		key := oc.Op.K
		switch oc.Op.K {
		case "Scale":
			if oc.Op.F != 2 {
				return
			}
		case "Pow":
			if oc.Op.F != 2 {
				return
			}
		case "Slice", "Patch":
			sh, _ := ref.ResultShape(oc.Op, oc.In)
			key = fmt.Sprintf("%s/%v/%d", oc.Op.K, ref.SameShape(sh, oc.In[0]), len(oc.Op.Index))
		case "Reshape":
			key = fmt.Sprintf("Reshape/%d", len(oc.Op.Shape))
		case "Concat", "Flatten", "UnSqueeze", "Squeeze", "SumAlong", "MaxAlong", "MinAlong", "AvgAlong", "VarAlong", "StdAlong", "MeanAlong":
			key = fmt.Sprintf("%s/%d", oc.Op.K, oc.Op.Dim)
		}
		if seen[key] {
			return
		}
		seen[key] = true
		out = append(out, oc)
	})
	return out
}

func sidefxCases(c *core.Ctx, lastKinds ...string) {
	want := map[string]bool{}
	for _, k := range lastKinds {
		want[k] = true
	}
	bases := [][]int{{2, 3}, {4}}
	if c.Thorough() {
		bases = append(bases, []int{2, 1, 2}, []int{3, 3})
	}
	alphaCache := map[string][]OpCase{}
	alphaOf := func(s []int) []OpCase {
		k := fmt.Sprint(s)
		if a, ok := alphaCache[k]; ok {
			return a
		}
		a := sidefxAlphabet(s)
		alphaCache[k] = a
		return a
	}
	for _, s := range bases {
		ab := alphaOf(s)
		for ai, A := range ab {
			for bi, B := range ab {
				pShape, ok := ref.ResultShape(B.Op, B.In)
				if !ok {
					continue
				}
				for ci, C := range alphaOf(pShape) {
					if !want[C.Op.K] {
						continue
					}
					s, A, B, C := s, A, B, C
					c.Case(fmt.Sprintf("sidefx/%v/%d,%d,%d/%s;%s;%s", s, ai, bi, ci, A.Op, B.Op, C.Op), true, func() core.Verdict {
						p := &ref.Program{Leaves: []*ref.T{enum.Generic(s, 951, 0.5, 3, false)}, Tracked: []bool{false}}
						addOp := func(oc OpCase, first int, salt uint64) int {
							in := []int{first}
							for j := 1; j < len(oc.In); j++ {
								p.Leaves = append(p.Leaves, enum.Generic(oc.In[j], salt+uint64(j), 0.5, 3, false))
								p.Tracked = append(p.Tracked, false)
								in = append(in, -len(p.Leaves)) // placeholder: leaf index len-1, fixed up below
							}
							p.Nodes = append(p.Nodes, ref.Node{Op: oc.Op, In: in})
							return len(p.Nodes) - 1
						}
						// leaves must be numbered before nodes: collect partner leaves first
						nA := addOp(A, 0, 960)
						nB := addOp(B, 0, 970)
						nC := addOp(C, -1000, 980) // first operand = result of B, fixed up below
						L := len(p.Leaves)
						for ni := range p.Nodes {
							for k, id := range p.Nodes[ni].In {
								switch {
								case id == -1000:
									p.Nodes[ni].In[k] = L + nB
								case id < 0:
									p.Nodes[ni].In[k] = -id - 1
								}
							}
						}
						_, _ = nA, nC
						if _, ok := p.Forward(); !ok {
							return core.Skip()
						}
						v := forwardCase(p)
						if !v.OK && !v.Skip {
							v.Detail = fmt.Sprintf("_ = %s(t); p = %s(t); q = %s(p) with t of shape %v :: %s :: %s", A.Op, B.Op, C.Op, s, describeProgram(p), v.Detail)
						}
						return v
					})
				}
			}
		}
	}
}
