package main

import (
	"fmt"
	"strings"

	"github.com/sahandsafizadeh/qeep/component/initializers"
	"github.com/sahandsafizadeh/qeep/component/layers"
	"github.com/sahandsafizadeh/qeep/component/layers/activations"
	"github.com/sahandsafizadeh/qeep/component/losses"
	"github.com/sahandsafizadeh/qeep/component/metrics"
	"github.com/sahandsafizadeh/qeep/component/optimizers"
	"github.com/sahandsafizadeh/qeep/tensor"
	xrand "golang.org/x/exp/rand"
	"qmc/core"
	"qmc/enum"
	"qmc/ref"
	"qmc/rt"
)

/* ---------- (i) write sets ---------- */

type snap struct {
	data    string
	tracked bool
	dirty   bool
	grad    tensor.Tensor
	gradVal string
	edges   int
	edgeIDs string // identities of the back-edge targets
	scalars string // every scalar bookkeeping field of the tensor and its context (reflection)
}

func snapOf(t tensor.Tensor) snap {
	flat, nesting, dims, rect, _ := tensor.VerifInspect(t)
	tr, dirty, g, targets, _ := tensor.VerifGradState(t)
	s := snap{data: fmt.Sprintf("%v|%v|%v|%v|%v", flat, nesting, dims, rect, t.Shape()), tracked: tr, dirty: dirty, grad: g, edges: len(targets), scalars: tensor.VerifScalarFields(t)}
	for _, tg := range targets {
		s.edgeIDs += fmt.Sprintf("%p;", tg)
	}
	if g != nil {
		gf, _, gd, _, _ := tensor.VerifInspect(g)
		s.gradVal = fmt.Sprintf("%v|%v", gf, gd)
	}
	return s
}

// stripFlagFields removes the two flags that are compared separately
// (tracked, bpdirty: the latter may legitimately change in a back-propagation).
func stripFlagFields(s string) string {
	for _, f := range []string{"tracked=true", "tracked=false", "bpdirty=true", "bpdirty=false"} {
		s = strings.ReplaceAll(s, f, "")
	}
	return s
}

// diffSnap describes what changed; allowGrad permits gradient/spent changes
// (only BackPropagate, only on tensors the model says are reached).
func diffSnap(a, b snap, allowGrad bool) string {
	if a.data != b.data {
		return fmt.Sprintf("elements/shape changed: %s -> %s", a.data, b.data)
	}
	if a.tracked != b.tracked {
		return fmt.Sprintf("tracking changed %v -> %v", a.tracked, b.tracked)
	}
	// (after a back-propagation a library may release the graph: edges are judged only before it)
	if !allowGrad && a.edges != b.edges {
		return fmt.Sprintf("back edges changed %d -> %d", a.edges, b.edges)
	}
	if !allowGrad && a.edgeIDs != b.edgeIDs {
		return "the tensor's back edges now lead to other tensors (its history was replaced)"
	}
	// a.scalars / b.scalars (reflective dump of every other bookkeeping field)
	// are recorded for diagnosis only: a memoised value or a counter that
	// returns to its resting state is not a change of shape, elements,
	// gradient or tracking, so it is not judged here (unsynchronised writes
	// to shared tensors are the race pass's subject in C20).
	if !allowGrad {
		if a.dirty != b.dirty {
			return fmt.Sprintf("spent flag changed %v -> %v", a.dirty, b.dirty)
		}
		if a.grad != b.grad {
			return "gradient assigned or replaced"
		}
	}
	if a.grad != nil && a.grad == b.grad && a.gradVal != b.gradVal {
		return fmt.Sprintf("the gradient tensor's own elements changed: %s -> %s", a.gradVal, b.gradVal)
	}
	return ""
}

// c10WriteSet: run the op case with all operands tracked, snapshot everything
// before/after the operation, after a second operation on the result and after
// BackPropagate.
func c10WriteSet(oc OpCase, tracked bool) core.Verdict {
	return c10WriteSetOf(oc, tracked, false)
}

// c10WriteSetOf: with interm set, every operand is itself the RESULT of an operation on a leaf
// (it has a history: back edges), and the leaves' gradients are checked at the end.
func c10WriteSetOf(oc OpCase, tracked bool, interm bool) core.Verdict {
	in := genInputs(oc.Op, oc.In, 55)
	rin := make([]tensor.Tensor, len(in))
	var leaves []tensor.Tensor
	for i := range in {
		if interm {
			half := ref.Map(in[i], func(v float64) float64 { return v / 2 })
			leaf := rt.Make(half, tracked)
			leaves = append(leaves, leaf)
			rin[i] = leaf.Scale(2) // the same values (exactly), but an intermediate tensor
		} else {
			rin[i] = rt.Make(in[i], tracked)
		}
	}

	before := make([]snap, len(rin))
	for i := range rin {
		before[i] = snapOf(rin[i])
	}
	y, err := rt.Apply(oc.Op, rin)
	if err != nil {
		return core.Fail("%s: %v", oc.ID(), err)
	}
	for i := range rin {
		if d := diffSnap(before[i], snapOf(rin[i]), false); d != "" {
			return core.Fail("%s changed operand %d: %s", oc.ID(), i, d)
		}
	}
	ys := snapOf(y)
	// every global reducer and accessor on the result
	_ = y.Sum() + y.Max() + y.Min() + y.Avg() + y.Var() + y.Std() + y.Mean()
	_ = y.NElems()
	sh := y.Shape()
	for i := range sh {
		sh[i] = -7
	}
	z := y.Scale(3)
	if d := diffSnap(ys, snapOf(y), false); d != "" {
		return core.Fail("%s: reducers/Scale on the result changed it: %s", oc.ID(), d)
	}
	if err := tensor.BackPropagate(z); err != nil {
		return core.Fail("%s: BackPropagate: %v", oc.ID(), err)
	}
	for i := range rin {
		if d := diffSnap(before[i], snapOf(rin[i]), tracked); d != "" {
			return core.Fail("%s: BackPropagate changed operand %d beyond gradient/spent: %s", oc.ID(), i, d)
		}
		if !tracked && (rin[i].Gradient() != nil) {
			return core.Fail("%s: untracked operand %d got a gradient", oc.ID(), i)
		}
	}
	if d := diffSnap(ys, snapOf(y), tracked); d != "" {
		return core.Fail("%s: BackPropagate changed the intermediate result beyond gradient/spent: %s", oc.ID(), d)
	}
	if interm && tracked {
		// the operands kept their history: the gradient reached the leaves behind them
		// (unless the operation does not depend on that operand at all, e.g. a fully patched target)
		for i, leaf := range leaves {
			if rin[i].Gradient() != nil && leaf.Gradient() == nil {
				return core.Fail("%s: operand %d is an intermediate tensor; it received a gradient but the leaf behind it did not (the operand's history was lost)", oc.ID(), i)
			}
		}
	}
	return core.Pass()
}

/* ---------- (ii) aliasing of caller-owned slices ---------- */

// mutTarget is one caller-visible slice: n elements, each can be overwritten
// by nalt alternative values.
type mutTarget struct {
	name string
	n    int
	nalt int
	set  func(i, alt int)
}

// aliasScenario runs a little program; it calls at(phase, targets) at the
// three moments (1: right after the call, 2: after one further operation, 3:
// immediately before BackPropagate) and returns everything observable.
type aliasScenario struct {
	name string
	run  func(at func(phase int, ts []mutTarget)) string
}

func intsTarget(name string, s []int) mutTarget {
	orig := append([]int{}, s...)
	return mutTarget{name: name, n: len(s), nalt: 3, set: func(i, alt int) {
		switch alt {
		case 0:
			s[i] = orig[i] + 1
		case 1:
			s[i] = 0
		case 2:
			s[i] = -1
		}
	}}
}

func rangesTarget(name string, s []tensor.Range) mutTarget {
	orig := append([]tensor.Range{}, s...)
	return mutTarget{name: name, n: len(s), nalt: 3, set: func(i, alt int) {
		switch alt {
		case 0:
			s[i] = tensor.Range{From: orig[i].From + 1, To: orig[i].To + 1}
		case 1:
			s[i] = tensor.Range{}
		case 2:
			s[i] = tensor.Range{From: -1, To: -1}
		}
	}}
}

func floatsTarget(name string, s []float64) mutTarget {
	return mutTarget{name: name, n: len(s), nalt: 1, set: func(i, alt int) { s[i] = 99.5 }}
}

func tensorsTarget(name string, s []tensor.Tensor, other tensor.Tensor) mutTarget {
	return mutTarget{name: name, n: len(s), nalt: 2, set: func(i, alt int) {
		if alt == 0 {
			s[i] = other
		} else {
			s[i] = nil
		}
	}}
}

// finish: one further op, then back-propagation, then observe everything.
func aliasFinish(at func(int, []mutTarget), ts []mutTarget, y tensor.Tensor, inputs ...tensor.Tensor) string {
	at(1, ts)
	var b strings.Builder
	z := y.Scale(2)
	at(2, ts)
	w, err := z.Add(y)
	fmt.Fprintf(&b, "w:%s;", obsT(w, err))
	at(3, ts)
	err = tensor.BackPropagate(w)
	fmt.Fprintf(&b, "bp:%v;y:%s;ygrad:%s;shape:%v;", err, obsT(y, nil), obsT(y.Gradient(), nil), y.Shape())
	for i, x := range inputs {
		fmt.Fprintf(&b, "in%d:%s;grad%d:%s;", i, obsT(x, nil), i, obsT(x.Gradient(), nil))
	}
	return b.String()
}

func c10Scenarios() []aliasScenario {
	var out []aliasScenario
	add := func(name string, run func(at func(int, []mutTarget)) string) {
		out = append(out, aliasScenario{name, run})
	}
	conf := func() *tensor.Config { return &tensor.Config{Device: tensor.CPU, GradTrack: true} }
	// constructors taking dims
	for _, k := range []string{"Full", "Zeros", "Ones", "RandU", "RandN"} {
		k := k
		add("ctor/"+k, func(at func(int, []mutTarget)) string {
			dims := []int{2, 3}
			xrand.Seed(5)
			var y tensor.Tensor
			var err error
			switch k {
			case "Full":
				y, err = tensor.Full(dims, 1.5, conf())
			case "Zeros":
				y, err = tensor.Zeros(dims, conf())
			case "Ones":
				y, err = tensor.Ones(dims, conf())
			case "RandU":
				y, err = tensor.RandU(dims, -1, 1, conf())
			case "RandN":
				y, err = tensor.RandN(dims, 0, 1, conf())
			}
			if err != nil {
				return "ERR " + err.Error()
			}
			return aliasFinish(at, []mutTarget{intsTarget("dims", dims)}, y)
		})
	}
	// initializers taking a shape
	for _, k := range []string{"Full", "Uniform", "Normal", "HeUniform", "HeNormal", "XavierUniform", "XavierNormal"} {
		k := k
		add("init/"+k, func(at func(int, []mutTarget)) string {
			shape := []int{3, 2}
			xrand.Seed(6)
			var in layers.Initializer
			switch k {
			case "Full":
				in = initializers.NewFull(&initializers.FullConfig{Value: 2})
			case "Uniform":
				in, _ = initializers.NewUniform(nil)
			case "Normal":
				in, _ = initializers.NewNormal(nil)
			case "HeUniform":
				in, _ = initializers.NewHeUniform(&initializers.HeUniformConfig{FanIn: 2})
			case "HeNormal":
				in, _ = initializers.NewHeNormal(&initializers.HeNormalConfig{FanIn: 2})
			case "XavierUniform":
				in, _ = initializers.NewXavierUniform(&initializers.XavierUniformConfig{FanIn: 2, FanOut: 3})
			case "XavierNormal":
				in, _ = initializers.NewXavierNormal(&initializers.XavierNormalConfig{FanIn: 2, FanOut: 3})
			}
			y, err := in.Init(shape)
			if err != nil {
				return "ERR " + err.Error()
			}
			return aliasFinish(at, []mutTarget{intsTarget("shape", shape)}, y)
		})
	}
	// TensorOf: nested data at every nesting level
	add("TensorOf/1d", func(at func(int, []mutTarget)) string {
		d := []float64{1, 2, 3}
		y, err := tensor.TensorOf(d, conf())
		if err != nil {
			return "ERR " + err.Error()
		}
		return aliasFinish(at, []mutTarget{floatsTarget("data", d)}, y)
	})
	add("TensorOf/2d", func(at func(int, []mutTarget)) string {
		d := [][]float64{{1, 2, 3}, {4, 5, 6}}
		y, err := tensor.TensorOf(d, conf())
		if err != nil {
			return "ERR " + err.Error()
		}
		ts := []mutTarget{floatsTarget("row0", d[0]), floatsTarget("row1", d[1]),
			{name: "rows", n: len(d), nalt: 2, set: func(i, alt int) {
				if alt == 0 {
					d[i] = []float64{7, 8, 9}
				} else {
					d[i] = nil
				}
			}}}
		return aliasFinish(at, ts, y)
	})
	add("TensorOf/3d", func(at func(int, []mutTarget)) string {
		d := [][][]float64{{{1, 2}, {3, 4}}, {{5, 6}, {7, 8}}}
		y, err := tensor.TensorOf(d, conf())
		if err != nil {
			return "ERR " + err.Error()
		}
		ts := []mutTarget{floatsTarget("d00", d[0][0]), floatsTarget("d11", d[1][1]),
			{name: "d0", n: 2, nalt: 2, set: func(i, alt int) {
				if alt == 0 {
					d[0][i] = []float64{9, 9}
				} else {
					d[0][i] = nil
				}
			}},
			{name: "d", n: 2, nalt: 2, set: func(i, alt int) {
				if alt == 0 {
					d[i] = [][]float64{{0, 0}, {0, 0}}
				} else {
					d[i] = nil
				}
			}}}
		return aliasFinish(at, ts, y)
	})
	add("TensorOf/4d", func(at func(int, []mutTarget)) string {
		d := [][][][]float64{{{{1, 2}}, {{3, 4}}}, {{{5, 6}}, {{7, 8}}}}
		y, err := tensor.TensorOf(d, conf())
		if err != nil {
			return "ERR " + err.Error()
		}
		ts := []mutTarget{floatsTarget("d000", d[0][0][0]), floatsTarget("d110", d[1][1][0]),
			{name: "d00", n: 1, nalt: 2, set: func(i, alt int) {
				if alt == 0 {
					d[0][0][i] = []float64{9, 9}
				} else {
					d[0][0][i] = nil
				}
			}},
			{name: "d1", n: 2, nalt: 2, set: func(i, alt int) {
				if alt == 0 {
					d[1][i] = [][]float64{{0, 0}}
				} else {
					d[1][i] = nil
				}
			}},
			{name: "d", n: 2, nalt: 2, set: func(i, alt int) {
				if alt == 0 {
					d[i] = [][][]float64{{{0, 0}}, {{0, 0}}}
				} else {
					d[i] = nil
				}
			}}}
		return aliasFinish(at, ts, y)
	})
	leaf := func(salt uint64, shape ...int) tensor.Tensor {
		return rt.Make(enum.Generic(shape, salt, 0.5, 3, true), true)
	}
	add("Reshape", func(at func(int, []mutTarget)) string {
		x := leaf(1, 2, 3)
		shape := []int{3, 2}
		y, err := x.Reshape(shape)
		if err != nil {
			return "ERR " + err.Error()
		}
		return aliasFinish(at, []mutTarget{intsTarget("shape", shape)}, y, x)
	})
	add("Broadcast", func(at func(int, []mutTarget)) string {
		x := leaf(2, 1, 3)
		shape := []int{2, 2, 3}
		y, err := x.Broadcast(shape)
		if err != nil {
			return "ERR " + err.Error()
		}
		return aliasFinish(at, []mutTarget{intsTarget("shape", shape)}, y, x)
	})
	add("Slice", func(at func(int, []mutTarget)) string {
		x := leaf(3, 3, 3)
		ix := []tensor.Range{{From: 0, To: 1}, {From: 1, To: 2}}
		y, err := x.Slice(ix)
		if err != nil {
			return "ERR " + err.Error()
		}
		return aliasFinish(at, []mutTarget{rangesTarget("index", ix)}, y, x)
	})
	add("Slice/partial", func(at func(int, []mutTarget)) string {
		x := leaf(4, 3, 2)
		ix := []tensor.Range{{From: 1, To: 2}}
		y, err := x.Slice(ix)
		if err != nil {
			return "ERR " + err.Error()
		}
		return aliasFinish(at, []mutTarget{rangesTarget("index", ix)}, y, x)
	})
	add("Patch", func(at func(int, []mutTarget)) string {
		x := leaf(5, 3, 3)
		p := leaf(6, 1, 2)
		ix := []tensor.Range{{From: 1, To: 2}, {From: 0, To: 2}}
		y, err := x.Patch(ix, p)
		if err != nil {
			return "ERR " + err.Error()
		}
		return aliasFinish(at, []mutTarget{rangesTarget("index", ix)}, y, x, p)
	})
	add("Patch/partial", func(at func(int, []mutTarget)) string {
		x := leaf(7, 3, 3)
		p := leaf(8, 1, 2)
		ix := []tensor.Range{{From: 1, To: 2}}
		y, err := x.Patch(ix, p)
		if err != nil {
			return "ERR " + err.Error()
		}
		return aliasFinish(at, []mutTarget{rangesTarget("index", ix)}, y, x, p)
	})
	add("Concat", func(at func(int, []mutTarget)) string {
		a, b, c := leaf(9, 2, 2), leaf(10, 1, 2), leaf(11, 2, 2)
		other := leaf(12, 2, 2)
		ts := []tensor.Tensor{a, b, c}
		y, err := tensor.Concat(ts, 0)
		if err != nil {
			return "ERR " + err.Error()
		}
		return aliasFinish(at, []mutTarget{tensorsTarget("ts", ts, other)}, y, a, b, c)
	})
	add("At", func(at func(int, []mutTarget)) string {
		x := leaf(13, 2, 3)
		ix := []int{1, 2}
		v, err := x.At(ix...)
		y := x.Scale(v)
		if err != nil {
			return "ERR " + err.Error()
		}
		return aliasFinish(at, []mutTarget{intsTarget("index", ix)}, y, x)
	})
	add("Shape", func(at func(int, []mutTarget)) string {
		x := leaf(14, 2, 3)
		y := x.Scale(1.5)
		s1 := y.Shape()
		s2 := x.Shape()
		return aliasFinish(at, []mutTarget{intsTarget("y.Shape()", s1), intsTarget("x.Shape()", s2)}, y, x)
	})
	add("Forward/variadic", func(at func(int, []mutTarget)) string {
		x := leaf(15, 2, 2)
		other := leaf(16, 2, 2)
		fc, err := layers.NewFC(&layers.FCConfig{Inputs: 2, Outputs: 2, Initializers: map[string]layers.Initializer{"Weight": fixedInit{t: enum.Generic([]int{2}, 17, 0.5, 2, true)}, "Bias": fixedInit{t: enum.Generic([]int{2}, 18, 0.5, 2, true)}}})
		if err != nil {
			return "ERR " + err.Error()
		}
		xs := []tensor.Tensor{x}
		h, err := fc.Forward(xs...)
		if err != nil {
			return "ERR " + err.Error()
		}
		hs := []tensor.Tensor{h}
		y, err := activations.NewTanh().Forward(hs...)
		if err != nil {
			return "ERR " + err.Error()
		}
		return aliasFinish(at, []mutTarget{tensorsTarget("xs", xs, other), tensorsTarget("hs", hs, other)}, y, x, fc.Weight, fc.Bias)
	})
	return out
}

// c10Rejected: a call that is REJECTED (returns an error) leaves every operand
// exactly as it was - elements, shape, flags, gradient, edges - and the operands
// stay usable: a later valid operation on them gives the model's result.
func c10Rejected(c *core.Ctx) {
	shapes := [][]int{{2}, {3}, {2, 3}, {4, 3}, {2, 2}, {1, 3}, {2, 3, 2}, {}}
	type call struct {
		op ref.Op
		in [][]int
	}
	var calls []call
	for _, a := range shapes {
		for _, b := range shapes {
			for _, k := range []string{"Add", "Mul", "Div", "ElMax", "ElMin", "Dot", "MatMul", "Eq", "Gt", "Patch"} {
				calls = append(calls, call{ref.Op{K: k}, [][]int{a, b}})
			}
			for dim := -1; dim <= 3; dim++ {
				calls = append(calls, call{ref.Op{K: "Concat", Dim: dim}, [][]int{a, b}})
				calls = append(calls, call{ref.Op{K: "Concat", Dim: dim}, [][]int{a, a, b}}, call{ref.Op{K: "Concat", Dim: dim}, [][]int{a, b, a}})
			}
			calls = append(calls, call{ref.Op{K: "Patch", Index: []ref.Range{{From: 1, To: 3}}}, [][]int{a, b}}, call{ref.Op{K: "Patch", Index: []ref.Range{{From: 0, To: 0}, {From: 1, To: 2}}}, [][]int{a, b}})
		}
		for _, op := range []ref.Op{
			{K: "Reshape", Shape: []int{5}}, {K: "Reshape", Shape: []int{-1, -6}}, {K: "Reshape", Shape: []int{0}},
			{K: "Broadcast", Shape: []int{5, 5}}, {K: "Broadcast", Shape: []int{1}}, {K: "Broadcast", Shape: []int{2, 2, 7}},
			{K: "Slice", Index: []ref.Range{{From: 1, To: 9}}}, {K: "Slice", Index: []ref.Range{{From: 2, To: 1}}}, {K: "Slice", Index: []ref.Range{{From: -1, To: 1}}},
			{K: "Slice", Index: []ref.Range{{From: 0, To: 0}, {From: 0, To: 0}, {From: 0, To: 0}, {From: 0, To: 1}}},
			{K: "SumAlong", Dim: 3}, {K: "MaxAlong", Dim: -1}, {K: "VarAlong", Dim: 4}, {K: "MeanAlong", Dim: 3},
			{K: "Squeeze", Dim: 0}, {K: "Squeeze", Dim: 1}, {K: "Squeeze", Dim: 5}, {K: "UnSqueeze", Dim: 5}, {K: "UnSqueeze", Dim: -1},
			{K: "Flatten", Dim: 3}, {K: "Flatten", Dim: -1}, {K: "Transpose"},
		} {
			calls = append(calls, call{op, [][]int{a}})
		}
	}
	for ci, cl := range calls {
		for tr := 0; tr < 2; tr++ {
			ci, cl, tr := ci, cl, tr
			c.Case(fmt.Sprintf("rejected/%d/%s%v/t%d", ci, cl.op, cl.in, tr), true, func() core.Verdict {
				in := make([]*ref.T, len(cl.in))
				rin := make([]tensor.Tensor, len(cl.in))
				before := make([]snap, len(cl.in))
				for i, s := range cl.in {
					in[i] = enum.Generic(s, uint64(900+i), 0.5, 3, true)
					rin[i] = rt.Make(in[i], tr == 1)
					before[i] = snapOf(rin[i])
				}
				held := append([]tensor.Tensor{}, rin...) // rt.Apply clears the caller's Concat list
				var err error
				if p := rt.Catch(func() { _, err = rt.Apply(cl.op, rin) }); p != nil {
					return core.Skip() // a panic is C09's subject
				}
				if err == nil {
					return core.Skip() // accepted: the write-set cases cover it
				}
				for i, t := range held {
					if d := diffSnap(before[i], snapOf(t), false); d != "" {
						return core.Fail("%s on shapes %v was rejected (%v) but changed operand %d: %s", cl.op, cl.in, err, i, d)
					}
					y := t.Scale(2)
					exp := ref.Map(in[i], func(v float64) float64 { return 2 * v })
					if ok, msg := core.Close(rt.Read(y), exp, scaleOf(exp)); !ok {
						return core.Fail("%s on shapes %v was rejected (%v); operand %d is damaged afterwards: Scale(2) gives %s", cl.op, cl.in, err, i, msg)
					}
					if n := t.NElems(); n != ref.Size(in[i].Shape) {
						return core.Fail("%s on shapes %v was rejected (%v); operand %d now reports %d elements", cl.op, cl.in, err, i, n)
					}
				}
				return core.Pass()
			})
		}
	}
}

func checkC10(c *core.Ctx) {
	defer c10Rejected(c)
	// (i) write sets: every op configuration of a small shape set, operands
	// tracked and untracked
	opts := opCaseOpts{shapes: enum.Shapes(2, []int{1, 2, 3}), maxIndexRank: 2, concatSizes: []int{1, 2}, concat3: true}
	if c.Thorough() {
		opts = opCaseOpts{shapes: enum.Shapes(3, []int{1, 2, 3}), maxIndexRank: 3, concatSizes: []int{1, 2}, concat3: true}
	}
	forEachOpCase(opts, func(oc OpCase) {
		for tr := 0; tr < 2; tr++ {
			tr := tr
			c.Case(fmt.Sprintf("write/%s/t%d", oc.ID(), tr), true, func() core.Verdict { return c10WriteSet(oc, tr == 1) })
			c.Case(fmt.Sprintf("write-interm/%s/t%d", oc.ID(), tr), true, func() core.Verdict { return c10WriteSetOf(oc, tr == 1, true) })
		}
	})
	// Broadcast and comparisons are not in forEachOpCase
	for _, s := range opts.shapes {
		for _, src := range enum.BroadcastSources(s) {
			src, s := src, s
			c.Case(fmt.Sprintf("write/Broadcast/%v->%v", src, s), true, func() core.Verdict {
				return c10WriteSet(OpCase{ref.Op{K: "Broadcast", Shape: s}, [][]int{src}}, true)
			})
		}
		for _, k := range ref.CompareKinds {
			k, s := k, s
			c.Case(fmt.Sprintf("write/%s/%v", k, s), true, func() core.Verdict {
				in := genInputs(ref.Op{K: k}, [][]int{s, s}, 3)
				a, b := rt.Make(in[0], true), rt.Make(in[1], true)
				sa, sb := snapOf(a), snapOf(b)
				if _, err := rt.Apply(ref.Op{K: k}, []tensor.Tensor{a, b}); err != nil {
					return core.Fail("%s: %v", k, err)
				}
				if _, err := a.Equals(b); err != nil {
					return core.Fail("Equals: %v", err)
				}
				if d := diffSnap(sa, snapOf(a), false) + diffSnap(sb, snapOf(b), false); d != "" {
					return core.Fail("%s changed an operand: %s", k, d)
				}
				return core.Pass()
			})
		}
	}
	// constructors hand out independent tensors: two results of the same call
	// are distinct objects, and resetting / back-propagating one of them does
	// not show on the other (no memoised "constant" shared between callers)
	ctors := map[string]func(tr bool) (tensor.Tensor, error){
		"Eye":      func(tr bool) (tensor.Tensor, error) { return tensor.Eye(3, rt.Conf(tr)) },
		"Zeros":    func(tr bool) (tensor.Tensor, error) { return tensor.Zeros([]int{2, 2}, rt.Conf(tr)) },
		"Ones":     func(tr bool) (tensor.Tensor, error) { return tensor.Ones([]int{2, 2}, rt.Conf(tr)) },
		"Full":     func(tr bool) (tensor.Tensor, error) { return tensor.Full([]int{2, 2}, 2.5, rt.Conf(tr)) },
		"ZerosNil": func(tr bool) (tensor.Tensor, error) { return tensor.Zeros(nil, rt.Conf(tr)) },
		"TensorOf": func(tr bool) (tensor.Tensor, error) { return tensor.TensorOf([]float64{1, 2}, rt.Conf(tr)) },
		"FullInit": func(tr bool) (tensor.Tensor, error) {
			return initializers.NewFull(&initializers.FullConfig{Value: 1}).Init([]int{3})
		},
	}
	for _, name := range []string{"Eye", "Zeros", "Ones", "Full", "ZerosNil", "TensorOf", "FullInit"} {
		for trk := 0; trk < 2; trk++ {
			name, trk, mk := name, trk, ctors[name]
			c.Case(fmt.Sprintf("ctor-independent/%s/t%d", name, trk), true, func() core.Verdict {
				a, err1 := mk(trk == 1)
				b, err2 := mk(trk == 1)
				if err1 != nil || err2 != nil {
					return core.Fail("%s: %v %v", name, err1, err2)
				}
				if a == b {
					return core.Fail("two calls of %s return the same tensor object", name)
				}
				sb := snapOf(b)
				a.ResetGradContext(true)
				if err := tensor.BackPropagate(a.Scale(2)); err != nil {
					return core.Fail("BackPropagate: %v", err)
				}
				if d := diffSnap(sb, snapOf(b), false); d != "" {
					return core.Fail("resetting and back-propagating one result of %s changed ANOTHER result of the same call: %s", name, d)
				}
				cc, err := mk(trk == 1)
				if err != nil {
					return core.Fail("%s: %v", name, err)
				}
				if d := diffSnap(sb, snapOf(cc), false); d != "" {
					return core.Fail("a later call of %s returns a tensor in a different state than the first call did: %s", name, d)
				}
				a.ResetGradContext(false)
				if d := diffSnap(sb, snapOf(b), false); d != "" {
					return core.Fail("ResetGradContext(false) on one result of %s changed another: %s", name, d)
				}
				return core.Pass()
			})
		}
	}
	// components: losses, activations, layer, optimizer, metric
	c.Case("write/components", true, func() core.Verdict { return c10Components() })

	// (ii) aliasing: every element of every slice, every alternative value,
	// at each of the three moments
	for _, sc := range c10Scenarios() {
		sc := sc
		var targets []mutTarget
		base := sc.run(func(phase int, ts []mutTarget) { targets = ts })
		if strings.HasPrefix(base, "ERR") {
			c.Case("alias/"+sc.name+"/baseline", false, func() core.Verdict { return core.Fail("scenario %s failed: %s", sc.name, base) })
			continue
		}
		// the baseline itself must be deterministic; scenarios with random
		// constructors fall back to comparing everything but the element
		// values if re-seeding the global source does not reproduce them
		valueFree := false
		if again := sc.run(func(int, []mutTarget) {}); again != base {
			if stripValues(again) == stripValues(base) && (strings.HasPrefix(sc.name, "ctor/Rand") || strings.HasPrefix(sc.name, "init/")) {
				valueFree = true
				base = stripValues(base)
				c.Count("alias_scenarios_compared_without_random_values", 1)
			} else {
				c.Case("alias/"+sc.name+"/baseline", false, func() core.Verdict {
					return core.Fail("scenario %s gives different observations when run twice on fresh objects (hidden state shared between calls):\n%s\n%s", sc.name, base, again)
				})
				continue
			}
		}
		for ti, tg := range targets {
			for i := 0; i < tg.n; i++ {
				for alt := 0; alt < tg.nalt; alt++ {
					for phase := 1; phase <= 3; phase++ {
						ti, i, alt, phase := ti, i, alt, phase
						c.Case(fmt.Sprintf("alias/%s/%s[%d]=alt%d@%d", sc.name, tg.name, i, alt, phase), true, func() core.Verdict {
							var got string
							p := rt.Catch(func() {
								got = sc.run(func(ph int, ts []mutTarget) {
									if ph == phase {
										ts[ti].set(i, alt)
									}
								})
							})
							if p != nil {
								return core.Fail("%s: mutating %s[%d] (alternative %d) at moment %d makes the library panic: %v", sc.name, targets[ti].name, i, alt, phase, p)
							}
							if valueFree {
								got = stripValues(got)
							}
							if got != base {
								return core.Fail("%s: mutating caller-owned slice %s[%d] (alternative %d) at moment %d (1=after the call, 2=after one more op, 3=before BackPropagate) changes later observations:\n mutated:   %s\n untouched: %s", sc.name, targets[ti].name, i, alt, phase, got, base)
							}
							return core.Pass()
						})
					}
				}
			}
		}
	}
}

// stripValues removes the element values ("[...]" right after a ':' or ';')
// from an observation string, keeping shapes, flags and errors.
func stripValues(s string) string {
	var b strings.Builder
	for _, part := range strings.Split(s, ";") {
		if i := strings.Index(part, ":["); i >= 0 {
			if j := strings.Index(part[i:], "]|"); j >= 0 {
				part = part[:i+1] + "<values>" + part[i+j+1:]
			}
		}
		b.WriteString(part)
		b.WriteString(";")
	}
	return b.String()
}

func c10Components() core.Verdict {
	mk := func(salt uint64, tracked bool, shape ...int) tensor.Tensor {
		return rt.Make(enum.Generic(shape, salt, 0.1, 0.9, false), tracked)
	}
	check := func(what string, ts []tensor.Tensor, before []snap, allowGrad bool) string {
		for i := range ts {
			if d := diffSnap(before[i], snapOf(ts[i]), allowGrad); d != "" {
				return fmt.Sprintf("%s changed input %d: %s", what, i, d)
			}
		}
		return ""
	}
	snaps := func(ts []tensor.Tensor) []snap {
		r := make([]snap, len(ts))
		for i := range ts {
			r[i] = snapOf(ts[i])
		}
		return r
	}
	// losses
	for _, kind := range []string{"MSE", "BCE", "CE"} {
		var p, t tensor.Tensor
		if kind == "CE" {
			p, t = mk(1, true, 2, 3), mk(2, true, 2, 3)
		} else {
			p, t = mk(1, true, 3), mk(2, true, 3)
		}
		in := []tensor.Tensor{p, t}
		b := snaps(in)
		l, err := lossCompute(kind, p, t)
		if err != nil {
			return core.Fail("%s: %v", kind, err)
		}
		if m := check(kind+".Compute", in, b, false); m != "" {
			return core.Fail("%s", m)
		}
		if err := tensor.BackPropagate(l); err != nil {
			return core.Fail("%s BackPropagate: %v", kind, err)
		}
		if m := check(kind+" BackPropagate", in, b, true); m != "" {
			return core.Fail("%s", m)
		}
	}
	_ = losses.NewMSE
	// activations
	for _, a := range actConfigs(2) {
		x := mk(3, true, 2, 3)
		in := []tensor.Tensor{x}
		b := snaps(in)
		y, err := actForward(a, x)
		if err != nil {
			return core.Fail("%s: %v", a, err)
		}
		if m := check(a.String()+".Forward", in, b, false); m != "" {
			return core.Fail("%s", m)
		}
		if err := tensor.BackPropagate(y); err != nil {
			return core.Fail("%s BackPropagate: %v", a, err)
		}
		if m := check(a.String()+" BackPropagate", in, b, true); m != "" {
			return core.Fail("%s", m)
		}
	}
	// FC + SGD
	fc, err := layers.NewFC(&layers.FCConfig{Inputs: 3, Outputs: 2})
	if err != nil {
		return core.Fail("NewFC: %v", err)
	}
	x := mk(4, true, 2, 3)
	in := []tensor.Tensor{x, fc.Weight, fc.Bias}
	b := snaps(in)
	y, err := fc.Forward(x)
	if err != nil {
		return core.Fail("FC.Forward: %v", err)
	}
	if m := check("FC.Forward", in, b, false); m != "" {
		return core.Fail("%s", m)
	}
	if err := tensor.BackPropagate(y); err != nil {
		return core.Fail("BackPropagate: %v", err)
	}
	if m := check("BackPropagate through FC", in, b, true); m != "" {
		return core.Fail("%s", m)
	}
	afterBP := snaps(in)
	opt := optimizers.NewSGD(nil)
	for _, w := range fc.Weights() {
		if err := opt.Update(w.Value); err != nil {
			return core.Fail("Update: %v", err)
		}
	}
	if m := check("SGD.Update", in, afterBP, false); m != "" {
		return core.Fail("%s (the previous weight tensors must be left unchanged)", m)
	}
	// Accuracy
	p, t := mk(5, false, 4), mk(6, false, 4)
	in = []tensor.Tensor{p, t}
	b = snaps(in)
	acc := metrics.NewAccuracy()
	if err := acc.Accumulate(p, t); err != nil {
		return core.Fail("Accumulate: %v", err)
	}
	if m := check("Accuracy.Accumulate", in, b, false); m != "" {
		return core.Fail("%s", m)
	}
	return core.Pass()
}
