package main

import (
	"fmt"
	"math"

	"qmc/core"
	"qmc/enum"
	"qmc/ref"
)

/* upstream forms that keep the value of x exactly (so value classes such as
   "exactly 0" or "1-1e-13" survive to an interior node) */

const nUpstreamForms = 7

// appendUpstream appends the nodes of form f computing a tensor equal to leaf
// `leaf` (shape s); returns the id of the resulting tensor. extraLeaf is the id
// of a helper leaf of the same shape (ones for form 3, zeros for form 4);
// ok=false if the form does not apply to this shape.
func appendUpstream(p *ref.Program, f int, leaf int, s []int) (int, bool) {
	next := func() int { return p.NTensors() }
	add := func(op ref.Op, in ...int) int {
		id := next()
		p.Nodes = append(p.Nodes, ref.Node{Op: op, In: in})
		return id
	}
	switch f {
	case 0:
		return leaf, true
	case 1:
		return add(ref.Op{K: "Scale", F: 1}, leaf), true
	case 2:
		a := add(ref.Op{K: "Scale", F: 0.5}, leaf)
		b := add(ref.Op{K: "Scale", F: 0.5}, leaf)
		return add(ref.Op{K: "Add"}, a, b), true
	case 3, 4:
		return -1, false // need helper leaves: built by the caller (see withHelper)
	case 5:
		if len(s) == 0 {
			return -1, false
		}
		c := add(ref.Op{K: "Concat", Dim: 0}, leaf, leaf)
		return add(ref.Op{K: "Slice", Index: []ref.Range{{From: 0, To: s[0]}}}, c), true
	case 6:
		r := add(ref.Op{K: "Reshape", Shape: []int{ref.Size(s), 1}}, leaf)
		return add(ref.Op{K: "Reshape", Shape: ref.CopyShape(s)}, r), true
	}
	return -1, false
}

// buildWithUpstream creates a program with leaves [x (tracked), extra leaves...]
// and the upstream form applied to x. extra are additional leaves (with their
// tracked flags) placed after x and the optional helper.
func buildWithUpstream(f int, x *ref.T, extra []*ref.T, extraTracked []bool) (p *ref.Program, pred int, extraIDs []int, ok bool) {
	p = &ref.Program{Leaves: []*ref.T{x}, Tracked: []bool{true}}
	helper := -1
	if f == 3 || f == 4 {
		h := ref.FullOf(x.Shape, 1)
		if f == 4 {
			h = ref.FullOf(x.Shape, 0)
		}
		helper = len(p.Leaves)
		p.Leaves = append(p.Leaves, h)
		p.Tracked = append(p.Tracked, false)
	}
	for i, e := range extra {
		extraIDs = append(extraIDs, len(p.Leaves))
		p.Leaves = append(p.Leaves, e)
		p.Tracked = append(p.Tracked, extraTracked[i])
	}
	switch f {
	case 3:
		pred = p.NTensors()
		p.Nodes = append(p.Nodes, ref.Node{Op: ref.Op{K: "Mul"}, In: []int{0, helper}})
		return p, pred, extraIDs, true
	case 4:
		pred = p.NTensors()
		p.Nodes = append(p.Nodes, ref.Node{Op: ref.Op{K: "Sub"}, In: []int{0, helper}})
		return p, pred, extraIDs, true
	}
	pred, ok = appendUpstream(p, f, 0, x.Shape)
	return p, pred, extraIDs, ok
}

/* ---------------- C13 ---------------- */

var c13Preds = []float64{0, 1e-13, 2e-12, 1e-9, 1e-6, 0.2, 0.5, 0.9, 1 - 1e-9, 1 - 2e-12, 1 - 1e-13, 1}
var c13Targets = []float64{0, 0.3, 1}

func c13Run(kind string, p, t *ref.T, form int, tTracked bool) core.Verdict {
	prog, pred, ex, ok := buildWithUpstream(form, p, []*ref.T{t}, []bool{tTracked})
	if !ok {
		return core.Skip()
	}
	root := prog.NTensors()
	prog.Nodes = append(prog.Nodes, ref.Node{Op: ref.Op{K: kind}, In: []int{pred, ex[0]}})
	// the loss and the value-preserving upstream forms are element-wise in the
	// prediction: judge every gradient element relative to its own magnitude
	// (1/p reaches 5e11 next to elements of magnitude 1)
	o := gradOpts{elementwise: true}
	if tTracked && !ref.TargetDifferentiable(ref.Op{K: kind}, []*ref.T{p, t}) {
		o.noValue = map[int]bool{ex[0]: true}
	}
	v := gradCase(prog, root, o)
	if !v.OK && !v.Skip {
		v.Detail = fmt.Sprintf("%s p=%v t=%v upstream form %d target tracked=%v :: %s :: %s", kind, p, t, form, tTracked, describeProgram(prog), v.Detail)
	}
	return v
}

func checkC13(c *core.Ctx) {
	defer specialReuse(c, "loss", true)
	defer specialC13(c)
	defer sweepC13(c)
	defer selfCases(c, true, "loss")
	defer soakC13(c)
	defer gridC12C13(c, true)
	if c.Shard == 0 && c.Only == "" {
		if f := refSelftest(); f > 0 {
			c.Broken("reference model selftest failed (%d)", f)
			return
		}
	}
	np, nt := len(c13Preds), len(c13Targets)
	pairs := np * nt
	pt := func(code int) (float64, float64) { return c13Preds[code%np], c13Targets[code/np%nt] }
	type cfg struct {
		kind  string
		shape []int
	}
	var cfgs []cfg
	for _, k := range []string{"MSE", "BCE"} {
		for b := 1; b <= 4; b++ {
			cfgs = append(cfgs, cfg{k, []int{b}})
		}
	}
	for b := 1; b <= 3; b++ {
		for cl := 1; cl <= 3; cl++ {
			cfgs = append(cfgs, cfg{"CE", []int{b, cl}})
		}
	}
	allUpTo := 2
	if c.Thorough() {
		allUpTo = 3
	}
	for _, cf := range cfgs {
		n := ref.Size(cf.shape)
		emit := func(id string, fill func(p, t *ref.T)) {
			for form := 0; form < nUpstreamForms; form++ {
				for tt := 0; tt < 2; tt++ {
					form, tt := form, tt
					c.Case(fmt.Sprintf("%s/%v/%s/f%d/t%d", cf.kind, cf.shape, id, form, tt), form > 0, func() core.Verdict {
						p, t := ref.New(cf.shape), ref.New(cf.shape)
						fill(p, t)
						return c13Run(cf.kind, p, t, form, tt == 1)
					})
				}
			}
		}
		if n <= allUpTo {
			total := 1
			for i := 0; i < n; i++ {
				total *= pairs
			}
			for code := 0; code < total; code++ {
				code := code
				emit(fmt.Sprintf("all/%d", code), func(p, t *ref.T) {
					x := code
					for i := 0; i < n; i++ {
						p.V[i], t.V[i] = pt(x % pairs)
						x /= pairs
					}
				})
			}
		} else {
			for i := 0; i < n; i++ {
				for j := i + 1; j < n; j++ {
					for code := 0; code < pairs*pairs; code++ {
						i, j, code := i, j, code
						emit(fmt.Sprintf("pos%d,%d/%d", i, j, code), func(p, t *ref.T) {
							for k := range p.V {
								p.V[k] = 0.15 + 0.1*float64(k%7)
								t.V[k] = 0.85 - 0.1*float64(k%7)
							}
							p.V[i], t.V[i] = pt(code % pairs)
							p.V[j], t.V[j] = pt(code / pairs)
						})
					}
				}
			}
		}
	}
	// predictions produced by arbitrary upstream tracked computations:
	// every <= 2-operation program over two leaves, then Sigmoid, then the loss
	maxOps := 2
	alpha := progAlphabet{scales: []float64{2}, unary: []string{"Sin", "Exp"}, sym: []string{"Add", "Mul"}, asym: []string{"Sub"}}
	for _, cf := range []cfg{{"MSE", []int{2}}, {"BCE", []int{2}}, {"BCE", []int{3}}, {"CE", []int{2, 2}}, {"CE", []int{1, 3}}} {
		for mi, mask := range c01Masks {
			leaves := []*ref.T{enum.Generic(cf.shape, 601, 0.3, 1.2, true), enum.Generic(cf.shape, 602, 0.3, 1.2, true)}
			enumPrograms(leaves, mask, alpha, maxOps, func(p *ref.Program, code string, nOps int) {
				cf, mi := cf, mi
				var q *ref.Program
				c.Case(fmt.Sprintf("deep/%s/%v/%s/m%d", cf.kind, cf.shape, code, mi), true, func() core.Verdict {
					if q == nil {
						q = copyProgram(p)
					}
					r := copyProgram(q)
					last := r.NTensors() - 1
					// append target leaf: leaves must come first, so rebuild with shifted ids
					t := enum.Generic(cf.shape, 603, 0.1, 0.9, false)
					r2 := &ref.Program{Leaves: append(append([]*ref.T{}, r.Leaves...), t), Tracked: append(append([]bool{}, r.Tracked...), false)}
					L := len(r.Leaves)
					sh := func(id int) int {
						if id >= L {
							return id + 1
						}
						return id
					}
					for _, n := range r.Nodes {
						in := make([]int, len(n.In))
						for k, id := range n.In {
							in[k] = sh(id)
						}
						r2.Nodes = append(r2.Nodes, ref.Node{Op: n.Op, In: in})
					}
					sg := r2.NTensors()
					r2.Nodes = append(r2.Nodes, ref.Node{Op: ref.Op{K: "Sigmoid"}, In: []int{sh(last)}})
					root := r2.NTensors()
					r2.Nodes = append(r2.Nodes, ref.Node{Op: ref.Op{K: cf.kind}, In: []int{sg, L}})
					vals, ok := r2.Forward()
					if !ok || !inRange(vals, 1e3) {
						return core.Skip()
					}
					v := gradCase(r2, root, gradOpts{})
					if !v.OK && !v.Skip {
						v.Detail = describeProgram(r2) + " :: " + v.Detail
					}
					return v
				})
			})
		}
	}
	// CE target matrices mixing hard (one-hot) rows with soft rows, including
	// soft rows whose entries sum to exactly 1: every combination of row
	// patterns for 2 and 3 rows
	rowPats := map[int][][]float64{
		2: {{1, 0}, {0, 1}, {0.5, 0.5}, {0.25, 0.75}, {0.3, 0.7}, {0.3, 0.3}, {0, 0}, {1, 1}},
		3: {{1, 0, 0}, {0, 0, 1}, {0.5, 0.25, 0.25}, {0.3, 0.3, 0.4}, {0.5, 0.5, 0}, {0.2, 0.2, 0.2}},
	}
	for _, cl := range []int{2, 3} {
		pats := rowPats[cl]
		for _, b := range []int{2, 3} {
			total := 1
			for i := 0; i < b; i++ {
				total *= len(pats)
			}
			for code := 0; code < total; code++ {
				for _, form := range []int{0, 2} {
					cl, b, code, form := cl, b, code, form
					c.Case(fmt.Sprintf("CE/mixedrows/%dx%d/%d/f%d", b, cl, code, form), true, func() core.Verdict {
						p := enum.Generic([]int{b, cl}, 182, 0.05, 0.95, false)
						t := ref.New([]int{b, cl})
						x := code
						for r := 0; r < b; r++ {
							copy(t.V[r*cl:(r+1)*cl], pats[x%len(pats)])
							x /= len(pats)
						}
						return c13Run("CE", p, t, form, false)
					})
				}
			}
		}
	}
	// larger batches / class counts, generic interior values, every upstream form
	for _, cf := range []cfg{{"MSE", []int{5}}, {"MSE", []int{33}}, {"BCE", []int{7}}, {"BCE", []int{33}}, {"CE", []int{5, 4}}, {"CE", []int{2, 9}}} {
		for form := 0; form < nUpstreamForms; form++ {
			for tt := 0; tt < 2; tt++ {
				cf, form, tt := cf, form, tt
				c.Case(fmt.Sprintf("%s/%v/generic/f%d/t%d", cf.kind, cf.shape, form, tt), true, func() core.Verdict {
					p := enum.Generic(cf.shape, 180, 0.05, 0.95, false)
					t := enum.Generic(cf.shape, 181, 0.05, 0.95, false)
					return c13Run(cf.kind, p, t, form, tt == 1)
				})
			}
		}
	}
	reuseLosses(c, true)
}

/* ---------------- C15 ---------------- */

var c15Values = []float64{-700, -20, -1, 0, 1e-9, 1, 20, 700, 1e-300, -1e-250, 5e-324, -1e-9, 0, -0.5}

func c15Acts(rank int) []ref.Op {
	out := []ref.Op{{K: "Relu"}, {K: "LeakyRelu", F: 0.01}, {K: "LeakyRelu", F: 0.3}, {K: "LeakyRelu", F: -0.5}, {K: "LeakyRelu", F: 1.5}, {K: "LeakyRelu", F: 1}, {K: "LeakyRelu", F: 0}, {K: "Sigmoid"}, {K: "TanhAct"}}
	for d := 0; d < rank; d++ {
		out = append(out, ref.Op{K: "Softmax", Dim: d})
	}
	return out
}

// c15Run: x -> upstream form -> activation -> downstream (0 none, 1 Scale(3),
// 2 non-uniform weighting) -> root.
func c15Run(act ref.Op, x *ref.T, form int, down int) core.Verdict {
	prog, in, _, ok := buildWithUpstream(form, x, nil, nil)
	if !ok {
		return core.Skip()
	}
	actNode := len(prog.Nodes)
	root := prog.NTensors()
	prog.Nodes = append(prog.Nodes, ref.Node{Op: act, In: []int{in}})
	switch down {
	case 1:
		prog.Nodes = append(prog.Nodes, ref.Node{Op: ref.Op{K: "Scale", F: 3}, In: []int{root}})
		root++
	case 2:
		prog, root = withWeighting(prog, root, 23)
	case 3: // an upstream weighting whose elements cancel exactly
		prog, root = withWeighting(prog, root, 23)
		w := prog.Leaves[len(prog.Leaves)-1]
		if len(w.V) < 2 {
			return core.Skip()
		}
		for i := 0; i+1 < len(w.V); i += 2 {
			w.V[i+1] = -w.V[i]
		}
		if len(w.V)%2 == 1 {
			w.V[len(w.V)-1] = 0
		}
	case 4, 5: // a single non-zero upstream entry (the last one); an all-negative upstream
		prog, root = withWeighting(prog, root, 23)
		w := prog.Leaves[len(prog.Leaves)-1]
		for i := range w.V {
			if down == 4 && i != len(w.V)-1 {
				w.V[i] = 0
			}
			if down == 5 {
				w.V[i] = -math.Abs(w.V[i])
			}
		}
	}
	v := gradCase(prog, root, gradOpts{allowKF: true, tieNode: actNode + 1})
	if !v.OK && !v.Skip {
		v.Detail = fmt.Sprintf("%s x=%v upstream form %d downstream %d :: %s :: %s", act, shortT(x), form, down, describeProgram(prog), v.Detail)
	}
	return v
}

func checkC15(c *core.Ctx) {
	defer specialReuse(c, "act", true)
	defer scalarArgC15(c)
	defer sweepC15(c)
	defer soakC15(c)
	defer gridC15(c)
	if c.Shard == 0 && c.Only == "" {
		if f := refSelftest(); f > 0 {
			c.Broken("reference model selftest failed (%d)", f)
			return
		}
	}
	shapes := enum.Shapes(3, []int{1, 2, 3})
	for _, s := range enum.Shapes(4, []int{1, 2}) {
		if len(s) == 4 {
			shapes = append(shapes, s)
		}
	}
	if c.Thorough() {
		shapes = enum.Shapes(4, []int{1, 2, 3})
		for _, s := range enum.Shapes(5, []int{1, 2}) {
			if len(s) == 5 {
				shapes = append(shapes, s)
			}
		}
	}
	shapes = append(shapes, []int{5}, []int{33}, []int{2, 7}, []int{4, 5, 2}, []int{16}, []int{600})
	for _, s := range shapes {
		for _, act := range c15Acts(len(s)) {
			for vi := 0; vi < 4; vi++ {
				for form := 0; form < nUpstreamForms; form++ {
					for down := 0; down < 6; down++ {
						if down == 3 && (form > 2 || vi > 1) {
							continue
						}
						s, act, vi, form, down := s, act, vi, form, down
						nontrivial := form > 0 || down > 0
						c.Case(fmt.Sprintf("%s/%v/v%d/f%d/d%d", act, s, vi, form, down), nontrivial, func() core.Verdict {
							var x *ref.T
							switch vi {
							case 0:
								x = enum.Generic(s, 701, 0.1, 3, true)
							case 1:
								x = enum.Generic(s, 702, 0.1, 3, true)
							default: // rotations of the value classes (exact zeros, +-700 ...)
								x = ref.New(s)
								for i := range x.V {
									x.V[i] = c15Values[(i*3+vi*2+len(s))%len(c15Values)]
								}
							}
							return c15Run(act, x, form, down)
						})
					}
				}
			}
		}
	}
	// value classes exhaustively over 1..2 (thorough 3) element inputs, leaf and one interior form
	maxN := 2
	if c.Thorough() {
		maxN = 3
	}
	for _, act := range c15Acts(1) {
		for n := 1; n <= maxN; n++ {
			total := 1
			for i := 0; i < n; i++ {
				total *= len(c15Values) - 2
			}
			for code := 0; code < total; code++ {
				for _, form := range []int{0, 2} {
					for _, down := range []int{0, 2} {
						act, n, code, form, down := act, n, code, form, down
						c.Case(fmt.Sprintf("%s/class/n%d/%d/f%d/d%d", act, n, code, form, down), true, func() core.Verdict {
							x := ref.New([]int{n})
							k := code
							for i := 0; i < n; i++ {
								x.V[i] = c15Values[k%(len(c15Values)-2)]
								k /= len(c15Values) - 2
							}
							return c15Run(act, x, form, down)
						})
					}
				}
			}
		}
	}
	// activation input as the output of every <= 2-operation program
	alpha := progAlphabet{scales: []float64{2}, unary: []string{"Sin", "Exp"}, sym: []string{"Add", "Mul"}, asym: []string{"Sub"}}
	for _, s := range [][]int{{2}, {2, 2}} {
		for _, act := range c15Acts(len(s)) {
			leaves := []*ref.T{enum.Generic(s, 711, 0.3, 1.2, true), enum.Generic(s, 712, 0.3, 1.2, true)}
			for mi, mask := range c01Masks {
				enumPrograms(leaves, mask, alpha, 2, func(p *ref.Program, code string, nOps int) {
					act, mi := act, mi
					var q *ref.Program
					c.Case(fmt.Sprintf("deep/%s/%v/%s/m%d", act, s, code, mi), true, func() core.Verdict {
						if q == nil {
							q = copyProgram(p)
						}
						r := copyProgram(q)
						last := r.NTensors() - 1
						actNode := len(r.Nodes)
						r.Nodes = append(r.Nodes, ref.Node{Op: act, In: []int{last}})
						r2, root := withWeighting(r, r.NTensors()-1, 29)
						vals, ok := r2.Forward()
						if !ok || !inRange(vals, 300) {
							return core.Skip()
						}
						v := gradCase(r2, root, gradOpts{allowKF: true, tieNode: actNode + 1})
						if !v.OK && !v.Skip {
							v.Detail = describeProgram(r2) + " :: " + v.Detail
						}
						return v
					})
				})
			}
		}
	}
	_ = math.Pi
	reuseActivations(c, true)
}
