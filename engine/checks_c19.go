package main

import (
	"fmt"
	"math"

	"github.com/sahandsafizadeh/qeep/component/metrics"
	"github.com/sahandsafizadeh/qeep/tensor"
	"qmc/core"
	"qmc/ref"
	"qmc/rt"
)

/* C19: Accuracy — BFS over Accumulate/Result histories, state = (total, correct) */

var c19Labels = []float64{0, 1, 2.5, -1, 0.5, 0.5000001}

type c19Ev struct {
	Kind string    // "batch", "invalid", "result"
	P, T []float64 // batch data
	Inv  string    // which invalid call
}

type foreignTensor struct{ tensor.Tensor }

type c19Sys struct {
	maxBatch int
	events   []c19Ev
}

func newC19Sys(maxBatch int) *c19Sys {
	s := &c19Sys{maxBatch: maxBatch}
	for n := 1; n <= maxBatch; n++ {
		total := 1
		for i := 0; i < 2*n; i++ {
			total *= len(c19Labels)
		}
		for code := 0; code < total; code++ {
			p, t := make([]float64, n), make([]float64, n)
			x := code
			for i := 0; i < n; i++ {
				p[i] = c19Labels[x%len(c19Labels)]
				x /= len(c19Labels)
				t[i] = c19Labels[x%len(c19Labels)]
				x /= len(c19Labels)
			}
			s.events = append(s.events, c19Ev{Kind: "batch", P: p, T: t})
		}
	}
	for _, inv := range []string{"nilnil", "nilpred", "niltarget", "rank0", "rank2", "mismatch"} {
		s.events = append(s.events, c19Ev{Kind: "invalid", Inv: inv})
	}
	s.events = append(s.events, c19Ev{Kind: "result"})
	return s
}

func (s *c19Sys) Name(e c19Ev) string {
	switch e.Kind {
	case "batch":
		return fmt.Sprintf("acc(%v,%v)", e.P, e.T)
	case "invalid":
		return "invalid(" + e.Inv + ")"
	}
	return "result"
}

func (s *c19Sys) Enabled(hist []c19Ev) []c19Ev { return s.events }

func c19Model(hist []c19Ev) (total, correct int) {
	for _, e := range hist {
		if e.Kind == "batch" {
			for i := range e.P {
				total++
				if e.P[i] == e.T[i] {
					correct++
				}
			}
		}
	}
	return
}

func c19Apply(m *metrics.Accuracy, e c19Ev) (err error, expectErr bool) {
	vec := func(v []float64) tensor.Tensor { return rt.Make(&ref.T{Shape: []int{len(v)}, V: v}, false) }
	switch e.Kind {
	case "batch":
		return m.Accumulate(vec(e.P), vec(e.T)), false
	case "invalid":
		a := vec([]float64{1, 1})
		switch e.Inv {
		case "nilnil":
			return m.Accumulate(nil, nil), true
		case "nilpred":
			return m.Accumulate(nil, a), true
		case "niltarget":
			return m.Accumulate(a, nil), true
		case "rank0":
			sc := rt.Make(&ref.T{Shape: []int{}, V: []float64{1}}, false)
			return m.Accumulate(sc, sc), true
		case "rank2":
			mm := rt.Make(&ref.T{Shape: []int{1, 2}, V: []float64{1, 1}}, false)
			return m.Accumulate(mm, mm), true
		case "mismatch":
			return m.Accumulate(a, vec([]float64{1, 1, 1})), true
		}
	}
	return nil, false
}

func (s *c19Sys) Step(hist []c19Ev) (string, core.Verdict) {
	m := metrics.NewAccuracy()
	for i, e := range hist {
		last := i == len(hist)-1
		var bt, bc int
		var before float64
		if last {
			bt, bc = m.VerifCounts()
			before, _ = m.Result()
		}
		var err error
		var expectErr bool
		if p := rt.Catch(func() { err, expectErr = c19Apply(m, e) }); p != nil {
			return "", core.Fail("%s panicked: %v", s.Name(e), p)
		}
		if e.Kind == "result" {
			continue
		}
		if expectErr != (err != nil) {
			return "", core.Fail("%s: error=%v, expected error=%v", s.Name(e), err, expectErr)
		}
		if last && expectErr {
			at, ac := m.VerifCounts()
			after, _ := m.Result()
			if at != bt || ac != bc || after != before {
				return "", core.Fail("%s rejected but state changed: counts (%d,%d)->(%d,%d), Result %v->%v", s.Name(e), bt, bc, at, ac, before, after)
			}
		}
	}
	total, correct := c19Model(hist)
	rt_, rc := m.VerifCounts()
	if rt_ != total || rc != correct {
		return "", core.Fail("counters (total,correct)=(%d,%d), model (%d,%d)", rt_, rc, total, correct)
	}
	res, err := m.Result()
	if err != nil {
		return "", core.Fail("Result error: %v", err)
	}
	exp := 0.
	if total > 0 {
		exp = float64(correct) / float64(total)
	}
	if !accEq(res, exp) || res < 0 || res > 1 || math.IsNaN(res) {
		return "", core.Fail("Result = %v, expected matched/total = %d/%d = %v", res, correct, total, exp)
	}
	return fmt.Sprintf("%d/%d", correct, total), core.Pass()
}

func checkC19(c *core.Ctx) {
	defer sweepC19(c)
	defer extremeLabelsC19(c)
	defer producedC19(c)
	defer sweepC19Totals(c)
	defer soakC19(c)
	depth, maxBatch := 5, 2
	if c.Thorough() {
		depth, maxBatch = 7, 3
	}
	sys := newC19Sys(maxBatch)
	st := core.BFS[c19Ev](c, sys, depth, "bfs/")
	c.Note("BFS over %d events per state to depth %d: %d states (total,correct), %d transitions, per depth %v", len(sys.events), depth, st.States, st.Transitions, st.PerDepth)

	// single large batches: every (matches k, batch size n) pair, n up to 64
	// (thorough 160), matched positions first / last / spread
	maxN := 64
	if c.Thorough() {
		maxN = 160
	}
	for n := 1; n <= maxN; n++ {
		n := n
		c.Case(fmt.Sprintf("large/n%d", n), n > 1, func() core.Verdict {
			for k := 0; k <= n; k++ {
				for layout := 0; layout < 3; layout++ {
					p, t := make([]float64, n), make([]float64, n)
					for i := 0; i < n; i++ {
						p[i], t[i] = float64(i%3), float64(i%3)+1
					}
					for j := 0; j < k; j++ {
						pos := j
						switch layout {
						case 1:
							pos = n - 1 - j
						case 2:
							pos = (j * 7) % n
							for t[pos] == p[pos] {
								pos = (pos + 1) % n
							}
						}
						t[pos] = p[pos]
					}
					m := metrics.NewAccuracy()
					if err, _ := c19Apply(m, c19Ev{Kind: "batch", P: p, T: t}); err != nil {
						return core.Fail("Accumulate of a batch of %d: %v", n, err)
					}
					r, _ := m.Result()
					if !accEq(r, float64(k)/float64(n)) {
						return core.Fail("one batch of %d positions with %d matches: Result %v, expected %d/%d = %v", n, k, r, k, n, float64(k)/float64(n))
					}
					// the same data split in two at every cut point of a coarse grid
					for cut := 1; cut < n; cut += 1 + n/8 {
						m2 := metrics.NewAccuracy()
						c19Apply(m2, c19Ev{Kind: "batch", P: p[:cut], T: t[:cut]})
						c19Apply(m2, c19Ev{Kind: "batch", P: p[cut:], T: t[cut:]})
						if r2, _ := m2.Result(); !accEq(r2, r) {
							return core.Fail("%d positions, %d matches: Result %v as one batch but %v split at %d", n, k, r, r2, cut)
						}
					}
				}
			}
			return core.Pass()
		})
	}
	// a long history on ONE metric object: 14 batches of alternating sizes with
	// rejected calls in between, Result after every call
	c.Case("long/alternating", true, func() core.Verdict {
		m := metrics.NewAccuracy()
		total, correct := 0, 0
		for k := 0; k < 14; k++ {
			n := []int{3, 1, 5, 2}[k%4]
			p, t := make([]float64, n), make([]float64, n)
			for i := range p {
				p[i] = float64((i + k) % 3)
				t[i] = float64((i * (k + 1)) % 3)
				total++
				if p[i] == t[i] {
					correct++
				}
			}
			if err, _ := c19Apply(m, c19Ev{Kind: "batch", P: p, T: t}); err != nil {
				return core.Fail("batch %d: %v", k, err)
			}
			if k%3 == 1 {
				c19Apply(m, c19Ev{Kind: "invalid", Inv: []string{"nilpred", "mismatch", "rank2"}[k%3]})
			}
			r, err := m.Result()
			if err != nil || !accEq(r, float64(correct)/float64(total)) {
				return core.Fail("after %d batches: Result %v (err %v), expected %d/%d", k+1, r, err, correct, total)
			}
		}
		return core.Pass()
	})
	// very large batches (block / worker splits): one batch vs. several splits
	for _, n := range []int{1000, 2048, 2053, 4099, 5003} {
		n := n
		c.Case(fmt.Sprintf("huge/n%d", n), true, func() core.Verdict {
			p, t := make([]float64, n), make([]float64, n)
			matched := 0
			for i := range p {
				p[i] = float64(i % 5)
				t[i] = float64((i * 7) % 5)
				if i >= n-9 { // the tail matters: make the last positions match
					t[i] = p[i]
				}
				if p[i] == t[i] {
					matched++
				}
			}
			exp := float64(matched) / float64(n)
			for _, cuts := range [][]int{{}, {n / 2}, {3, 4}, {n - 1}, {1000 % n, (1000 % n) + 1}} {
				m := metrics.NewAccuracy()
				start := 0
				for _, cut := range append(append([]int{}, cuts...), n) {
					if cut <= start || cut > n {
						continue
					}
					if err, _ := c19Apply(m, c19Ev{Kind: "batch", P: p[start:cut], T: t[start:cut]}); err != nil {
						return core.Fail("Accumulate of %d positions: %v", cut-start, err)
					}
					start = cut
				}
				if r, _ := m.Result(); !accEq(r, exp) {
					return core.Fail("%d positions (%d matches) split at %v: Result %v, expected %v", n, matched, cuts, r, exp)
				}
			}
			return core.Pass()
		})
	}
	// partition invariance: every label-pair sequence of length <= n and every
	// one of its 2^(n-1) consecutive partitions into batches
	maxLen := 5
	alpha := [][2]float64{{0, 0}, {0, 1}, {1, 1}, {2.5, -1}}
	if c.Thorough() {
		maxLen = 6
		alpha = append(alpha, [2]float64{-1, -1}, [2]float64{1, 2.5})
	}
	for n := 1; n <= maxLen; n++ {
		total := 1
		for i := 0; i < n; i++ {
			total *= len(alpha)
		}
		for code := 0; code < total; code++ {
			n, code := n, code
			c.Case(fmt.Sprintf("partition/n%d/%d", n, code), n > 1, func() core.Verdict {
				p, t := make([]float64, n), make([]float64, n)
				x := code
				for i := 0; i < n; i++ {
					p[i], t[i] = alpha[x%len(alpha)][0], alpha[x%len(alpha)][1]
					x /= len(alpha)
				}
				var ref0 float64
				for cut := 0; cut < 1<<(n-1); cut++ {
					m := metrics.NewAccuracy()
					start := 0
					for i := 0; i < n; i++ {
						if i == n-1 || cut&(1<<i) != 0 {
							e := c19Ev{Kind: "batch", P: p[start : i+1], T: t[start : i+1]}
							if err, _ := c19Apply(m, e); err != nil {
								return core.Fail("Accumulate(%v,%v): %v", e.P, e.T, err)
							}
							start = i + 1
						}
					}
					r, _ := m.Result()
					if cut == 0 {
						ref0 = r
						matched := 0
						for i := range p {
							if p[i] == t[i] {
								matched++
							}
						}
						if !accEq(r, float64(matched)/float64(n)) {
							return core.Fail("Result %v for %v/%v, expected %d/%d", r, p, t, matched, n)
						}
					} else if !accEq(r, ref0) {
						return core.Fail("Result depends on the partition: %v vs %v for data %v/%v, cut mask %b", r, ref0, p, t, cut)
					}
				}
				return core.Pass()
			})
		}
	}
}
