package main

import (
	"fmt"
	"math"

	"github.com/sahandsafizadeh/qeep/component/layers"
	"github.com/sahandsafizadeh/qeep/tensor"
	xrand "golang.org/x/exp/rand"
	"qmc/core"
	"qmc/enum"
	"qmc/ref"
	"qmc/rt"
)

/* C11: training loop  FC -> activation -> glue -> loss, SGD, ResetGradContext */

type c11Model struct {
	B, D, O int
	act     ref.Op // K=="" means none
	loss    string
	lr      lrCfg
}

func (m c11Model) String() string {
	a := "none"
	if m.act.K != "" {
		a = m.act.String()
	}
	return fmt.Sprintf("B%dD%dO%d/%s/%s/lr(%v,%g)", m.B, m.D, m.O, a, m.loss, m.lr.nilCfg, m.lr.lr)
}

// program: leaves x, t (untracked), W, B (tracked as given); returns ids.
func (m c11Model) program(x, t, w, b *ref.T, wTracked, bTracked bool) (p *ref.Program, loss int) {
	p = &ref.Program{Leaves: []*ref.T{x, t, w, b}, Tracked: []bool{false, false, wTracked, bTracked}}
	cur := 4
	p.Nodes = append(p.Nodes, ref.Node{Op: ref.Op{K: "FC"}, In: []int{0, 2, 3}})
	if m.act.K != "" {
		p.Nodes = append(p.Nodes, ref.Node{Op: m.act, In: []int{cur}})
		cur++
	}
	if m.loss != "CE" {
		p.Nodes = append(p.Nodes, ref.Node{Op: ref.Op{K: "Flatten", Dim: 0}, In: []int{cur}})
		cur++
	}
	p.Nodes = append(p.Nodes, ref.Node{Op: ref.Op{K: m.loss}, In: []int{cur, 1}})
	return p, cur + 1
}

// deviation from the default step (forward, loss, back-propagate, update all
// weights, ResetGradContext(true) on all weights)
type c11Dev struct {
	kind string // "", "noreset", "resetfalse", "update2", "skipupdate"
	step int    // 0-based step at which it happens
	k    int    // weight index (0 = W, 1 = B)
}

func (d c11Dev) String() string {
	if d.kind == "" {
		return "default"
	}
	return fmt.Sprintf("%s@%d/w%d", d.kind, d.step, d.k)
}

type c11Weights struct{ w, b *ref.T }

// modelStep: gradients of the loss at the current weights (exact or mean-model).
func (m c11Model) modelGrads(x, t *ref.T, cur c11Weights, tracked [2]bool, avg bool) (lossVal float64, gw, gb *ref.T, ok bool) {
	p, li := m.program(x, t, cur.w, cur.b, tracked[0], tracked[1])
	vals, okf := p.Forward()
	if !okf || !inRange(vals, 1e6) || !p.DifferentiableAll(vals) {
		return 0, nil, nil, false
	}
	if !avg {
		g, _ := p.Backward(vals, li, nil, false)
		return vals[li].V[0], g[2], g[3], true
	}
	ex, idmap := p.Expand()
	ev, _ := ex.Forward()
	g, _ := ex.Backward(ev, idmap[li], nil, true)
	return vals[li].V[0], g[idmap[2]], g[idmap[3]], true
}

func sgdApply(w, g *ref.T, lr float64) *ref.T {
	r := ref.New(w.Shape)
	for i := range r.V {
		r.V[i] = w.V[i] - lr*g.V[i]
	}
	return r
}

// c11Run executes one training history on the real components and compares it
// step by step with the model trajectory.
type c11Devs []c11Dev

func (ds c11Devs) has(kind string, step, k int) bool {
	for _, d := range ds {
		if d.kind == kind && d.step == step && d.k == k {
			return true
		}
	}
	return false
}

func (ds c11Devs) String() string {
	if len(ds) == 0 {
		return "default"
	}
	s := ""
	for i, d := range ds {
		if i > 0 {
			s += "+"
		}
		s += d.String()
	}
	return s
}

// c11WeightsOnce: the training program asks the layer for its Weights() ONCE, before the loop,
// and keeps the pointers (both usages are legitimate; the pointers address the layer's fields).
var c11WeightsOnce bool

// c11UncontrolledInit counts default-initialised cases skipped because the library's random source is not seeded by the harness.
var c11UncontrolledInit int64

func c11Run(m c11Model, x, t *ref.T, init c11Weights, defaultInit bool, steps int, dev c11Devs) core.Verdict {
	var fc *layers.FC
	var err error
	if defaultInit {
		xrand.Seed(4242)
		fc, err = layers.NewFC(&layers.FCConfig{Inputs: m.D, Outputs: m.O})
		if err == nil {
			init = c11Weights{rt.Read(fc.Weight), rt.Read(fc.Bias)}
			// Is the default initialisation under the harness's control? A library whose initializers draw from a
			// private, clock-seeded source gives every execution other initial weights; a trajectory from weights
			// nobody chose can land where the loss is ill-conditioned (a prediction on the clipping bound), and
			// the verdict then differs between an execution and its re-execution. That says nothing about the
			// property (found with the property-preserving bundle B10, DESIGN 9.11): the case is then left to the
			// fixed-weight variants of the same model, and counted.
			xrand.Seed(4242)
			if fc2, err2 := layers.NewFC(&layers.FCConfig{Inputs: m.D, Outputs: m.O}); err2 == nil {
				w2, b2 := rt.Read(fc2.Weight), rt.Read(fc2.Bias)
				if ok1, _ := core.ExactEq(w2, init.w); !ok1 {
					c11UncontrolledInit++
					return core.Verdict{OK: true, Skip: true, Detail: "default initialisation is not reproducible under a fixed seed: trajectory left to the fixed-weight variants"}
				}
				if ok2, _ := core.ExactEq(b2, init.b); !ok2 {
					c11UncontrolledInit++
					return core.Verdict{OK: true, Skip: true, Detail: "default initialisation is not reproducible under a fixed seed: trajectory left to the fixed-weight variants"}
				}
			}
		}
	} else {
		fc, err = layers.NewFC(&layers.FCConfig{Inputs: m.D, Outputs: m.O, Initializers: map[string]layers.Initializer{"Weight": fixedInit{t: init.w}, "Bias": fixedInit{t: init.b}}})
	}
	if err != nil {
		return core.Fail("NewFC: %v", err)
	}
	opt := m.lr.opt()
	lr := m.lr.value()
	var wsOnce []layers.Weight
	if c11WeightsOnce {
		wsOnce = fc.Weights()
	}
	// one activation object and one loss object for the whole run, as in a real training program
	rt.ObjCache = map[string]any{}
	defer func() { rt.ObjCache = nil }()
	xr, tr := rt.Make(x, false), rt.Make(t, false)

	exact := init // exact gradient-descent trajectory
	alt := init   // trajectory under the listed finding's mean-model
	exactOK, altOK := true, true
	tracked := [2]bool{true, true}
	spent := [2]bool{false, false} // the tensor behind the pointer took part in a back-propagation (or was computed from one that did) and was not reset
	var pend, pendAlt [2]*ref.T    // model gradient currently stored on the tensor behind each pointer (exact / mean-model)

	for s := 0; s < steps; s++ {
		// ---- real step ----
		y, err := fc.Forward(xr)
		if err != nil {
			return core.Fail("step %d Forward: %v", s, err)
		}
		if m.act.K != "" {
			y, err = rt.Apply(m.act, []tensor.Tensor{y})
			if err != nil {
				return core.Fail("step %d activation: %v", s, err)
			}
		}
		if m.loss != "CE" {
			y, err = y.Flatten(0)
			if err != nil {
				return core.Fail("step %d Flatten: %v", s, err)
			}
		}
		l, err := rt.Apply(ref.Op{K: m.loss}, []tensor.Tensor{y, tr})
		if err != nil {
			return core.Fail("step %d loss: %v", s, err)
		}
		if err := tensor.BackPropagate(l); err != nil {
			return core.Fail("step %d BackPropagate: %v", s, err)
		}
		lossVal, _ := l.At()

		// ---- model step ----
		// A forward pass that uses a spent weight (updated or back-propagated
		// and not reset) yields an untracked loss: its back-propagation
		// changes nothing.
		stale := spent[0] || spent[1]
		lv, gw, gb, ok1 := m.modelGrads(x, t, exact, tracked, false)
		lvAlt, gwA, gbA, ok2 := m.modelGrads(x, t, alt, tracked, true)
		if !ok1 || !ok2 {
			return core.Skip()
		}
		if exactOK && !closeScalar(lossVal, lv) {
			exactOK = false
		}
		if altOK && !closeScalar(lossVal, lvAlt) {
			altOK = false
		}
		if !exactOK && !altOK {
			return core.Fail("step %d: loss value %v, model %v (mean-model trajectory %v)", s, lossVal, lv, lvAlt)
		}
		if !stale {
			for k, g := range [2][2]*ref.T{{gw, gwA}, {gb, gbA}} {
				if tracked[k] {
					pend[k], pendAlt[k] = g[0], g[1] // fresh leaves: no earlier gradient to add to
					spent[k] = true
				}
			}
		}
		if dev.has("evalforward", s, 0) || dev.has("evalforward", s, 1) {
			// an evaluation pass (result discarded) between back-propagation and the update changes nothing
			ye, err := fc.Forward(xr)
			if err == nil && m.act.K != "" {
				ye, err = rt.Apply(m.act, []tensor.Tensor{ye})
			}
			if err != nil {
				return core.Fail("step %d evaluation Forward: %v", s, err)
			}
			_ = ye
		}
		ws := wsOnce
		if ws == nil {
			ws = fc.Weights()
		}
		for k := 0; k < 2; k++ {
			before := *ws[k].Value
			if dev.has("skipupdate", s, k) {
				continue
			}
			uerr := opt.Update(ws[k].Value)
			if pend[k] == nil {
				// no gradient on the tensor behind the pointer: untracked weight,
				// or a weight that was updated and never reset (stale graph)
				if uerr == nil {
					return core.Fail("step %d: Update of weight %d returned no error although the tensor has no gradient (tracked=%v, reset omitted or forward pass on a stale graph=%v): silently training on stale state", s, k, tracked[k], stale)
				}
				if *ws[k].Value != before {
					return core.Fail("step %d: failed Update replaced weight %d", s, k)
				}
				continue
			}
			if uerr != nil {
				return core.Fail("step %d: Update of weight %d: %v", s, k, uerr)
			}
			if k == 0 {
				exact.w, alt.w = sgdApply(exact.w, pend[k], lr), sgdApply(alt.w, pendAlt[k], lr)
			} else {
				exact.b, alt.b = sgdApply(exact.b, pend[k], lr), sgdApply(alt.b, pendAlt[k], lr)
			}
			pend[k], pendAlt[k] = nil, nil // the new tensor has no gradient (and is computed from a spent one)
			if dev.has("update2", s, k) {
				after := *ws[k].Value
				if err2 := opt.Update(ws[k].Value); err2 == nil {
					return core.Fail("step %d: second Update of weight %d in the same step returned no error", s, k)
				}
				if *ws[k].Value != after {
					return core.Fail("step %d: failed second Update replaced weight %d", s, k)
				}
			}
		}
		// compare weights
		gotW, gotB := rt.Read(fc.Weight), rt.Read(fc.Bias)
		if exactOK {
			if ok, _ := core.Close(gotW, exact.w, 100); !ok {
				exactOK = false
			} else if ok, _ := core.Close(gotB, exact.b, 100); !ok {
				exactOK = false
			}
		}
		if altOK {
			if ok, _ := core.Close(gotW, alt.w, 100); !ok {
				altOK = false
			} else if ok, _ := core.Close(gotB, alt.b, 100); !ok {
				altOK = false
			}
		}
		if !exactOK && !altOK {
			return core.Fail("after step %d: W=%v B=%v; gradient-descent model W=%v B=%v (mean-model W=%v B=%v)", s, gotW, gotB, exact.w, exact.b, alt.w, alt.b)
		}
		if !ref.SameShape(gotW.Shape, init.w.Shape) || !ref.SameShape(gotB.Shape, init.b.Shape) {
			return core.Fail("after step %d weights changed shape: %v %v", s, gotW.Shape, gotB.Shape)
		}
		// ---- reset ----
		for k := 0; k < 2; k++ {
			wt := *ws[k].Value
			switch {
			case dev.has("noreset", s, k):
				// nothing: the tensor stays as it is (spent if it was reached or replaced)
			case dev.has("resetfalse", s, k):
				wt.ResetGradContext(false)
				tracked[k], spent[k], pend[k], pendAlt[k] = false, false, nil, nil
			default:
				wt.ResetGradContext(tracked[k])
				spent[k], pend[k], pendAlt[k] = false, nil, nil
			}
			if !(dev.has("noreset", s, k)) {
				tr_, dirty, g, targets, _ := tensor.VerifGradState(wt)
				if tr_ != tracked[k] || dirty || g != nil || len(targets) != 0 || wt.Gradient() != nil {
					return core.Fail("after reset in step %d weight %d is not a fresh leaf: tracked=%v spent=%v gradient=%v edges=%d", s, k, tr_, dirty, g != nil, len(targets))
				}
			}
		}
	}
	if !exactOK {
		return core.Verdict{KF: kfBroadcastAvg, Detail: fmt.Sprintf("%s: trajectory follows the mean-model of the listed finding, not exact gradient descent; final W=%v, exact W=%v", m, rt.Read(fc.Weight), exact.w)}
	}
	return core.Pass()
}

func pick(c bool, a, b *ref.T) *ref.T {
	if c {
		return a
	}
	return b
}

func closeScalar(a, b float64) bool {
	d := a - b
	if d < 0 {
		d = -d
	}
	m := 1.0
	if b > m {
		m = b
	} else if -b > m {
		m = -b
	}
	return d <= 1e-8*m
}

func checkC11(c *core.Ctx) {
	defer func() {
		if c11UncontrolledInit > 0 {
			c.P.Capped = true
			c.P.CapNote = fmt.Sprintf("the library's default initialisation is not reproducible under a fixed seed (private random source): %d default-initialised trajectories were left to the fixed-weight variants", c11UncontrolledInit)
			c.Count("default_init_trajectories_not_under_harness_control", c11UncontrolledInit)
		}
	}()
	if c.Shard == 0 && c.Only == "" {
		if f := refSelftest(); f > 0 {
			c.Broken("reference model selftest failed (%d)", f)
			return
		}
	}
	acts := []ref.Op{{}, {K: "Relu"}, {K: "LeakyRelu", F: 0.01}, {K: "LeakyRelu", F: 0.3}, {K: "LeakyRelu", F: 2}, {K: "Sigmoid"}, {K: "TanhAct"}, {K: "Softmax", Dim: 1}}
	lrs := []lrCfg{{nilCfg: true}, {lr: 0.1}, {lr: 0}, {lr: -0.05}}
	maxDim := 2
	steps := 3
	if c.Thorough() {
		maxDim = 3
		steps = 4
	}
	var single []c11Dev
	for s := 0; s < steps-1; s++ {
		for k := 0; k < 2; k++ {
			for _, kind := range []string{"noreset", "resetfalse", "update2", "skipupdate"} {
				single = append(single, c11Dev{kind: kind, step: s, k: k})
			}
			if k == 0 {
				single = append(single, c11Dev{kind: "evalforward", step: s, k: k})
			}
		}
	}
	devs := []c11Devs{nil}
	for _, d := range single {
		devs = append(devs, c11Devs{d})
	}
	if c.Thorough() {
		// two deviations per history (different step/weight slots, or a reset
		// deviation combined with an update deviation in the same slot)
		for i, a := range single {
			for _, b := range single[i+1:] {
				sameSlot := a.step == b.step && a.k == b.k
				aReset := a.kind == "noreset" || a.kind == "resetfalse"
				bReset := b.kind == "noreset" || b.kind == "resetfalse"
				if sameSlot && aReset == bReset {
					continue
				}
				devs = append(devs, c11Devs{a, b})
			}
		}
	}
	type bdo struct{ B, D, O int }
	var dims []bdo
	for B := 1; B <= maxDim; B++ {
		for D := 1; D <= maxDim; D++ {
			for O := 1; O <= maxDim; O++ {
				dims = append(dims, bdo{B, D, O})
			}
		}
	}
	// wide layers and large batches (default history only): inner dimensions of
	// the backward matrix products and the batch reduction grow beyond the small bound
	wide := []bdo{{1, 16, 2}, {2, 17, 3}, {1, 33, 1}, {2, 4, 16}, {1, 2, 40}, {64, 2, 2}, {70, 3, 1}, {3, 64, 5}}
	if c.Thorough() {
		wide = append(wide, bdo{1, 128, 2}, bdo{2, 257, 2}, bdo{128, 2, 3}, bdo{5, 8, 8}, bdo{1, 9, 9}, bdo{33, 33, 2})
	}
	// length sweep (see checks_sweep.go): batch, inputs and outputs each swept alone
	for _, L := range sweepLengthsShort(c.Thorough()) {
		if L > 3 {
			wide = append(wide, bdo{L, 2, 2}, bdo{1, L, 2}, bdo{2, 2, L})
		}
	}
	// grid (see checks_grid.go): batch, inputs and outputs medium at the same time
	for _, B := range []int{4, 8, 17} {
		for _, D := range []int{4, 8, 17} {
			for _, O := range []int{4, 8, 17} {
				wide = append(wide, bdo{B, D, O})
			}
		}
	}
	nSmall := len(dims)
	dims = append(dims, wide...)
	for di, dd := range dims {
		{
			{
				B, D, O := dd.B, dd.D, dd.O
				devs, lrs := devs, lrs
				if di >= nSmall {
					devs, lrs = []c11Devs{nil}, []lrCfg{{lr: 0.1}}
				}
				for _, act := range acts {
					wideDims := di >= nSmall
					for _, loss := range []string{"MSE", "BCE", "CE"} {
						if wideDims && loss != "MSE" && act.K != "Sigmoid" && act.K != "Softmax" {
							// BCE / CE of outputs outside (0,1) sit on the clipping bound, where a
							// long sum decides on which side: not a well-conditioned trajectory
							continue
						}
						for _, lr := range lrs {
							for ini := 0; ini < 4; ini++ {
								if wideDims && (ini == 1 || ini == 3) {
									continue // sweeps / grids: one generic and the default initialisation
								}
								for _, dev := range devs {
									if c.Expired() {
										return
									}
									m := c11Model{B, D, O, act, loss, lr}
									ini, dev := ini, dev
									nontrivial := len(dev) > 0 || B > 1
									c.Case(fmt.Sprintf("%s/i%d/%s", m, ini, dev), nontrivial, func() core.Verdict {
										x := enum.Generic([]int{B, D}, uint64(901+ini), 0.3, 1.5, true)
										if D > 3 {
											// keep the pre-activations of wide layers in the well-conditioned range
											x = ref.Map(x, func(v float64) float64 { return v * 3 / float64(D) })
										}
										var t *ref.T
										if loss == "CE" {
											t = enum.Generic([]int{B, O}, uint64(905+ini), 0.1, 0.9, false)
										} else {
											t = enum.Generic([]int{B * O}, uint64(905+ini), 0.1, 0.9, false)
										}
										init := c11Weights{enum.Generic([]int{O}, uint64(911+ini), 0.2, 1.2, true), enum.Generic([]int{O}, uint64(915+ini), 0.2, 1.2, true)}
										if ini == 3 {
											// dead units: positive inputs, negative weights and biases, zero
											// targets: with Relu every gradient and every MSE residual is exactly 0
											x = ref.Map(x, func(v float64) float64 { return math.Abs(v) })
											init.w = ref.Map(init.w, func(v float64) float64 { return -math.Abs(v) })
											init.b = ref.Map(init.b, func(v float64) float64 { return -math.Abs(v) })
											t = ref.FullOf(t.Shape, 0)
										}
										c11WeightsOnce = (ini+B+D+O+len(dev))%2 == 1
										defer func() { c11WeightsOnce = false }()
										return c11Run(m, x, t, init, ini == 2, steps, dev)
									})
								}
							}
						}
					}
				}
			}
		}
	}
}
