package main

import (
	"fmt"
	"math"

	"github.com/sahandsafizadeh/qeep/tensor"
	"qmc/core"
	"qmc/enum"
	"qmc/ref"
	"qmc/rt"
)

/*
Power-of-two scaling (metamorphic, forward values). Many of the operations are
homogeneous: f(s*x) = s^d * f(x). For s = 2^k the scaling is exact in binary
floating point as long as nothing leaves the normal range, whatever order the
implementation evaluates its formula in. A branch that looks at the MAGNITUDE
of the data (a rescaling above a threshold, a shortcut for "small" values, an
absolute tolerance) breaks the relation, although every single evaluation may
be within rounding of the model.
*/

type homog struct {
	name   string
	op     ref.Op
	shapes [][]int
	scaled []bool // which operands are scaled
	degree float64
}

func homogFamilies(kinds map[string]bool) []homog {
	var out []homog
	s1 := [][]int{{5}, {2, 3}, {3, 1, 2}}
	for _, s := range s1 {
		add := func(name string, op ref.Op, shapes [][]int, scaled []bool, degree float64) {
			if kinds[op.K] {
				out = append(out, homog{fmt.Sprintf("%s%v", name, shapes), op, shapes, scaled, degree})
			}
		}
		for _, k := range []string{"Add", "Sub", "ElMax", "ElMin"} {
			add(k, ref.Op{K: k}, [][]int{s, s}, []bool{true, true}, 1)
		}
		add("Mul/both", ref.Op{K: "Mul"}, [][]int{s, s}, []bool{true, true}, 2)
		add("Mul/one", ref.Op{K: "Mul"}, [][]int{s, s}, []bool{false, true}, 1)
		add("Div/both", ref.Op{K: "Div"}, [][]int{s, s}, []bool{true, true}, 0)
		add("Div/num", ref.Op{K: "Div"}, [][]int{s, s}, []bool{true, false}, 1)
		add("Div/den", ref.Op{K: "Div"}, [][]int{s, s}, []bool{false, true}, -1)
		add("Scale", ref.Op{K: "Scale", F: -1.5}, [][]int{s}, []bool{true}, 1)
		for _, a := range []float64{2, 3, -1, -2, 1, 0} {
			add("Pow", ref.Op{K: "Pow", F: a}, [][]int{s}, []bool{true}, a)
		}
		add("Dot/both", ref.Op{K: "Dot"}, [][]int{s, s}, []bool{true, true}, 2)
		add("Dot/one", ref.Op{K: "Dot"}, [][]int{s, s}, []bool{true, false}, 1)
		if len(s) >= 2 {
			b := ref.CopyShape(s)
			b[len(b)-2], b[len(b)-1] = s[len(s)-1], 2
			add("MatMul/both", ref.Op{K: "MatMul"}, [][]int{s, b}, []bool{true, true}, 2)
			add("MatMul/right", ref.Op{K: "MatMul"}, [][]int{s, b}, []bool{false, true}, 1)
			add("Transpose", ref.Op{K: "Transpose"}, [][]int{s}, []bool{true}, 1)
		}
		for d := range s {
			for _, k := range ref.AlongKinds {
				deg := 1.0
				if k == "VarAlong" {
					deg = 2
				}
				add(k, ref.Op{K: k, Dim: d}, [][]int{s}, []bool{true}, deg)
			}
		}
		add("Relu", ref.Op{K: "Relu"}, [][]int{s}, []bool{true}, 1)
		add("LeakyRelu", ref.Op{K: "LeakyRelu", F: 0.3}, [][]int{s}, []bool{true}, 1)
		if len(s) == 1 {
			add("MSE", ref.Op{K: "MSE"}, [][]int{s, s}, []bool{true, true}, 2)
		}
	}
	return out
}

func scalingCases(c *core.Ctx, kindList ...string) {
	kinds := map[string]bool{}
	for _, k := range kindList {
		kinds[k] = true
	}
	for _, h := range homogFamilies(kinds) {
		for _, k := range []int{-400, -60, 60, 400} {
			if math.Abs(float64(k)*h.degree) > 900 {
				continue
			}
			h, k := h, k
			c.Case(fmt.Sprintf("scaling/%s/2^%d", h.name, k), true, func() core.Verdict {
				s := math.Ldexp(1, k)
				in := make([]*ref.T, len(h.shapes))
				for i, sh := range h.shapes {
					in[i] = enum.Generic(sh, uint64(1100+i), 0.5, 3, true)
				}
				run := func(scale bool) (*ref.T, error) {
					rin := make([]tensor.Tensor, len(in))
					for i, t := range in {
						x := t
						if scale && h.scaled[i] {
							x = ref.Map(t, func(v float64) float64 { return v * s })
						}
						rin[i] = rt.Make(x, false)
					}
					y, err := rt.Apply(h.op, rin)
					if err != nil {
						return nil, err
					}
					return rt.Read(y), nil
				}
				y1, e1 := run(false)
				y2, e2 := run(true)
				if e1 != nil || e2 != nil {
					return core.Fail("%s: %v / %v", h.name, e1, e2)
				}
				if !ref.SameShape(y1.Shape, y2.Shape) {
					return core.Fail("%s: the result's shape depends on the scale of the data: %v vs %v", h.name, y1.Shape, y2.Shape)
				}
				f := math.Pow(2, float64(k)*h.degree)
				for i := range y1.V {
					a, b := y1.V[i]*f, y2.V[i]
					if m := math.Abs(a); a != 0 && (m < 1e-280 || m > 1e280 || math.IsNaN(m)) {
						continue
					}
					if d := math.Abs(a - b); d > 1e-12*math.Abs(a) || math.IsNaN(d) {
						return core.Fail("%s is homogeneous of degree %g, but with the marked operands scaled by 2^%d element %d is %v instead of %v (= %v * 2^%g): the result depends on the magnitude of the data beyond rounding", h.name, h.degree, k, i, b, a, y1.V[i], float64(k)*h.degree)
					}
				}
				return core.Pass()
			})
		}
	}
	// whole-tensor reducers
	if kinds["global"] {
		for _, sh := range [][]int{{7}, {3, 4}, {2, 3, 2}} {
			for _, k := range []int{-400, -60, 60, 400} {
				sh, k := sh, k
				c.Case(fmt.Sprintf("scaling/global/%v/2^%d", sh, k), true, func() core.Verdict {
					s := math.Ldexp(1, k)
					x := enum.Generic(sh, 1200, 0.5, 3, true)
					a, b := rt.Make(x, false), rt.Make(ref.Map(x, func(v float64) float64 { return v * s }), false)
					type st struct {
						name string
						deg  float64
						f    func(t tensor.Tensor) float64
					}
					for _, q := range []st{{"Sum", 1, tensor.Tensor.Sum}, {"Max", 1, tensor.Tensor.Max}, {"Min", 1, tensor.Tensor.Min}, {"Avg", 1, tensor.Tensor.Avg}, {"Mean", 1, tensor.Tensor.Mean}, {"Std", 1, tensor.Tensor.Std}, {"Var", 2, tensor.Tensor.Var}} {
						if math.Abs(float64(k)*q.deg) > 900 {
							continue
						}
						v1, v2 := q.f(a)*math.Pow(2, float64(k)*q.deg), q.f(b)
						if d := math.Abs(v1 - v2); d > 1e-12*math.Abs(v1) || math.IsNaN(d) {
							return core.Fail("%s() of data scaled by 2^%d is %v instead of %v: the result depends on the magnitude of the data beyond rounding", q.name, k, v2, v1)
						}
					}
					return core.Pass()
				})
			}
		}
	}
}
