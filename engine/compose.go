package main

import (
	"fmt"
	"math"

	"github.com/sahandsafizadeh/qeep/tensor"
	"qmc/core"
	"qmc/enum"
	"qmc/ref"
	"qmc/rt"
)

/* Operations compose: a tensor produced by ANY constructor or operation behaves,
   as an operand of any other operation, exactly like a TensorOf tensor holding the
   same values (internal bookkeeping such as memoised counts, spare capacity of
   nested rows or shared sub-blocks must not show), and it is not disturbed by
   operations applied to it or to its siblings later. */

type producer struct {
	name string
	prog *ref.Program // last tensor has shape s
}

// producersOf builds, for a target shape s, one program per kind of producer
// whose last tensor has shape s (all leaves untracked, generic values).
func producersOf(s []int) []producer {
	var out []producer
	g := func(sh []int, salt uint64) *ref.T { return enum.Generic(sh, salt, 0.5, 3, true) }
	add := func(name string, leaves []*ref.T, nodes ...ref.Node) {
		p := &ref.Program{Leaves: leaves, Tracked: make([]bool, len(leaves)), Nodes: nodes}
		if vals, ok := p.Forward(); ok && ref.SameShape(vals[len(vals)-1].Shape, s) {
			out = append(out, producer{name, p})
		}
	}
	n := len(s)
	add("TensorOf", []*ref.T{g(s, 71)})
	add("Scale", []*ref.T{g(s, 72)}, ref.Node{Op: ref.Op{K: "Scale", F: 1.5}, In: []int{0}})
	add("Add", []*ref.T{g(s, 73), g(s, 74)}, ref.Node{Op: ref.Op{K: "Add"}, In: []int{0, 1}})
	add("Reshape", []*ref.T{g([]int{ref.Size(s)}, 75)}, ref.Node{Op: ref.Op{K: "Reshape", Shape: s}, In: []int{0}})
	add("SumAlong", []*ref.T{g(append([]int{2}, s...), 76)}, ref.Node{Op: ref.Op{K: "SumAlong", Dim: 0}, In: []int{0}})
	add("Dot", []*ref.T{g(append(ref.CopyShape(s), 2), 77), g(append(ref.CopyShape(s), 2), 78)}, ref.Node{Op: ref.Op{K: "Dot"}, In: []int{0, 1}})
	if n >= 1 {
		add("Broadcast", []*ref.T{g(s[1:], 79)}, ref.Node{Op: ref.Op{K: "Broadcast", Shape: s}, In: []int{0}})
		big := ref.CopyShape(s)
		ix := make([]ref.Range, n)
		for i := range big {
			big[i]++
			ix[i] = ref.Range{From: 1, To: big[i]}
		}
		add("Slice", []*ref.T{g(big, 80)}, ref.Node{Op: ref.Op{K: "Slice", Index: ix}, In: []int{0}})
		one := ref.CopyShape(s)
		one[0] = 1
		add("Patch", []*ref.T{g(s, 81), g(one, 82)}, ref.Node{Op: ref.Op{K: "Patch", Index: []ref.Range{{From: s[0] - 1, To: s[0]}}}, In: []int{0, 1}})
		if s[0] >= 2 {
			a, b := ref.CopyShape(s), ref.CopyShape(s)
			a[0], b[0] = 1, s[0]-1
			add("Concat", []*ref.T{g(a, 83), g(b, 84)}, ref.Node{Op: ref.Op{K: "Concat", Dim: 0}, In: []int{0, 1}})
		}
		if s[n-1] >= 2 {
			a, b := ref.CopyShape(s), ref.CopyShape(s)
			a[n-1], b[n-1] = s[n-1]-1, 1
			add("ConcatLast", []*ref.T{g(a, 85), g(b, 86)}, ref.Node{Op: ref.Op{K: "Concat", Dim: n - 1}, In: []int{0, 1}})
		}
		add("Squeeze", []*ref.T{g(append([]int{1}, s...), 87)}, ref.Node{Op: ref.Op{K: "Squeeze", Dim: 0}, In: []int{0}})
		// a size-1 dimension that was CREATED by UnSqueeze (not present from construction)
		for d := range s {
			if s[d] == 1 {
				add(fmt.Sprintf("UnSqueeze%d", d), []*ref.T{g(ref.RemoveDim(s, d), 92)}, ref.Node{Op: ref.Op{K: "UnSqueeze", Dim: d}, In: []int{0}})
			}
		}
	}
	if n >= 2 {
		t := ref.CopyShape(s)
		t[n-1], t[n-2] = t[n-2], t[n-1]
		add("Transpose", []*ref.T{g(t, 88)}, ref.Node{Op: ref.Op{K: "Transpose"}, In: []int{0}})
		a, b := ref.CopyShape(s), ref.CopyShape(s)
		a[n-1], b[n-2] = 2, 2
		add("MatMul", []*ref.T{g(a, 89), g(b, 90)}, ref.Node{Op: ref.Op{K: "MatMul"}, In: []int{0, 1}})
		if n == 2 && s[0] == s[1] {
			// Eye is a constructor: compare through a MatMul by the identity
			add("MatMulEye", []*ref.T{g(s, 91), ref.Eye(s[0])}, ref.Node{Op: ref.Op{K: "MatMul"}, In: []int{0, 1}})
		}
	}
	// constructors, alone and followed by the operations that copy / re-wrap their data
	if n >= 1 {
		one := ref.CopyShape(s)
		one[0] = 1
		last := []ref.Range{{From: s[0] - 1, To: s[0]}}
		for ci, ct := range []struct {
			name string
			val  float64
		}{{"Full", 2.5}, {"Zeros", 0}, {"Ones", 1}} {
			addC := func(name string, leaves []*ref.T, ctor []string, nodes ...ref.Node) {
				p := &ref.Program{Leaves: leaves, Tracked: make([]bool, len(leaves)), Nodes: nodes, Ctor: ctor}
				if vals, ok := p.Forward(); ok && ref.SameShape(vals[len(vals)-1].Shape, s) {
					out = append(out, producer{name, p})
				}
			}
			salt := uint64(300 + 10*ci)
			addC(ct.name, []*ref.T{ref.FullOf(s, ct.val)}, []string{ct.name})
			addC(ct.name+">Patch", []*ref.T{ref.FullOf(s, ct.val), g(one, salt)}, []string{ct.name, ""}, ref.Node{Op: ref.Op{K: "Patch", Index: last}, In: []int{0, 1}})
			addC("Patch<"+ct.name, []*ref.T{g(s, salt+1), ref.FullOf(one, ct.val)}, []string{"", ct.name}, ref.Node{Op: ref.Op{K: "Patch", Index: last}, In: []int{0, 1}})
			addC(ct.name+">Patch>Slice", []*ref.T{ref.FullOf(append([]int{s[0] + 1}, s[1:]...), ct.val), g(one, salt+2)}, []string{ct.name, ""},
				ref.Node{Op: ref.Op{K: "Patch", Index: []ref.Range{{From: 1, To: 2}}}, In: []int{0, 1}},
				ref.Node{Op: ref.Op{K: "Slice", Index: []ref.Range{{From: 1, To: s[0] + 1}}}, In: []int{2}})
			addC(ct.name+">Patch>Reshape", []*ref.T{ref.FullOf([]int{ref.Size(s)}, ct.val), g([]int{1}, salt+3)}, []string{ct.name, ""},
				ref.Node{Op: ref.Op{K: "Patch", Index: []ref.Range{{From: 0, To: 1}}}, In: []int{0, 1}},
				ref.Node{Op: ref.Op{K: "Reshape", Shape: s}, In: []int{2}})
			addC(ct.name+">Broadcast", []*ref.T{ref.FullOf(s[1:], ct.val)}, []string{ct.name}, ref.Node{Op: ref.Op{K: "Broadcast", Shape: s}, In: []int{0}})
			if s[0] >= 2 {
				a, b := ref.CopyShape(s), ref.CopyShape(s)
				a[0], b[0] = 1, s[0]-1
				addC(ct.name+">Concat", []*ref.T{ref.FullOf(a, ct.val), g(b, salt+4)}, []string{ct.name, ""}, ref.Node{Op: ref.Op{K: "Concat", Dim: 0}, In: []int{0, 1}})
			}
			addC(ct.name+">Add", []*ref.T{ref.FullOf(s, ct.val), g(s, salt+5)}, []string{ct.name, ""}, ref.Node{Op: ref.Op{K: "Add"}, In: []int{0, 1}})
		}
	}
	// chains: every producer so far followed by an operation that re-wraps its result
	if n >= 1 {
		base := append([]producer{}, out...)
		one := ref.CopyShape(s)
		one[0] = 1
		for _, pr := range base {
			if pr.name == "TensorOf" || len(pr.prog.Ctor) > 0 {
				continue
			}
			ext := func(name string, extraLeaves []*ref.T, mk func(prev int, firstExtra int) []ref.Node) {
				// leaves come first in tensor numbering: appending leaves shifts node ids
				q := &ref.Program{}
				L := len(pr.prog.Leaves)
				q.Leaves = append(append([]*ref.T{}, pr.prog.Leaves...), extraLeaves...)
				q.Tracked = make([]bool, len(q.Leaves))
				shift := func(id int) int {
					if id >= L {
						return id + len(extraLeaves)
					}
					return id
				}
				for _, nd := range pr.prog.Nodes {
					in := make([]int, len(nd.In))
					for k, id := range nd.In {
						in[k] = shift(id)
					}
					q.Nodes = append(q.Nodes, ref.Node{Op: nd.Op, In: in})
				}
				prev := q.NTensors() - 1
				q.Nodes = append(q.Nodes, mk(prev, L)...)
				if vals, ok := q.Forward(); ok && ref.SameShape(vals[len(vals)-1].Shape, s) {
					out = append(out, producer{pr.name + ">" + name, q})
				}
			}
			ext("Patch", []*ref.T{g(one, 401)}, func(prev, fe int) []ref.Node {
				return []ref.Node{{Op: ref.Op{K: "Patch", Index: []ref.Range{{From: 0, To: 1}}}, In: []int{prev, fe}}}
			})
			ext("Reshape2", nil, func(prev, fe int) []ref.Node {
				return []ref.Node{{Op: ref.Op{K: "Reshape", Shape: []int{ref.Size(s)}}, In: []int{prev}}, {Op: ref.Op{K: "Reshape", Shape: s}, In: []int{prev + 1}}}
			})
			ext("UnSqueeze>Squeeze", nil, func(prev, fe int) []ref.Node {
				return []ref.Node{{Op: ref.Op{K: "UnSqueeze", Dim: 0}, In: []int{prev}}, {Op: ref.Op{K: "Squeeze", Dim: 0}, In: []int{prev + 1}}}
			})
			ext("Scale1", nil, func(prev, fe int) []ref.Node {
				return []ref.Node{{Op: ref.Op{K: "Scale", F: 1}, In: []int{prev}}}
			})
		}
	}
	return out
}

// composeCases: for every producer of every shape, apply every consumer
// operation to the produced tensor (twice, in both orders of two consumers),
// compare each result with the model, and finally re-read the produced tensor
// and every earlier result (nothing may have been disturbed).
func composeCases(c *core.Ctx, prefix string, shapes [][]int, consumers func(s []int) []ref.Op, exactMove bool) {
	for _, s := range shapes {
		cons := consumers(s)
		for _, pr := range producersOf(s) {
			s, pr := s, pr
			c.Case(fmt.Sprintf("%s/%s/%v", prefix, pr.name, s), pr.name != "TensorOf", func() core.Verdict {
				vals, _ := pr.prog.Forward()
				y := vals[len(vals)-1]
				ts, failed, err := rt.RunProgram(pr.prog)
				if err != nil {
					return core.Fail("producer %s node %d: %v", pr.name, failed, err)
				}
				ry := ts[len(ts)-1]
				sibling := rt.Make(enum.Generic(s, 95, 0.5, 3, true), false)
				sibVal := enum.Generic(s, 95, 0.5, 3, true)
				type kept struct {
					t   tensor.Tensor
					exp *ref.T
					op  ref.Op
				}
				var keep []kept
				order := make([]int, 0, 2*len(cons))
				for i := range cons {
					order = append(order, i)
				}
				for i := len(cons) - 1; i >= 0; i-- {
					order = append(order, i)
				}
				sibling2 := rt.Make(enum.Generic(s, 96, 0.5, 3, true), false)
				sibVal2 := enum.Generic(s, 96, 0.5, 3, true)
				for step, oi := range order {
					op := cons[oi]
					in := []*ref.T{y}
					rin := []tensor.Tensor{ry}
					swap := false
					if op.Arity() == 2 || op.K == "Concat" {
						pv, pt := sibVal, sibling
						if step >= len(cons) { // second pass: another partner, so a clobbered earlier result shows
							pv, pt = sibVal2, sibling2
						}
						if op.K == "Concat" && len(op.Shape) == 1 {
							// "small piece" variant: a partner of size 1 along the concatenated dimension
							ix := make([]ref.Range, op.Dim+1)
							ix[op.Dim] = ref.Range{From: 0, To: 1}
							pv = ref.SliceOf(pv, ref.CompleteIndex(ix, pv.Shape))
							pt = rt.Make(pv, false)
							op.Shape = nil
						}
						in = append(in, pv)
						rin = append(rin, pt)
						// second pass: the produced tensor is the ARGUMENT, the partner the receiver
						if step >= len(cons) && op.Arity() == 2 && op.K != "Patch" && op.K != "MatMul" && op.K != "Dot" {
							in[0], in[1] = in[1], in[0]
							rin[0], rin[1] = rin[1], rin[0]
							swap = true
						}
					}
					_ = swap
					exp, ok := ref.Eval(op, in)
					if !ok {
						continue
					}
					got, err := rt.Apply(op, rin)
					if err != nil {
						return core.Fail("%s applied to the result of %s (shape %v): %v", op, pr.name, s, err)
					}
					g := rt.Read(got)
					if same, msg := core.Close(g, exp, scaleOf(y, exp, sibVal)*scaleOf(y, sibVal)); !same {
						return core.Fail("%s applied to the result of %s (shape %v): %s", op, pr.name, s, msg)
					}
					if m := wellFormed(got, g); m != "" {
						return core.Fail("%s applied to the result of %s: %s", op, pr.name, m)
					}
					keep = append(keep, kept{got, exp, op})
				}
				// global reducers on the produced tensor
				for _, k := range []string{"Sum", "Max", "Min", "Avg", "Var", "Std", "Mean"} {
					var got float64
					switch k {
					case "Sum":
						got = ry.Sum()
					case "Max":
						got = ry.Max()
					case "Min":
						got = ry.Min()
					case "Avg":
						got = ry.Avg()
					case "Var":
						got = ry.Var()
					case "Std":
						got = ry.Std()
					default:
						got = ry.Mean()
					}
					exp := ref.Stat(k, y.V)
					if math.IsNaN(got) || math.Abs(got-exp) > statTol(k, y.V, exp)+1e-9*(1+math.Abs(exp)) {
						return core.Fail("%s() of the result of %s (shape %v) = %v, expected %v", k, pr.name, s, got, exp)
					}
				}
				if ry.NElems() != ref.Size(s) {
					return core.Fail("NElems of the result of %s = %d, expected %d", pr.name, ry.NElems(), ref.Size(s))
				}
				// nothing produced earlier was disturbed by the later operations
				if same, msg := core.Close(rt.Read(ry), y, scaleOf(y)); !same {
					return core.Fail("the result of %s changed after operations were applied to it: %s", pr.name, msg)
				}
				for _, kp := range keep {
					if same, msg := core.Close(rt.Read(kp.t), kp.exp, scaleOf(y, kp.exp, sibVal)*scaleOf(y, sibVal)); !same {
						return core.Fail("an earlier result (%s of the result of %s) changed after later operations: %s", kp.op, pr.name, msg)
					}
				}
				return core.Pass()
			})
		}
	}
}

var composeShapes = [][]int{{}, {3}, {2, 2}, {2, 3}, {3, 2, 2}, {2, 1, 3}}

func consumersReduce(s []int) []ref.Op {
	var ops []ref.Op
	for d := range s {
		for _, k := range ref.AlongKinds {
			ops = append(ops, ref.Op{K: k, Dim: d})
		}
	}
	return ops
}

func consumersElementwise(s []int) []ref.Op {
	return []ref.Op{{K: "Scale", F: 2}, {K: "Exp"}, {K: "Pow", F: 2}, {K: "Sin"}, {K: "Add"}, {K: "Sub"}, {K: "Mul"}, {K: "Div"}, {K: "ElMax"}, {K: "ElMin"}, {K: "Gt"}, {K: "Eq"}}
}

func consumersMove(s []int) []ref.Op {
	ops := []ref.Op{{K: "Reshape", Shape: []int{ref.Size(s)}}, {K: "UnSqueeze", Dim: 0}, {K: "Slice"}, {K: "Broadcast", Shape: append([]int{2}, s...)}}
	for d := range s {
		// Shape: []int{1} marks the variant whose partner has size 1 along d
		ops = append(ops, ref.Op{K: "Concat", Dim: d}, ref.Op{K: "Concat", Dim: d, Shape: []int{1}}, ref.Op{K: "Flatten", Dim: d})
	}
	if len(s) >= 1 {
		ops = append(ops, ref.Op{K: "Slice", Index: []ref.Range{{From: 0, To: 1}}}, ref.Op{K: "Patch"})
	}
	if len(s) >= 2 {
		ops = append(ops, ref.Op{K: "Transpose"})
	}
	return ops
}

func consumersLinalg(s []int) []ref.Op {
	var ops []ref.Op
	if len(s) >= 1 {
		ops = append(ops, ref.Op{K: "Dot"})
	}
	if len(s) >= 2 {
		ops = append(ops, ref.Op{K: "Transpose"})
		if s[len(s)-1] == s[len(s)-2] {
			ops = append(ops, ref.Op{K: "MatMul"})
		}
	}
	return ops
}
