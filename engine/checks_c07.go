package main

import (
	"fmt"

	"qmc/core"
	"qmc/enum"
	"qmc/ref"
)

func checkC07(c *core.Ctx) {
	defer sweepC07(c)
	defer gridC07(c)
	var targets [][]int
	if c.Thorough() {
		targets = enum.Shapes(5, []int{1, 2, 3})
	} else {
		targets = enum.Shapes(3, []int{1, 2, 3})
		for _, s := range enum.Shapes(4, []int{1, 2}) {
			if len(s) == 4 {
				targets = append(targets, s)
			}
		}
	}
	run := func(id string, op ref.Op, shapes [][]int, mask int, wi int, expanded bool) {
		c.Case(id, expanded, func() core.Verdict {
			in := make([]*ref.T, len(shapes))
			for i, s := range shapes {
				in[i] = enum.Generic(s, uint64(200+i), 0.5, 3, true)
			}
			p := &ref.Program{Leaves: in}
			ids := make([]int, len(in))
			for i := range in {
				p.Tracked = append(p.Tracked, mask&(1<<i) != 0)
				ids[i] = i
			}
			p.Nodes = []ref.Node{{Op: op, In: ids}}
			root := len(in)
			if wi == 4 {
				// special data (round 16): the partner of the tracked operand is all zeros (both for mask 3)
				if len(in) < 2 {
					return core.Skip()
				}
				if mask&1 != 0 && op.K != "Div" {
					in[1] = ref.FullOf(shapes[1], 0)
				}
				if mask&2 != 0 {
					in[0] = ref.FullOf(shapes[0], 0)
				}
			}
			if wi >= 1 && wi != 4 {
				p, root = withWeighting(p, root, 13)
			}
			if wi == 3 { // an upstream gradient that is zero in every element: a zero gradient of the operand's own shape
				w := p.Leaves[len(p.Leaves)-1]
				for i := range w.V {
					w.V[i] = 0
				}
			}
			if wi == 2 { // upstream elements cancel exactly
				w := p.Leaves[len(p.Leaves)-1]
				if len(w.V) < 2 {
					return core.Skip()
				}
				for i := 0; i+1 < len(w.V); i += 2 {
					w.V[i+1] = -w.V[i]
				}
				if len(w.V)%2 == 1 {
					w.V[len(w.V)-1] = 0
				}
			}
			v := gradCase(p, root, gradOpts{allowKF: true})
			if !v.OK && !v.Skip {
				v.Detail = describeProgram(p) + " :: " + v.Detail
			}
			return v
		})
		if wi == 1 {
			// linear in the upstream gradient (the listed finding is linear too: no known-finding match needed)
			for _, k := range []int{-565, 500} {
				k := k
				c.Case(fmt.Sprintf("%s/upstream2^%d", id, k), expanded, func() core.Verdict {
					in := make([]*ref.T, len(shapes))
					for i, s := range shapes {
						in[i] = enum.Generic(s, uint64(200+i), 0.5, 3, true)
					}
					p := &ref.Program{Leaves: in}
					ids := make([]int, len(in))
					for i := range in {
						p.Tracked = append(p.Tracked, mask&(1<<i) != 0)
						ids[i] = i
					}
					p.Nodes = []ref.Node{{Op: op, In: ids}}
					q, root := withWeighting(p, len(in), 13)
					v := upstreamLinearCase(q, root, k)
					if !v.OK && !v.Skip {
						v.Detail = describeProgram(q) + " :: " + v.Detail
					}
					return v
				})
			}
		}
	}
	// two expansions in a row: src -> t1 (explicit Broadcast, factor 1 included) -> t2 (explicit, or implicit
	// through an operation with a partner of shape t2, the intermediate as receiver or as argument): the
	// source AND the intermediate get their gradients (gradCase judges every tensor of the program)
	for _, t2 := range enum.Shapes(3, []int{1, 2, 3}) {
		if len(t2) == 0 {
			continue
		}
		for _, t1 := range enum.BroadcastSources(t2) {
			for _, src := range enum.BroadcastSources(t1) {
				for form := 0; form < 4; form++ {
					if ref.Size(t1) == ref.Size(t2) && ref.SameShape(t1, t2) {
						continue
					}
					if !c.Thorough() && (len(t2)+len(t1)+len(src)+form)%2 == 1 {
						continue
					}
					t2, t1, src, form := t2, t1, src, form
					c.Case(fmt.Sprintf("twolevel/%v->%v->%v/f%d", src, t1, t2, form), true, func() core.Verdict {
						p := &ref.Program{Leaves: []*ref.T{enum.Generic(src, 210, 0.5, 3, true)}, Tracked: []bool{true}}
						switch form {
						case 0:
							p.Nodes = []ref.Node{{Op: ref.Op{K: "Broadcast", Shape: t1}, In: []int{0}}, {Op: ref.Op{K: "Broadcast", Shape: t2}, In: []int{1}}}
						default:
							p.Leaves = append(p.Leaves, enum.Generic(t2, 211, 0.5, 3, true))
							p.Tracked = append(p.Tracked, form == 3)
							h := 2
							k := []string{"", "Mul", "Add", "Div"}[form]
							in := []int{h, 1}
							if form == 2 {
								in = []int{1, h}
							}
							p.Nodes = []ref.Node{{Op: ref.Op{K: "Broadcast", Shape: t1}, In: []int{0}}, {Op: ref.Op{K: k}, In: in}}
						}
						if _, ok := p.Forward(); !ok {
							return core.Skip()
						}
						q, root := withWeighting(p, p.NTensors()-1, 13)
						v := gradCase(q, root, gradOpts{allowKF: true})
						if !v.OK && !v.Skip && v.KF == "" {
							v.Detail = describeProgram(q) + " :: " + v.Detail
						}
						return v
					})
				}
			}
		}
	}
	targets = append(targets, []int{5}, []int{2, 4}, []int{4, 1, 5}, []int{33}, []int{3, 7}, []int{4}, []int{8}, []int{16, 2}, []int{2, 1, 2, 1, 2}, []int{1, 2, 1, 2, 1, 2})
	for _, t := range targets {
		if c.Expired() {
			break
		}
		// explicit Broadcast: every source of every target
		for _, src := range enum.BroadcastSources(t) {
			for wi := 0; wi < 4; wi++ {
				run(fmt.Sprintf("broadcast/%v->%v/w%d", src, t, wi), ref.Op{K: "Broadcast", Shape: t}, [][]int{src}, 1, wi, ref.Size(src) != ref.Size(t))
			}
		}
		// implicit: Add/Sub/Mul/Div, every pair, every tracked subset
		for _, pr := range enum.BroadcastPairs(t) {
			for _, k := range ref.BroadcastingKinds {
				for mask := 1; mask <= 3; mask++ {
					for wi := 0; wi < 5; wi++ {
						if wi == 2 && mask != 3 {
							continue
						}
						exp := (mask&1 != 0 && ref.Size(pr[0]) != ref.Size(t)) || (mask&2 != 0 && ref.Size(pr[1]) != ref.Size(t))
						run(fmt.Sprintf("%s/%v,%v/m%d/w%d", k, pr[0], pr[1], mask, wi), ref.Op{K: k}, [][]int{pr[0], pr[1]}, mask, wi, exp)
					}
				}
			}
		}
	}
	// two graphs expanding the SAME tracked operand to the same shape, both
	// built before either is back-propagated: the second delivery must not
	// contain the first one's upstream gradient again
	seqTargets := enum.Shapes(2, []int{1, 2, 3})
	if c.Thorough() {
		seqTargets = enum.Shapes(3, []int{1, 2, 3})
	}
	for _, t := range seqTargets {
		for _, pr := range enum.BroadcastPairs(t) {
			for _, kinds := range [][2]string{{"Add", "Mul"}, {"Mul", "Mul"}, {"Sub", "Div"}, {"Add", "Add"}} {
				for swap := 0; swap < 2; swap++ {
					t, pr, kinds, swap := t, pr, kinds, swap
					exp := ref.Size(pr[0]) != ref.Size(t)
					c.Case(fmt.Sprintf("twographs/%s+%s/%v,%v/s%d", kinds[0], kinds[1], pr[0], pr[1], swap), exp, func() core.Verdict {
						a := enum.Generic(pr[0], 221, 0.5, 3, true)
						b1 := enum.Generic(pr[1], 222, 0.5, 3, true)
						b2 := enum.Generic(pr[1], 223, 0.5, 3, true)
						p := &ref.Program{Leaves: []*ref.T{a, b1, b2}, Tracked: []bool{true, false, false}}
						in1, in2 := []int{0, 1}, []int{0, 2}
						if swap == 1 {
							in1, in2 = []int{1, 0}, []int{2, 0}
						}
						p.Nodes = []ref.Node{{Op: ref.Op{K: kinds[0]}, In: in1}, {Op: ref.Op{K: kinds[1]}, In: in2}}
						q, r1 := withWeighting(p, 3, 17)
						// second weighting on the second graph
						q2, r2 := withWeighting(q, 5, 19) // node ids shift by one for every added leaf
						_ = r1
						v := seqGradCase(q2, []int{r2 - 1, r2}, gradOpts{allowKF: true})
						if !v.OK && !v.Skip {
							v.Detail = describeProgram(q2) + " :: " + v.Detail
						}
						return v
					})
				}
			}
			// explicit Broadcast twice
			t, pr := t, pr
			c.Case(fmt.Sprintf("twographs/Broadcast/%v->%v", pr[0], t), ref.Size(pr[0]) != ref.Size(t), func() core.Verdict {
				a := enum.Generic(pr[0], 224, 0.5, 3, true)
				w := enum.Weights(t, 225)
				p := &ref.Program{Leaves: []*ref.T{a, w}, Tracked: []bool{true, false}}
				p.Nodes = []ref.Node{
					{Op: ref.Op{K: "Broadcast", Shape: t}, In: []int{0}},
					{Op: ref.Op{K: "Broadcast", Shape: t}, In: []int{0}},
					{Op: ref.Op{K: "Mul"}, In: []int{3, 1}},
				}
				v := seqGradCase(p, []int{2, 4}, gradOpts{allowKF: true})
				if !v.OK && !v.Skip {
					v.Detail = describeProgram(p) + " :: " + v.Detail
				}
				return v
			})
		}
	}
	// ONE explicit Broadcast result consumed by two (three) operations of the same graph
	for _, t := range seqTargets {
		for _, src := range enum.BroadcastSources(t) {
			for variant := 0; variant < 3; variant++ {
				t, src, variant := t, src, variant
				c.Case(fmt.Sprintf("fanout/Broadcast/%v->%v/v%d", src, t, variant), ref.Size(src) != ref.Size(t), func() core.Verdict {
					a := enum.Generic(src, 226, 0.5, 3, true)
					w1, w2 := enum.Weights(t, 227), enum.Weights(t, 228)
					p := &ref.Program{Leaves: []*ref.T{a, w1, w2}, Tracked: []bool{true, false, false}}
					p.Nodes = []ref.Node{{Op: ref.Op{K: "Broadcast", Shape: t}, In: []int{0}}} // t3
					switch variant {
					case 0: // y*y
						p.Nodes = append(p.Nodes, ref.Node{Op: ref.Op{K: "Mul"}, In: []int{3, 3}})
					case 1: // y*w1 + y*w2
						p.Nodes = append(p.Nodes, ref.Node{Op: ref.Op{K: "Mul"}, In: []int{3, 1}}, ref.Node{Op: ref.Op{K: "Mul"}, In: []int{3, 2}}, ref.Node{Op: ref.Op{K: "Add"}, In: []int{4, 5}})
					case 2: // (y + w1) * y - y
						p.Nodes = append(p.Nodes, ref.Node{Op: ref.Op{K: "Add"}, In: []int{3, 1}}, ref.Node{Op: ref.Op{K: "Mul"}, In: []int{4, 3}}, ref.Node{Op: ref.Op{K: "Sub"}, In: []int{5, 3}})
					}
					v := gradCase(p, p.NTensors()-1, gradOpts{allowKF: true})
					if !v.OK && !v.Skip {
						v.Detail = describeProgram(p) + " :: " + v.Detail
					}
					return v
				})
			}
		}
	}
	// Dot and MatMul: every broadcast-compatible batch pair
	var batches [][]int
	if c.Thorough() {
		batches = append(enum.Shapes(2, []int{1, 2, 3}), filterRank(enum.Shapes(3, []int{1, 2}), 3, 3)...)
	} else {
		batches = enum.Shapes(2, []int{1, 2})
	}
	mk := func(batch []int, tail ...int) []int { return append(ref.CopyShape(batch), tail...) }
	dims := []int{1, 2}
	if c.Thorough() {
		dims = []int{1, 2, 3}
	}
	for _, bt := range batches {
		if c.Expired() {
			break
		}
		for _, pr := range enum.BroadcastPairs(bt) {
			for mask := 1; mask <= 3; mask++ {
				for _, wi := range []int{0, 1, 3, 4} {
					for _, n := range dims {
						sa, sb := mk(pr[0], n), mk(pr[1], n)
						exp := (mask&1 != 0 && ref.Size(pr[0]) != ref.Size(bt)) || (mask&2 != 0 && ref.Size(pr[1]) != ref.Size(bt))
						run(fmt.Sprintf("Dot/%v,%v/m%d/w%d", sa, sb, mask, wi), ref.Op{K: "Dot"}, [][]int{sa, sb}, mask, wi, exp)
						for _, m := range dims {
							for _, k := range dims {
								sa, sb := mk(pr[0], m, n), mk(pr[1], n, k)
								run(fmt.Sprintf("MatMul/%v,%v/m%d/w%d", sa, sb, mask, wi), ref.Op{K: "MatMul"}, [][]int{sa, sb}, mask, wi, exp)
							}
						}
					}
				}
			}
		}
	}
}
