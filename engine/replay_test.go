package main

import (
	"os"
	"testing"
)

// TestReplay re-runs one recorded violation as a plain unit test:
//
//	QMC_REPLAY=/verif/replays/C02/<case>.json go test -tags verif -run TestReplay ./engine
//
// It fails iff the recorded case still violates the property on the current tree.
func TestReplay(t *testing.T) {
	path := os.Getenv("QMC_REPLAY")
	if path == "" {
		t.Skip("QMC_REPLAY not set")
	}
	switch rc := cmdReplay([]string{path}); rc {
	case 0:
	case 1:
		t.Fatalf("violation reproduced (see output)")
	default:
		t.Fatalf("replay could not be run (rc=%d)", rc)
	}
}
