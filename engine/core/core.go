// Package core is the common machinery of all checks: sharded case execution,
// verdict bookkeeping, determinism re-runs, replay files, known findings,
// evidence.
package core

import (
	"encoding/json"
	"fmt"
	"hash/fnv"
	"os"
	"path/filepath"
	"runtime"
	"runtime/debug"
	"sort"
	"strconv"
	"strings"
	"syscall"
	"time"
)

// VerifDir is the root of the verification tree (evidence, replays, known
// findings). /verif unless QMC_VERIF points at a snapshot.
var VerifDir = verifDir()

func verifDir() string {
	if d := os.Getenv("QMC_VERIF"); d != "" {
		return d
	}
	return "/verif"
}

// Verdict of one case.
type Verdict struct {
	OK     bool   // property held on this case
	Skip   bool   // case not judged (e.g. not differentiable); counted
	KF     string // id of a listed known finding this case hits exactly ("" = none)
	Detail string // expected vs observed, human readable
	Data   any    // machine-readable case descriptor for the replay file
}

func Pass() Verdict { return Verdict{OK: true} }
func Skip() Verdict { return Verdict{OK: true, Skip: true} }
func Fail(format string, a ...any) Verdict {
	return Verdict{OK: false, Detail: fmt.Sprintf(format, a...)}
}

type ViolationRec struct {
	CaseID string `json:"case_id"`
	Detail string `json:"detail"`
	Replay string `json:"replay"`
}

// Part is what one worker (shard) reports; the parent merges parts.
type Part struct {
	Evaluations int64             `json:"evaluations"`
	Nontrivial  int64             `json:"nontrivial"`
	Skipped     int64             `json:"skipped"`
	States      int64             `json:"states"`
	Transitions int64             `json:"transitions"`
	Traces      int64             `json:"traces"`
	Violations  []ViolationRec    `json:"violations"`
	KFHits      map[string]int64  `json:"kf_hits"`
	KFExamples  map[string]string `json:"kf_examples"`
	Samples     []any             `json:"samples"`
	Counters    map[string]int64  `json:"counters"`
	Notes       []string          `json:"notes"`
	Capped      bool              `json:"capped"`
	CapNote     string            `json:"cap_note"`
	Broken      string            `json:"broken"` // non-empty: harness problem (exit 2)
	DupIDs      int64             `json:"dup_ids"`
	Outcomes    map[string]int64  `json:"outcomes"`
}

// Ctx is handed to a check function.
type Ctx struct {
	Prop        string
	Tier        string
	Seed        int64
	Shard       int
	NShards     int
	Only        string // when set, run only the case with this id (replay)
	Verbose     bool
	Deadline    time.Time
	CaseTimeout time.Duration
	Hung        bool
	classSeen   map[string]int

	P        Part
	counter  int64
	ids      map[uint64]struct{}
	maxViol  int
	KFListed map[string]bool
}

func NewCtx(prop, tier string, seed int64, shard, nshards int) *Ctx {
	return &Ctx{Prop: prop, Tier: tier, Seed: seed, Shard: shard, NShards: nshards,
		ids: map[uint64]struct{}{}, maxViol: 8, CaseTimeout: 60 * time.Second,
		P: Part{KFHits: map[string]int64{}, KFExamples: map[string]string{}, Counters: map[string]int64{}, Outcomes: map[string]int64{}}}
}

// PromotedQuick lists the properties whose thorough bounds are cheap enough (under about half a minute on
// 16 cores) to be the bounds of the quick tier as well: for them Thorough() is true in both tiers and the
// thorough tier adds the Deep() extensions only (DESIGN 9.11).
var PromotedQuick = map[string]bool{"C03": true, "C04": true, "C05": true, "C10": true, "C12": true, "C14": true, "C16": true, "C17": true, "C18": true}

func (c *Ctx) Quick() bool    { return !c.Thorough() }
func (c *Ctx) Thorough() bool { return c.Tier == "thorough" || PromotedQuick[c.Prop] }

// Deep is true in the thorough tier only, for every property.
func (c *Ctx) Deep() bool { return c.Tier == "thorough" }

func hash64(s string) uint64 {
	h := fnv.New64a()
	h.Write([]byte(s))
	return h.Sum64()
}

// Mine decides whether the next enumerated case belongs to this shard. Every
// worker enumerates the same deterministic sequence; case k goes to shard
// k mod NShards.
func (c *Ctx) Mine() bool {
	k := c.counter
	c.counter++
	return int(k%int64(c.NShards)) == c.Shard
}

// Expired reports whether the time cap of this run has passed (thorough runs
// only); the check then stops enumerating and the run is marked capped.
func (c *Ctx) Expired() bool {
	if c.Hung {
		return true
	}
	if c.Deadline.IsZero() {
		return false
	}
	if time.Now().After(c.Deadline) {
		if !c.P.Capped {
			c.P.Capped = true
			c.P.CapNote = "time cap reached; enumeration stopped early"
		}
		return true
	}
	return false
}

func (c *Ctx) Count(name string, n int64) { c.P.Counters[name] += n }
func (c *Ctx) Note(format string, a ...any) {
	c.P.Notes = append(c.P.Notes, fmt.Sprintf(format, a...))
}
func (c *Ctx) Outcome(o string) { c.P.Outcomes[o]++ }
func (c *Ctx) Sample(v any) {
	if len(c.P.Samples) < 4 {
		c.P.Samples = append(c.P.Samples, v)
	}
}
func (c *Ctx) Broken(format string, a ...any) {
	if c.P.Broken == "" {
		c.P.Broken = fmt.Sprintf(format, a...)
	}
}

// Case runs one case if it belongs to this shard. f must build everything it
// touches afresh, so it can be re-executed to confirm determinism.
func (c *Ctx) Case(id string, nontrivial bool, f func() Verdict) {
	if c.Only != "" {
		if id != c.Only {
			return
		}
	} else if !c.Mine() {
		return
	}
	c.Exec(id, nontrivial, f)
}

// Exec runs a case unconditionally (for checks that shard themselves).
func (c *Ctx) Exec(id string, nontrivial bool, f func() Verdict) {
	if c.Hung {
		return
	}
	v, hung := withWatchdog(f, c.CaseTimeout)
	if hung {
		// the case's goroutine cannot be killed; record and stop this worker
		c.Hung = true
		c.P.Evaluations++
		c.P.Capped = true
		c.P.CapNote = "a case did not return (hang); this worker stopped enumerating after it"
		v = Verdict{OK: false, Detail: fmt.Sprintf("HANG: the case did not return within %v (CPU time of the case for limits below 5 minutes, wall-clock otherwise; cases of this check normally take milliseconds)", c.CaseTimeout)}
		rec := ViolationRec{CaseID: id, Detail: v.Detail}
		rec.Replay = c.writeReplay(id, v)
		c.P.Violations = append(c.P.Violations, rec)
		return
	}
	c.P.Evaluations++
	if len(c.ids) < 4_000_000 {
		h := hash64(id)
		if _, dup := c.ids[h]; dup {
			c.P.DupIDs++
		} else {
			c.ids[h] = struct{}{}
		}
	}
	if v.Skip {
		c.P.Skipped++
		return
	}
	if nontrivial {
		c.P.Nontrivial++
	}
	if v.OK {
		if len(c.P.Samples) < 3 && v.Data != nil {
			c.P.Samples = append(c.P.Samples, map[string]any{"case": id, "data": v.Data})
		} else if len(c.P.Samples) < 3 && (c.P.Evaluations%97 == 1) {
			c.P.Samples = append(c.P.Samples, map[string]any{"case": id})
		}
		return
	}
	if strings.Contains(v.Detail, "HARNESS") {
		// the harness itself objects (model rejects an enumerated configuration, ...): a broken check
		// (exit 2), never a statement about the property
		c.Broken("harness problem in case %s: %s", id, v.Detail)
		return
	}
	// a disagreement: re-execute five times, must reproduce identically
	for i := 0; i < 5; i++ {
		w, hung := withWatchdog(f, c.CaseTimeout)
		if hung {
			c.Hung = true
			v.Detail = unstableNote + v.Detail + "\n (a re-execution did not return)"
			v.KF = ""
			break
		}
		if !v.OK && v.KF != "" && c.KFListed[v.KF] && (w.OK || w.KF == v.KF) {
			// First execution: the listed finding; re-execution: the listed finding again or a pass. Neither
			// execution violates anything that is not already listed, so there is nothing to report. The two
			// may legitimately differ when the case's data are not under the harness's control (a library
			// whose random constructors draw from a private, clock-seeded source gives every execution other
			// initial weights, and whether the finding shows depends on them): that is not hidden state
			// (false alarm found with the property-preserving bundle B10, DESIGN 9.11).
			continue
		}
		if w.OK != v.OK || w.KF != v.KF || w.Detail != v.Detail {
			if strings.Contains(v.Detail, "HARNESS") || strings.Contains(w.Detail, "HARNESS") {
				c.Broken("harness problem: case %s gave different verdicts on re-execution:\n first: %s\n again: %s", id, v.Detail, w.Detail)
				return
			}
			// The case builds all its objects afresh, so a verdict that changes
			// between executions in one process means the library's behaviour
			// depends on earlier calls (state shared between calls). The failing
			// execution is a real execution of the real code: report it.
			c.P.Counters["violations_not_reproducible_in_isolation"]++
			again := "passes"
			if !w.OK {
				again = w.Detail
			}
			v.Detail = unstableNote + v.Detail + "\n on re-execution: " + again
			v.KF = ""
			break
		}
	}
	if v.KF != "" {
		if c.KFListed[v.KF] {
			c.P.KFHits[v.KF]++
			if _, ok := c.P.KFExamples[v.KF]; !ok {
				c.P.KFExamples[v.KF] = id
			}
			return
		}
		v.Detail = "(matches alternative model '" + v.KF + "', which is NOT a listed known finding) " + v.Detail
	}
	c.P.Counters["violating_cases_by_class:"+idClass(id)]++
	if c.classSeen == nil {
		c.classSeen = map[string]int{}
	}
	c.classSeen[idClass(id)]++
	if c.classSeen[idClass(id)] > 1 && len(c.P.Violations) >= 2 {
		c.P.Counters["violations_not_recorded"]++
		return
	}
	if len(c.P.Violations) >= c.maxViol {
		c.P.Counters["violations_not_recorded"]++
		return
	}
	rec := ViolationRec{CaseID: id, Detail: v.Detail}
	rec.Replay = c.writeReplay(id, v)
	c.P.Violations = append(c.P.Violations, rec)
}

// withWatchdog runs f on its own goroutine and gives up after d. A coarse
// wall-clock guard (four orders of magnitude above a normal case) whose only
// purpose is that a check always terminates.
func withWatchdog(f func() Verdict, d time.Duration) (v Verdict, hung bool) {
	if d <= 0 {
		return safely(f), false
	}
	if d >= 5*time.Minute {
		// long limits (scheduler scenarios, soak histories) are generous wall-clock limits; the case
		// is NOT pinned to a thread (pinning makes every goroutine hand-off of the scheduler an OS
		// thread switch: 4x slower)
		ch := make(chan Verdict, 1)
		go func() { ch <- safely(f) }()
		select {
		case v = <-ch:
			return v, false
		case <-time.After(d):
			return Verdict{}, true
		}
	}
	ch := make(chan Verdict, 1)
	tidCh := make(chan int, 1)
	go func() {
		// the case runs on its own OS thread so that the CPU time IT consumes can be read
		runtime.LockOSThread()
		defer runtime.UnlockOSThread()
		tidCh <- syscall.Gettid()
		ch <- safely(f)
	}()
	// The limit d is on the CPU time of the case's thread (a case that spins forever burns it; a
	// case that is merely starved by other load on the machine does not), with a wall-clock
	// backstop of 20x for a case that blocks without using the CPU. A plain wall-clock limit
	// raised a false alarm on a loaded machine (DESIGN 9.4).
	tid := <-tidCh
	cpu0, _ := threadCPU(tid) // the OS thread may have run earlier cases: only the increase counts
	start := time.Now()
	tick := time.NewTicker(250 * time.Millisecond)
	defer tick.Stop()
	for {
		select {
		case v = <-ch:
			return v, false
		case <-tick.C:
			cpu, ok := threadCPU(tid)
			if (ok && cpu-cpu0 > d) || (!ok && time.Since(start) > d) || time.Since(start) > 20*d {
				return Verdict{}, true
			}
		}
	}
}

// threadCPU: user + system CPU time consumed by thread tid of this process
// (/proc/self/task/<tid>/stat, fields 14 and 15, in clock ticks of 10 ms).
func threadCPU(tid int) (time.Duration, bool) {
	b, err := os.ReadFile(fmt.Sprintf("/proc/self/task/%d/stat", tid))
	if err != nil {
		return 0, false
	}
	str := string(b)
	i := strings.LastIndexByte(str, ')') // the command name may contain spaces
	if i < 0 {
		return 0, false
	}
	f := strings.Fields(str[i+1:])
	if len(f) < 13 {
		return 0, false
	}
	ut, err1 := strconv.ParseInt(f[11], 10, 64)
	st, err2 := strconv.ParseInt(f[12], 10, 64)
	if err1 != nil || err2 != nil {
		return 0, false
	}
	return time.Duration(ut+st) * 10 * time.Millisecond, true
}

const unstableNote = "[outcome depends on earlier calls in the same process: re-executing this case, which builds all its objects afresh, gives a different verdict - hidden state shared between calls] "

func safely(f func() Verdict) (v Verdict) {
	defer func() {
		if r := recover(); r != nil {
			st := stableStack(string(debug.Stack()))
			v = Verdict{OK: false, Detail: fmt.Sprintf("PANIC: %v\n%s", r, st)}
			if strings.Contains(fmt.Sprint(r), "HARNESS:") {
				v.Detail = "HARNESS " + v.Detail
			}
		}
	}()
	return f()
}

// idClass: the leading identifier characters of a case id (operation / family).
func idClass(id string) string {
	for i, r := range id {
		if !(r >= 'a' && r <= 'z' || r >= 'A' && r <= 'Z' || r == '/' || r == '_') {
			return id[:i]
		}
	}
	return id
}

// stableStack keeps only the file:line entries of the library and the harness
// (no goroutine ids, no addresses), so that the same panic renders identically
// on every re-execution.
func stableStack(st string) string {
	var out []string
	for _, l := range strings.Split(st, "\n") {
		l = strings.TrimSpace(l)
		if !(strings.HasPrefix(l, "/repo/") || strings.HasPrefix(l, "/verif/engine/")) {
			continue
		}
		if i := strings.Index(l, " +0x"); i >= 0 {
			l = l[:i]
		}
		if strings.Contains(l, "core/core.go") {
			continue
		}
		out = append(out, "  at "+l)
		if len(out) >= 12 {
			break
		}
	}
	return strings.Join(out, "\n")
}

func sanitize(id string) string {
	var b strings.Builder
	for _, r := range id {
		switch {
		case r >= 'a' && r <= 'z', r >= 'A' && r <= 'Z', r >= '0' && r <= '9', r == '-', r == '_', r == '.':
			b.WriteRune(r)
		default:
			b.WriteRune('_')
		}
	}
	s := b.String()
	if len(s) > 80 {
		s = fmt.Sprintf("%s_%x", s[:60], hash64(id))
	}
	return s
}

func (c *Ctx) writeReplay(id string, v Verdict) string {
	dir := filepath.Join(VerifDir, "replays", c.Prop)
	os.MkdirAll(dir, 0o755)
	path := filepath.Join(dir, sanitize(id)+".json")
	doc := map[string]any{
		"property": c.Prop, "tier": c.Tier, "seed": c.Seed, "case_id": id,
		"detail": v.Detail, "case": v.Data,
		"replay_cmd": fmt.Sprintf("%s/run.sh replay %s", VerifDir, path),
	}
	b, _ := json.MarshalIndent(doc, "", " ")
	os.WriteFile(path, b, 0o644)
	return path
}

/* ---------- merge ---------- */

func Merge(parts []*Part) *Part {
	m := &Part{KFHits: map[string]int64{}, KFExamples: map[string]string{}, Counters: map[string]int64{}, Outcomes: map[string]int64{}}
	for _, p := range parts {
		m.Evaluations += p.Evaluations
		m.Nontrivial += p.Nontrivial
		m.Skipped += p.Skipped
		m.States += p.States
		m.Transitions += p.Transitions
		m.Traces += p.Traces
		m.DupIDs += p.DupIDs
		m.Violations = append(m.Violations, p.Violations...)
		for k, v := range p.KFHits {
			m.KFHits[k] += v
		}
		for k, v := range p.KFExamples {
			if _, ok := m.KFExamples[k]; !ok {
				m.KFExamples[k] = v
			}
		}
		for k, v := range p.Counters {
			if strings.HasPrefix(k, "max_") {
				if v > m.Counters[k] {
					m.Counters[k] = v
				}
				continue
			}
			m.Counters[k] += v
		}
		for k, v := range p.Outcomes {
			m.Outcomes[k] += v
		}
		if len(m.Samples) < 4 {
			for _, s := range p.Samples {
				if len(m.Samples) < 4 {
					m.Samples = append(m.Samples, s)
				}
			}
		}
		for _, n := range p.Notes {
			dup := false
			for _, x := range m.Notes {
				if x == n {
					dup = true
				}
			}
			if !dup {
				m.Notes = append(m.Notes, n)
			}
		}
		if p.Capped {
			m.Capped = true
			m.CapNote = p.CapNote
		}
		if p.Broken != "" && m.Broken == "" {
			m.Broken = p.Broken
		}
	}
	sort.Slice(m.Violations, func(i, j int) bool { return m.Violations[i].CaseID < m.Violations[j].CaseID })
	return m
}

/* ---------- known findings file ---------- */

type KnownFinding struct {
	Prop    string
	ID      string
	Matcher string
	Text    string
}

// LoadKnownFindings parses /verif/KNOWN_FINDINGS.txt. Lines:
//
//	finding: property=<id> id=<KF-n> matcher=<name> <what fails>
//	fixed: property=<id> <commit> <what failed>      (suppresses nothing)
func LoadKnownFindings() []KnownFinding {
	b, err := os.ReadFile(filepath.Join(VerifDir, "KNOWN_FINDINGS.txt"))
	if err != nil {
		return nil
	}
	var out []KnownFinding
	for _, line := range strings.Split(string(b), "\n") {
		line = strings.TrimSpace(line)
		if !strings.HasPrefix(line, "finding:") {
			continue
		}
		f := KnownFinding{}
		rest := strings.Fields(strings.TrimPrefix(line, "finding:"))
		var text []string
		for _, w := range rest {
			switch {
			case strings.HasPrefix(w, "property=") && f.Prop == "":
				f.Prop = strings.TrimPrefix(w, "property=")
			case strings.HasPrefix(w, "id=") && f.ID == "":
				f.ID = strings.TrimPrefix(w, "id=")
			case strings.HasPrefix(w, "matcher=") && f.Matcher == "":
				f.Matcher = strings.TrimPrefix(w, "matcher=")
			default:
				text = append(text, w)
			}
		}
		f.Text = strings.Join(text, " ")
		out = append(out, f)
	}
	return out
}
