package core

import (
	"fmt"
	"math"

	"qmc/ref"
)

func sameF(a, b float64) bool {
	if math.IsNaN(a) || math.IsNaN(b) {
		return math.IsNaN(a) && math.IsNaN(b)
	}
	return a == b
}

// ExactEq: same shape and identical elements.
func ExactEq(got, exp *ref.T) (bool, string) {
	if !ref.SameShape(got.Shape, exp.Shape) {
		return false, fmt.Sprintf("shape: got %v, expected %v", got.Shape, exp.Shape)
	}
	for i := range exp.V {
		if !sameF(got.V[i], exp.V[i]) {
			return false, fmt.Sprintf("element %v: got %v, expected %v (got %v, expected %v)", ref.Unravel(i, exp.Shape), got.V[i], exp.V[i], short(got), short(exp))
		}
	}
	return true, ""
}

func short(t *ref.T) string {
	if len(t.V) <= 24 {
		return t.String()
	}
	return fmt.Sprintf("%v%v...", t.Shape, t.V[:24])
}

// Close: same shape, every element within 1e-9*scale (absolute), NaN/Inf where
// the model is finite is a mismatch. scale should bound the magnitudes of the
// terms that make up the values (>= 1).
func Close(got, exp *ref.T, scale float64) (bool, string) {
	if !ref.SameShape(got.Shape, exp.Shape) {
		return false, fmt.Sprintf("shape: got %v, expected %v", got.Shape, exp.Shape)
	}
	if scale < 1 {
		scale = 1
	}
	tol := 1e-9 * scale
	for i := range exp.V {
		g, e := got.V[i], exp.V[i]
		if math.IsNaN(e) || math.IsInf(e, 0) {
			if !sameF(g, e) {
				return false, fmt.Sprintf("element %v: got %v, expected %v", ref.Unravel(i, exp.Shape), g, e)
			}
			continue
		}
		if math.IsNaN(g) || math.IsInf(g, 0) || math.Abs(g-e) > tol {
			return false, fmt.Sprintf("element %v: got %v, expected %v (tol %.3g; got %v, expected %v)", ref.Unravel(i, exp.Shape), g, e, tol, short(got), short(exp))
		}
	}
	return true, ""
}

// RelClose: relative tolerance per element (for value-class checks spanning
// many magnitudes): |g-e| <= rel*max(|e|,floor).
func RelClose(got, exp *ref.T, rel, floor float64) (bool, string) {
	if !ref.SameShape(got.Shape, exp.Shape) {
		return false, fmt.Sprintf("shape: got %v, expected %v", got.Shape, exp.Shape)
	}
	for i := range exp.V {
		g, e := got.V[i], exp.V[i]
		if math.IsNaN(e) || math.IsInf(e, 0) {
			if !sameF(g, e) {
				return false, fmt.Sprintf("element %v: got %v, expected %v", ref.Unravel(i, exp.Shape), g, e)
			}
			continue
		}
		m := math.Abs(e)
		if m < floor {
			m = floor
		}
		if math.IsNaN(g) || math.IsInf(g, 0) || math.Abs(g-e) > rel*m {
			return false, fmt.Sprintf("element %v: got %v, expected %v (rel %.3g)", ref.Unravel(i, exp.Shape), g, e, rel)
		}
	}
	return true, ""
}
