package core

import (
	"go/ast"
	"go/constant"
	"go/parser"
	"go/token"
	"os"
	"path/filepath"
	"sort"
	"strings"
	"sync"
)

// CodeInts returns the integer constants that occur in the non-test source
// files of the library's CURRENT working tree (literals, and binary expressions
// of literals such as 1<<20 or 4*1024), between lo and hi. The sweeps use them
// as additional lengths, element counts and operand counts: "one input per
// shortcut you can see in the code" - a block size, worker count or threshold
// that a change introduces becomes part of the enumerated scope, with both
// neighbours, the moment it is written down.
func CodeInts(lo, hi int64) []int {
	codeIntsOnce.Do(loadCodeInts)
	var out []int
	for _, n := range codeIntsAll {
		if n >= lo && n <= hi {
			out = append(out, int(n))
		}
	}
	return out
}

var (
	codeIntsOnce sync.Once
	codeIntsAll  []int64
)

// RepoDir is the tree the binary was built from (run.sh exports QMC_REPO_DIR).
func RepoDir() string {
	if d := os.Getenv("QMC_REPO_DIR"); d != "" {
		return d
	}
	return "/repo"
}

func loadCodeInts() {
	seen := map[int64]bool{}
	fset := token.NewFileSet()
	filepath.Walk(RepoDir(), func(p string, info os.FileInfo, err error) error {
		if err != nil {
			return nil
		}
		if info.IsDir() {
			n := info.Name()
			if p != RepoDir() && (strings.HasPrefix(n, ".") || strings.HasPrefix(n, "_") || n == "testdata" || n == "vendor" || n == "verifhook" || n == "seeded") {
				return filepath.SkipDir
			}
			return nil
		}
		if !strings.HasSuffix(p, ".go") || strings.HasSuffix(p, "_test.go") || strings.HasPrefix(info.Name(), "verif_export") {
			return nil
		}
		f, err := parser.ParseFile(fset, p, nil, 0)
		if err != nil {
			return nil
		}
		var eval func(e ast.Expr) constant.Value
		eval = func(e ast.Expr) constant.Value {
			switch v := e.(type) {
			case *ast.BasicLit:
				if v.Kind == token.INT || v.Kind == token.FLOAT {
					return constant.MakeFromLiteral(v.Value, v.Kind, 0)
				}
			case *ast.ParenExpr:
				return eval(v.X)
			case *ast.BinaryExpr:
				a, b := eval(v.X), eval(v.Y)
				if a == nil || b == nil || a.Kind() == constant.Unknown || b.Kind() == constant.Unknown {
					return nil
				}
				switch v.Op {
				case token.SHL:
					if s, ok := constant.Uint64Val(constant.ToInt(b)); ok && s < 40 && constant.ToInt(a).Kind() == constant.Int {
						return constant.Shift(constant.ToInt(a), token.SHL, uint(s))
					}
				case token.MUL, token.ADD, token.SUB:
					return constant.BinaryOp(a, v.Op, b)
				}
			}
			return nil
		}
		ast.Inspect(f, func(n ast.Node) bool {
			e, ok := n.(ast.Expr)
			if !ok {
				return true
			}
			if v := eval(e); v != nil && v.Kind() != constant.Unknown {
				if iv := constant.ToInt(v); iv.Kind() == constant.Int {
					if x, ok := constant.Int64Val(iv); ok && x >= 2 && x <= 1<<31 {
						seen[x] = true
					}
				}
			}
			return true
		})
		return nil
	})
	// a small constant k may be a shift count (n >> k, 1 << k computed at run time): 2^k is a candidate too
	for n := range seen {
		if n >= 5 && n <= 21 {
			seen[1<<uint(n)] = true
		}
	}
	for n := range seen {
		codeIntsAll = append(codeIntsAll, n)
	}
	sort.Slice(codeIntsAll, func(i, j int) bool { return codeIntsAll[i] < codeIntsAll[j] })
}
