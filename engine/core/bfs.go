package core

import (
	"fmt"
	"runtime"
	"strings"
	"sync"
)

// System is a transition system whose transitions execute the REAL code: a
// state is identified by the event history reaching it (live objects cannot be
// cloned, so a successor is built by replaying the history on fresh objects and
// applying one more event).
type System[E any] interface {
	// Enabled lists the events enabled after hist (from the model state; it
	// encodes the property's own preconditions).
	Enabled(hist []E) []E
	// Step replays hist on fresh real objects and on the model, checks every
	// oracle on every object after the last event, and returns the canonical
	// key of the reached abstract state.
	Step(hist []E) (key string, v Verdict)
	// Name renders an event for case ids and replay files.
	Name(e E) string
}

type BFSStats struct {
	States, Transitions int64
	Depth               int
	PerDepth            []int64
}

// BFS explores breadth-first to maxDepth, deduplicating on the key. Every
// transition is executed on the real code. Uses all CPUs of this process.
func BFS[E any](c *Ctx, sys System[E], maxDepth int, prefix string) BFSStats {
	var st BFSStats
	seen := map[string]struct{}{}
	frontier := [][]E{{}}
	st.States = 1
	var mu sync.Mutex
	workers := runtime.GOMAXPROCS(0)
	for depth := 1; depth <= maxDepth && len(frontier) > 0; depth++ {
		if c.Expired() {
			c.P.CapNote = fmt.Sprintf("time cap reached at BFS depth %d (depths < %d complete)", depth, depth)
			break
		}
		type job struct {
			hist []E
		}
		var jobs []job
		for _, h := range frontier {
			for _, e := range sys.Enabled(h) {
				nh := make([]E, len(h)+1)
				copy(nh, h)
				nh[len(h)] = e
				jobs = append(jobs, job{nh})
			}
		}
		type res struct {
			key string
			v   Verdict
		}
		results := make([]res, len(jobs))
		var wg sync.WaitGroup
		ch := make(chan int, 1024)
		for w := 0; w < workers; w++ {
			wg.Add(1)
			go func() {
				defer wg.Done()
				for i := range ch {
					var k string
					v, hung := withWatchdog(func() Verdict {
						kk, vv := sys.Step(jobs[i].hist)
						k = kk
						return vv
					}, c.CaseTimeout)
					if hung {
						v = Verdict{OK: false, Detail: "HANG: transition did not return"}
					}
					results[i] = res{k, v}
				}
			}()
		}
		for i := range jobs {
			ch <- i
		}
		close(ch)
		wg.Wait()
		var next [][]E
		var newStates int64
		for i, r := range results {
			st.Transitions++
			id := prefix + histName(sys, jobs[i].hist)
			if c.Only != "" && id != c.Only {
				// still need to expand to reach the case
			}
			mu.Lock()
			c.recordBFS(id, r.v, func() Verdict { _, v := sys.Step(jobs[i].hist); return v })
			mu.Unlock()
			if !r.v.OK {
				continue // do not expand past a violating transition
			}
			if r.key == "" {
				continue // model marks the state as not to be expanded
			}
			if _, dup := seen[r.key]; dup {
				continue
			}
			seen[r.key] = struct{}{}
			newStates++
			next = append(next, jobs[i].hist)
		}
		st.States += newStates
		st.PerDepth = append(st.PerDepth, newStates)
		st.Depth = depth
		frontier = next
	}
	if len(frontier) > 0 && len(c.P.Samples) < 8 {
		c.P.Samples = append(c.P.Samples, map[string]any{"history": prefix + histName(sys, frontier[len(frontier)/2]), "depth": st.Depth})
	}
	c.P.States += st.States
	c.P.Transitions += st.Transitions
	c.P.Traces += st.Transitions
	return st
}

func histName[E any](sys System[E], h []E) string {
	s := ""
	for i, e := range h {
		if i > 0 {
			s += ";"
		}
		s += sys.Name(e)
	}
	return s
}

// recordBFS books one executed transition like Exec does for a case.
func (c *Ctx) recordBFS(id string, v Verdict, rerun func() Verdict) {
	if c.Only != "" && id != c.Only {
		return
	}
	c.P.Evaluations++
	if v.Skip {
		c.P.Skipped++
		return
	}
	c.P.Nontrivial++
	if v.OK {
		if len(c.P.Samples) < 3 && c.P.Evaluations%1009 == 7 {
			c.P.Samples = append(c.P.Samples, map[string]any{"history": id})
		}
		return
	}
	if strings.Contains(v.Detail, "HARNESS") {
		c.Broken("harness problem in history %s: %s", id, v.Detail)
		return
	}
	for i := 0; i < 5; i++ {
		w, hung := withWatchdog(rerun, c.CaseTimeout)
		if !hung && !v.OK && v.KF != "" && c.KFListed[v.KF] && (w.OK || w.KF == v.KF) {
			continue // same listed-finding class; the detail may contain data the harness does not control (see core.go)
		}
		if hung || w.OK != v.OK || w.Detail != v.Detail {
			if strings.Contains(v.Detail, "HARNESS") || strings.Contains(w.Detail, "HARNESS") {
				c.Broken("harness problem: history %s gave different verdicts on re-execution:\n first: %s\n again: %s", id, v.Detail, w.Detail)
				return
			}
			c.P.Counters["violations_not_reproducible_in_isolation"]++
			again := "passes"
			if !w.OK {
				again = w.Detail
			}
			v.Detail = unstableNote + v.Detail + "\n on re-execution: " + again
			v.KF = ""
			break
		}
	}
	if v.KF != "" && c.KFListed[v.KF] {
		c.P.KFHits[v.KF]++
		if _, ok := c.P.KFExamples[v.KF]; !ok {
			c.P.KFExamples[v.KF] = id
		}
		return
	}
	c.P.Counters["violating_cases_by_class:"+idClass(id)]++
	if len(c.P.Violations) >= c.maxViol {
		c.P.Counters["violations_not_recorded"]++
		return
	}
	rec := ViolationRec{CaseID: id, Detail: v.Detail}
	rec.Replay = c.writeReplay(id, v)
	c.P.Violations = append(c.P.Violations, rec)
}
