package ref

import (
	"fmt"
	"math"
)

// Op describes one public tensor operation, uniformly for the model and for
// the driver of the real code.
type Op struct {
	K     string  `json:"k"`
	F     float64 `json:"f,omitempty"`     // Scale factor / Pow exponent
	Dim   int     `json:"dim,omitempty"`   // dim argument
	Shape []int   `json:"shape,omitempty"` // Reshape / Broadcast target
	Index []Range `json:"index,omitempty"` // Slice / Patch index
	// Tie: for (Leaky)Relu, per-element weight in [0,1] of the derivative at an
	// input of exactly 0 (0 = left derivative, 1 = right derivative).
	Tie []float64 `json:"tie,omitempty"`
}

func (o Op) String() string {
	switch o.K {
	case "Scale", "Pow", "LeakyRelu":
		return fmt.Sprintf("%s(%g)", o.K, o.F)
	case "Softmax":
		return fmt.Sprintf("Softmax(%d)", o.Dim)
	case "Reshape", "Broadcast":
		return fmt.Sprintf("%s(%v)", o.K, o.Shape)
	case "Slice", "Patch":
		return fmt.Sprintf("%s(%v)", o.K, o.Index)
	case "UnSqueeze", "Squeeze", "Flatten", "Concat",
		"SumAlong", "MaxAlong", "MinAlong", "AvgAlong", "VarAlong", "StdAlong", "MeanAlong":
		return fmt.Sprintf("%s(%d)", o.K, o.Dim)
	}
	return o.K
}

var UnaryKinds = []string{"Scale", "Pow", "Exp", "Log", "Sin", "Cos", "Tan", "Sinh", "Cosh", "Tanh"}
var BroadcastingKinds = []string{"Add", "Sub", "Mul", "Div"}
var SameShapeKinds = []string{"ElMax", "ElMin"}
var CompareKinds = []string{"Eq", "Ne", "Gt", "Ge", "Lt", "Le"}
var AlongKinds = []string{"SumAlong", "MaxAlong", "MinAlong", "AvgAlong", "VarAlong", "StdAlong", "MeanAlong"}

// Arity is the number of tensor operands (receiver included); -1 = variadic.
func (o Op) Arity() int {
	if IsComposite(o.K) {
		return compositeArity(o.K)
	}
	switch o.K {
	case "Add", "Sub", "Mul", "Div", "ElMax", "ElMin", "Eq", "Ne", "Gt", "Ge", "Lt", "Le", "Dot", "MatMul", "Patch":
		return 2
	case "Concat":
		return -1
	}
	return 1
}

// Differentiable operations (everything but comparisons).
func (o Op) IsComparison() bool {
	switch o.K {
	case "Eq", "Ne", "Gt", "Ge", "Lt", "Le":
		return true
	}
	return false
}

func scalarUnary(k string, f float64) func(float64) float64 {
	switch k {
	case "Scale":
		return func(x float64) float64 { return f * x }
	case "Pow":
		return func(x float64) float64 { return math.Pow(x, f) }
	case "Exp":
		return math.Exp
	case "Log":
		return math.Log
	case "Sin":
		return math.Sin
	case "Cos":
		return math.Cos
	case "Tan":
		return math.Tan
	case "Sinh":
		return math.Sinh
	case "Cosh":
		return math.Cosh
	case "Tanh":
		return math.Tanh
	}
	return nil
}

func b2f(b bool) float64 {
	if b {
		return 1
	}
	return 0
}

func scalarBinary(k string) func(a, b float64) float64 {
	switch k {
	case "Add":
		return func(a, b float64) float64 { return a + b }
	case "Sub":
		return func(a, b float64) float64 { return a - b }
	case "Mul":
		return func(a, b float64) float64 { return a * b }
	case "Div":
		return func(a, b float64) float64 { return a / b }
	case "ElMax":
		return math.Max
	case "ElMin":
		return math.Min
	case "Eq":
		return func(a, b float64) float64 { return b2f(a == b) }
	case "Ne":
		return func(a, b float64) float64 { return b2f(a != b) }
	case "Gt":
		return func(a, b float64) float64 { return b2f(a > b) }
	case "Ge":
		return func(a, b float64) float64 { return b2f(a >= b) }
	case "Lt":
		return func(a, b float64) float64 { return b2f(a < b) }
	case "Le":
		return func(a, b float64) float64 { return b2f(a <= b) }
	}
	return nil
}

func validDims(shape []int) bool {
	for _, d := range shape {
		if d <= 0 {
			return false
		}
	}
	return true
}

// ValidSliceIndex: the documented precondition of Slice.
func ValidSliceIndex(index []Range, dims []int) bool {
	if len(index) > len(dims) {
		return false
	}
	for i, r := range index {
		if r.From == 0 && r.To == 0 {
			continue
		}
		if !(0 <= r.From && r.From < r.To && r.To <= dims[i]) {
			return false
		}
	}
	return true
}

// ValidPatch: the documented precondition of Patch.
func ValidPatch(index []Range, src, dst []int) bool {
	if len(src) != len(dst) {
		return false
	}
	for i := range src {
		if src[i] > dst[i] {
			return false
		}
	}
	if !ValidSliceIndex(index, dst) {
		return false
	}
	for i, r := range index {
		if r.From == 0 && r.To == 0 {
			continue
		}
		if r.To-r.From != src[i] {
			return false
		}
	}
	return true
}

// ResultShape returns the shape the operation is defined to produce, or
// ok=false when the documented precondition is violated.
func ResultShape(op Op, in [][]int) (shape []int, ok bool) {
	if IsComposite(op.K) {
		return compositeShape(op, in)
	}
	if a := op.Arity(); a >= 0 && len(in) != a {
		return nil, false
	}
	x := []int(nil)
	if len(in) > 0 {
		x = in[0]
	}
	switch op.K {
	case "Scale", "Pow", "Exp", "Log", "Sin", "Cos", "Tan", "Sinh", "Cosh", "Tanh":
		return CopyShape(x), true
	case "Add", "Sub", "Mul", "Div":
		return BroadcastShape(in[0], in[1])
	case "ElMax", "ElMin", "Eq", "Ne", "Gt", "Ge", "Lt", "Le":
		if !SameShape(in[0], in[1]) {
			return nil, false
		}
		return CopyShape(x), true
	case "Dot":
		_, sr, ok := DotShapes(in[0], in[1])
		return sr, ok
	case "MatMul":
		_, _, sr, ok := MatMulShapes(in[0], in[1])
		return sr, ok
	case "Transpose":
		if len(x) < 2 {
			return nil, false
		}
		s := CopyShape(x)
		s[len(s)-1], s[len(s)-2] = s[len(s)-2], s[len(s)-1]
		return s, true
	case "Reshape":
		if !validDims(op.Shape) || Size(op.Shape) != Size(x) {
			return nil, false
		}
		return CopyShape(op.Shape), true
	case "Broadcast":
		if !validDims(op.Shape) || !CanBroadcastTo(x, op.Shape) {
			return nil, false
		}
		return CopyShape(op.Shape), true
	case "UnSqueeze":
		if !(0 <= op.Dim && op.Dim <= len(x)) {
			return nil, false
		}
		return InsertDim(x, op.Dim, 1), true
	case "Squeeze":
		if !(0 <= op.Dim && op.Dim < len(x)) || x[op.Dim] != 1 {
			return nil, false
		}
		return RemoveDim(x, op.Dim), true
	case "Flatten":
		if !(0 <= op.Dim && op.Dim < len(x)) {
			return nil, false
		}
		return append(CopyShape(x[:op.Dim]), Size(x[op.Dim:])), true
	case "SumAlong", "MaxAlong", "MinAlong", "AvgAlong", "VarAlong", "StdAlong", "MeanAlong":
		if !(0 <= op.Dim && op.Dim < len(x)) {
			return nil, false
		}
		return RemoveDim(x, op.Dim), true
	case "Slice":
		if !ValidSliceIndex(op.Index, x) {
			return nil, false
		}
		full := CompleteIndex(op.Index, x)
		s := make([]int, len(full))
		for i, r := range full {
			s[i] = r.To - r.From
		}
		return s, true
	case "Patch":
		if !ValidPatch(op.Index, in[1], in[0]) {
			return nil, false
		}
		return CopyShape(x), true
	case "Concat":
		if len(in) < 2 {
			return nil, false
		}
		base := in[0]
		for _, s := range in {
			if len(s) == 0 || len(s) != len(base) {
				return nil, false
			}
		}
		if !(0 <= op.Dim && op.Dim < len(base)) {
			return nil, false
		}
		r := CopyShape(base)
		r[op.Dim] = 0
		for _, s := range in {
			for j := range s {
				if j != op.Dim && s[j] != base[j] {
					return nil, false
				}
			}
			r[op.Dim] += s[op.Dim]
		}
		return r, true
	}
	panic("ref.ResultShape: unknown op " + op.K)
}

func shapesOf(in []*T) [][]int {
	r := make([][]int, len(in))
	for i, t := range in {
		r[i] = t.Shape
	}
	return r
}

// Eval computes the operation on the model; ok=false when invalid.
func Eval(op Op, in []*T) (*T, bool) {
	rs, ok := ResultShape(op, shapesOf(in))
	if !ok {
		return nil, false
	}
	if IsComposite(op.K) {
		return compositeEval(op, in), true
	}
	switch op.K {
	case "Scale", "Pow", "Exp", "Log", "Sin", "Cos", "Tan", "Sinh", "Cosh", "Tanh":
		return Map(in[0], scalarUnary(op.K, op.F)), true
	case "Add", "Sub", "Mul", "Div":
		return Zip(BroadcastTo(in[0], rs), BroadcastTo(in[1], rs), scalarBinary(op.K)), true
	case "ElMax", "ElMin", "Eq", "Ne", "Gt", "Ge", "Lt", "Le":
		return Zip(in[0], in[1], scalarBinary(op.K)), true
	case "Dot":
		full, _, _ := DotShapes(in[0].Shape, in[1].Shape)
		a, b := BroadcastTo(in[0], full), BroadcastTo(in[1], full)
		r := New(rs)
		n := full[len(full)-1]
		for o := range r.V {
			s := 0.
			for k := 0; k < n; k++ {
				s += a.V[o*n+k] * b.V[o*n+k]
			}
			r.V[o] = s
		}
		return r, true
	case "MatMul":
		sa, sb, _, _ := MatMulShapes(in[0].Shape, in[1].Shape)
		return batchMatMul(BroadcastTo(in[0], sa), BroadcastTo(in[1], sb)), true
	case "Transpose":
		return Transpose(in[0]), true
	case "Reshape", "UnSqueeze", "Squeeze", "Flatten":
		return Reshape(in[0], rs), true
	case "Broadcast":
		return BroadcastTo(in[0], rs), true
	case "SumAlong", "MaxAlong", "MinAlong", "AvgAlong", "VarAlong", "StdAlong", "MeanAlong":
		return ReduceAlong(StatKind(op.K), in[0], op.Dim), true
	case "Slice":
		return SliceOf(in[0], CompleteIndex(op.Index, in[0].Shape)), true
	case "Patch":
		return PatchOf(in[0], PatchRegion(op.Index, in[1].Shape), in[1]), true
	case "Concat":
		return ConcatOf(in, op.Dim), true
	}
	panic("ref.Eval: unknown op " + op.K)
}

// StatKind maps "SumAlong" -> "Sum", "MeanAlong" -> "Mean", ...
func StatKind(k string) string { return k[:len(k)-len("Along")] }
