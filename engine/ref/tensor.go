// Package ref is the reference model: a deliberately boring flat row-major
// tensor with forward semantics, validity predicates and analytic
// vector-Jacobian products written from the mathematical definitions.
package ref

import (
	"fmt"
	"math"
)

// T is a flat row-major tensor.
type T struct {
	Shape []int
	V     []float64
}

type Range struct{ From, To int }

func Size(shape []int) int {
	n := 1
	for _, d := range shape {
		n *= d
	}
	return n
}

func CopyShape(s []int) []int {
	r := make([]int, len(s))
	copy(r, s)
	return r
}

func New(shape []int) *T {
	return &T{Shape: CopyShape(shape), V: make([]float64, Size(shape))}
}

func FullOf(shape []int, v float64) *T {
	t := New(shape)
	for i := range t.V {
		t.V[i] = v
	}
	return t
}

func (t *T) Clone() *T {
	r := New(t.Shape)
	copy(r.V, t.V)
	return r
}

func SameShape(a, b []int) bool {
	if len(a) != len(b) {
		return false
	}
	for i := range a {
		if a[i] != b[i] {
			return false
		}
	}
	return true
}

// Unravel converts a flat row-major offset to a multi-index.
func Unravel(off int, shape []int) []int {
	idx := make([]int, len(shape))
	for i := len(shape) - 1; i >= 0; i-- {
		idx[i] = off % shape[i]
		off /= shape[i]
	}
	return idx
}

// Ravel converts a multi-index to a flat offset.
func Ravel(idx []int, shape []int) int {
	off := 0
	for i := range shape {
		off = off*shape[i] + idx[i]
	}
	return off
}

func (t *T) At(idx ...int) float64 { return t.V[Ravel(idx, t.Shape)] }

func (t *T) String() string { return fmt.Sprintf("%v%v", t.Shape, t.V) }

// BroadcastShape returns the NumPy right-aligned broadcast of two shapes.
func BroadcastShape(a, b []int) ([]int, bool) {
	n := len(a)
	if len(b) > n {
		n = len(b)
	}
	r := make([]int, n)
	for k := 1; k <= n; k++ {
		da, db := 1, 1
		if k <= len(a) {
			da = a[len(a)-k]
		}
		if k <= len(b) {
			db = b[len(b)-k]
		}
		switch {
		case da == db:
			r[n-k] = da
		case da == 1:
			r[n-k] = db
		case db == 1:
			r[n-k] = da
		default:
			return nil, false
		}
	}
	return r, true
}

// CanBroadcastTo reports whether src can be broadcast to dst.
func CanBroadcastTo(src, dst []int) bool {
	if len(src) > len(dst) {
		return false
	}
	for k := 1; k <= len(src); k++ {
		s, d := src[len(src)-k], dst[len(dst)-k]
		if s != d && s != 1 {
			return false
		}
	}
	return true
}

// srcOffset maps a target multi-index to the offset of the source element that
// is copied there by broadcasting.
func srcOffset(idx []int, src, dst []int) int {
	off := 0
	lead := len(dst) - len(src)
	for i := range src {
		j := idx[lead+i]
		if src[i] == 1 {
			j = 0
		}
		off = off*src[i] + j
	}
	return off
}

func BroadcastTo(t *T, shape []int) *T {
	r := New(shape)
	for o := range r.V {
		r.V[o] = t.V[srcOffset(Unravel(o, shape), t.Shape, shape)]
	}
	return r
}

// UnBroadcast sums (or, with avg, averages) g of shape dst over all positions
// each element of a tensor of shape src was copied to.
func UnBroadcast(g *T, src []int, avg bool) *T {
	r := New(src)
	for o, v := range g.V {
		r.V[srcOffset(Unravel(o, g.Shape), src, g.Shape)] += v
	}
	if avg {
		f := float64(Size(g.Shape)) / float64(Size(src))
		for i := range r.V {
			r.V[i] /= f
		}
	}
	return r
}

func Map(t *T, f func(float64) float64) *T {
	r := New(t.Shape)
	for i, v := range t.V {
		r.V[i] = f(v)
	}
	return r
}

func Zip(a, b *T, f func(x, y float64) float64) *T {
	r := New(a.Shape)
	for i := range a.V {
		r.V[i] = f(a.V[i], b.V[i])
	}
	return r
}

func Transpose(t *T) *T {
	n := len(t.Shape)
	sh := CopyShape(t.Shape)
	sh[n-1], sh[n-2] = sh[n-2], sh[n-1]
	r := New(sh)
	for o := range r.V {
		idx := Unravel(o, sh)
		idx[n-1], idx[n-2] = idx[n-2], idx[n-1]
		r.V[o] = t.V[Ravel(idx, t.Shape)]
	}
	return r
}

func Reshape(t *T, shape []int) *T {
	r := New(shape)
	copy(r.V, t.V)
	return r
}

// CompleteIndex expands a partial index list against dims: omitted or {0,0}
// ranges mean the whole dimension.
func CompleteIndex(index []Range, dims []int) []Range {
	c := make([]Range, len(dims))
	for i := range c {
		if i >= len(index) || (index[i].From == 0 && index[i].To == 0) {
			c[i] = Range{0, dims[i]}
		} else {
			c[i] = index[i]
		}
	}
	return c
}

func SliceOf(t *T, full []Range) *T {
	sh := make([]int, len(full))
	for i, r := range full {
		sh[i] = r.To - r.From
	}
	r := New(sh)
	for o := range r.V {
		idx := Unravel(o, sh)
		for i := range idx {
			idx[i] += full[i].From
		}
		r.V[o] = t.V[Ravel(idx, t.Shape)]
	}
	return r
}

// PatchRegion returns the region of the target that a source of shape src
// covers when written with the (partial) index: explicit ranges as given,
// omitted ranges at offset 0 with the source's size.
func PatchRegion(index []Range, src []int) []Range {
	return CompleteIndex(index, src)
}

func PatchOf(t *T, region []Range, p *T) *T {
	r := t.Clone()
	for o, v := range p.V {
		idx := Unravel(o, p.Shape)
		for i := range idx {
			idx[i] += region[i].From
		}
		r.V[Ravel(idx, t.Shape)] = v
	}
	return r
}

func ConcatOf(ts []*T, dim int) *T {
	sh := CopyShape(ts[0].Shape)
	sh[dim] = 0
	for _, t := range ts {
		sh[dim] += t.Shape[dim]
	}
	r := New(sh)
	base := 0
	for _, t := range ts {
		for o, v := range t.V {
			idx := Unravel(o, t.Shape)
			idx[dim] += base
			r.V[Ravel(idx, sh)] = v
		}
		base += t.Shape[dim]
	}
	return r
}

func RemoveDim(shape []int, dim int) []int {
	r := make([]int, 0, len(shape))
	r = append(r, shape[:dim]...)
	r = append(r, shape[dim+1:]...)
	return r
}

func InsertDim(shape []int, dim int, size int) []int {
	r := make([]int, 0, len(shape)+1)
	r = append(r, shape[:dim]...)
	r = append(r, size)
	r = append(r, shape[dim:]...)
	return r
}

// Fibres calls f once for every one-dimensional fibre of t along dim, with the
// offset in the reduced tensor and the offsets (in t) of the fibre elements.
func Fibres(t *T, dim int, f func(ro int, offs []int)) {
	rs := RemoveDim(t.Shape, dim)
	n := t.Shape[dim]
	offs := make([]int, n)
	for ro := 0; ro < Size(rs); ro++ {
		ridx := Unravel(ro, rs)
		idx := InsertDim(ridx, dim, 0)
		for k := 0; k < n; k++ {
			idx[dim] = k
			offs[k] = Ravel(idx, t.Shape)
		}
		f(ro, offs)
	}
}

// Stat computes a statistic of a list of values.
func Stat(kind string, xs []float64) float64 {
	n := float64(len(xs))
	switch kind {
	case "Sum":
		s := 0.
		for _, x := range xs {
			s += x
		}
		return s
	case "Max":
		m := math.Inf(-1)
		for _, x := range xs {
			if x > m {
				m = x
			}
		}
		return m
	case "Min":
		m := math.Inf(1)
		for _, x := range xs {
			if x < m {
				m = x
			}
		}
		return m
	case "Avg", "Mean":
		return Stat("Sum", xs) / n
	case "Var":
		if len(xs) <= 1 {
			return 0
		}
		mu := Stat("Avg", xs)
		s := 0.
		for _, x := range xs {
			s += (x - mu) * (x - mu)
		}
		return s / (n - 1)
	case "Std":
		return math.Sqrt(Stat("Var", xs))
	}
	panic("ref.Stat: unknown kind " + kind)
}

func ReduceAlong(kind string, t *T, dim int) *T {
	r := New(RemoveDim(t.Shape, dim))
	buf := make([]float64, t.Shape[dim])
	Fibres(t, dim, func(ro int, offs []int) {
		for k, o := range offs {
			buf[k] = t.V[o]
		}
		r.V[ro] = Stat(kind, buf)
	})
	return r
}

func Eye(n int) *T {
	r := New([]int{n, n})
	for i := 0; i < n; i++ {
		r.V[i*n+i] = 1
	}
	return r
}

// batchMatMul multiplies [..., m, n] by [..., n, k] with equal batch dims.
func batchMatMul(a, b *T) *T {
	la := len(a.Shape)
	m, n, k := a.Shape[la-2], a.Shape[la-1], b.Shape[la-1]
	sh := CopyShape(a.Shape)
	sh[la-1] = k
	r := New(sh)
	nb := Size(a.Shape[:la-2])
	for bi := 0; bi < nb; bi++ {
		for i := 0; i < m; i++ {
			for j := 0; j < k; j++ {
				s := 0.
				for p := 0; p < n; p++ {
					s += a.V[bi*m*n+i*n+p] * b.V[bi*n*k+p*k+j]
				}
				r.V[bi*m*k+i*k+j] = s
			}
		}
	}
	return r
}

// MatMulShapes returns the broadcast operand shapes and result shape.
func MatMulShapes(a, b []int) (sa, sb, sr []int, ok bool) {
	if len(a) < 2 || len(b) < 2 {
		return nil, nil, nil, false
	}
	la, lb := len(a), len(b)
	if a[la-1] != b[lb-2] {
		return nil, nil, nil, false
	}
	batch, ok := BroadcastShape(a[:la-2], b[:lb-2])
	if !ok {
		return nil, nil, nil, false
	}
	sa = append(CopyShape(batch), a[la-2], a[la-1])
	sb = append(CopyShape(batch), b[lb-2], b[lb-1])
	sr = append(CopyShape(batch), a[la-2], b[lb-1])
	return sa, sb, sr, true
}

// DotShapes: contract last dimension after broadcasting the leading ones.
func DotShapes(a, b []int) (full, sr []int, ok bool) {
	if len(a) < 1 || len(b) < 1 {
		return nil, nil, false
	}
	if a[len(a)-1] != b[len(b)-1] {
		return nil, nil, false
	}
	full, ok = BroadcastShape(a, b)
	if !ok {
		return nil, nil, false
	}
	return full, CopyShape(full[:len(full)-1]), true
}
