package ref

import "math"

// Differentiable reports whether op is differentiable at the operand values
// (away from kinks, ties, poles and domain boundaries). Cases where it is false
// are skipped and counted by gradient checks, never judged.
func Differentiable(op Op, in []*T, out *T) bool {
	if IsComposite(op.K) && !compositeDifferentiable(op, in) {
		return false
	}
	switch op.K {
	case "ElMax", "ElMin":
		for i := range in[0].V {
			if in[0].V[i] == in[1].V[i] {
				return false
			}
		}
	case "MaxAlong", "MinAlong":
		ok := true
		Fibres(in[0], op.Dim, func(ro int, offs []int) {
			cnt := 0
			for _, o := range offs {
				if in[0].V[o] == out.V[ro] {
					cnt++
				}
			}
			if cnt != 1 {
				ok = false
			}
		})
		return ok
	case "StdAlong":
		if in[0].Shape[op.Dim] == 1 {
			return true
		}
		// std > 0 in every reduced slice, and well-conditioned: relative to the
		// slice's own magnitude (the rule is scale invariant)
		ok := true
		Fibres(in[0], op.Dim, func(ro int, offs []int) {
			m := 0.
			for _, o := range offs {
				m = math.Max(m, math.Abs(in[0].V[o]))
			}
			if !(out.V[ro] > 1e-6*m) || !(out.V[ro] > 0) {
				ok = false
			}
		})
		return ok
	case "Log":
		for _, v := range in[0].V {
			if !(v > 0) {
				return false
			}
		}
	case "Div":
		for _, v := range in[1].V {
			if v == 0 {
				return false
			}
		}
	case "Pow":
		a := op.F
		isInt := a == math.Trunc(a)
		for _, v := range in[0].V {
			switch {
			case isInt && a >= 0:
			case isInt && a < 0:
				if v == 0 {
					return false
				}
			default:
				if !(v > 0) {
					return false
				}
			}
		}
	case "Tan":
		for _, v := range in[0].V {
			if math.Abs(math.Cos(v)) < 1e-3 {
				return false
			}
		}
	}
	for _, t := range in {
		for _, v := range t.V {
			if math.IsNaN(v) || math.IsInf(v, 0) {
				return false
			}
		}
	}
	for _, v := range out.V {
		if math.IsNaN(v) || math.IsInf(v, 0) {
			return false
		}
	}
	return true
}

func powDeriv(x, a float64) float64 {
	if a == 0 {
		return 0
	}
	return a * math.Pow(x, a-1)
}

// VJP returns, for each operand, the vector-Jacobian product of the upstream
// weighting gy (shape of out) with the operation's Jacobian. With avg set, the
// reduction over broadcast copies is a mean instead of a sum (the alternative
// model used only to recognise the listed known finding).
func VJP(op Op, in []*T, out *T, gy *T, avg bool) []*T {
	if IsComposite(op.K) {
		return compositeVJP(op, in, out, gy)
	}
	x := in[0]
	switch op.K {
	case "Scale":
		return []*T{Map(gy, func(g float64) float64 { return op.F * g })}
	case "Pow":
		return []*T{Zip(gy, x, func(g, v float64) float64 { return g * powDeriv(v, op.F) })}
	case "Exp":
		return []*T{Zip(gy, out, func(g, y float64) float64 { return g * y })}
	case "Log":
		return []*T{Zip(gy, x, func(g, v float64) float64 { return g / v })}
	case "Sin":
		return []*T{Zip(gy, x, func(g, v float64) float64 { return g * math.Cos(v) })}
	case "Cos":
		return []*T{Zip(gy, x, func(g, v float64) float64 { return -g * math.Sin(v) })}
	case "Tan":
		return []*T{Zip(gy, x, func(g, v float64) float64 { c := math.Cos(v); return g / (c * c) })}
	case "Sinh":
		return []*T{Zip(gy, x, func(g, v float64) float64 { return g * math.Cosh(v) })}
	case "Cosh":
		return []*T{Zip(gy, x, func(g, v float64) float64 { return g * math.Sinh(v) })}
	case "Tanh":
		return []*T{Zip(gy, x, func(g, v float64) float64 { c := math.Cosh(v); return g / (c * c) })}
	case "Add", "Sub", "Mul", "Div":
		a, b := BroadcastTo(in[0], out.Shape), BroadcastTo(in[1], out.Shape)
		var ga, gb *T
		switch op.K {
		case "Add":
			ga, gb = gy.Clone(), gy.Clone()
		case "Sub":
			ga, gb = gy.Clone(), Map(gy, func(g float64) float64 { return -g })
		case "Mul":
			ga, gb = Zip(gy, b, func(g, v float64) float64 { return g * v }), Zip(gy, a, func(g, v float64) float64 { return g * v })
		case "Div":
			ga = Zip(gy, b, func(g, v float64) float64 { return g / v })
			gb = New(out.Shape)
			for i := range gb.V {
				gb.V[i] = -gy.V[i] * (a.V[i] / b.V[i]) / b.V[i] // no squaring of the divisor: stays finite up to |b| ~ 1e308
			}
		}
		return []*T{UnBroadcast(ga, in[0].Shape, avg), UnBroadcast(gb, in[1].Shape, avg)}
	case "ElMax", "ElMin":
		ga, gb := New(out.Shape), New(out.Shape)
		for i := range out.V {
			a, b := in[0].V[i], in[1].V[i]
			switch {
			case a == b:
				ga.V[i], gb.V[i] = 0.5*gy.V[i], 0.5*gy.V[i]
			case (a > b) == (op.K == "ElMax"):
				ga.V[i] = gy.V[i]
			default:
				gb.V[i] = gy.V[i]
			}
		}
		return []*T{ga, gb}
	case "Dot":
		full, _, _ := DotShapes(in[0].Shape, in[1].Shape)
		a, b := BroadcastTo(in[0], full), BroadcastTo(in[1], full)
		n := full[len(full)-1]
		ga, gb := New(full), New(full)
		for o := range gy.V {
			for k := 0; k < n; k++ {
				ga.V[o*n+k] = gy.V[o] * b.V[o*n+k]
				gb.V[o*n+k] = gy.V[o] * a.V[o*n+k]
			}
		}
		return []*T{UnBroadcast(ga, in[0].Shape, avg), UnBroadcast(gb, in[1].Shape, avg)}
	case "MatMul":
		sa, sb, _, _ := MatMulShapes(in[0].Shape, in[1].Shape)
		a, b := BroadcastTo(in[0], sa), BroadcastTo(in[1], sb)
		ga := batchMatMul(gy, Transpose(b))
		gb := batchMatMul(Transpose(a), gy)
		return []*T{UnBroadcast(ga, in[0].Shape, avg), UnBroadcast(gb, in[1].Shape, avg)}
	case "Transpose":
		return []*T{Transpose(gy)}
	case "Reshape", "UnSqueeze", "Squeeze", "Flatten":
		return []*T{Reshape(gy, x.Shape)}
	case "Broadcast":
		return []*T{UnBroadcast(gy, x.Shape, avg)}
	case "SumAlong", "MaxAlong", "MinAlong", "AvgAlong", "VarAlong", "StdAlong", "MeanAlong":
		g := New(x.Shape)
		n := float64(x.Shape[op.Dim])
		Fibres(x, op.Dim, func(ro int, offs []int) {
			mu := 0.
			for _, o := range offs {
				mu += x.V[o]
			}
			mu /= n
			for _, o := range offs {
				switch op.K {
				case "SumAlong":
					g.V[o] = gy.V[ro]
				case "AvgAlong", "MeanAlong":
					g.V[o] = gy.V[ro] / n
				case "MaxAlong", "MinAlong":
					if x.V[o] == out.V[ro] {
						g.V[o] = gy.V[ro]
					}
				case "VarAlong":
					if n > 1 {
						g.V[o] = gy.V[ro] * 2 * (x.V[o] - mu) / (n - 1)
					}
				case "StdAlong":
					if n > 1 {
						g.V[o] = gy.V[ro] * (x.V[o] - mu) / ((n - 1) * out.V[ro])
					}
				}
			}
		})
		return []*T{g}
	case "Slice":
		full := CompleteIndex(op.Index, x.Shape)
		return []*T{PatchOf(New(x.Shape), full, gy)}
	case "Patch":
		region := PatchRegion(op.Index, in[1].Shape)
		gx := PatchOf(gy, region, New(in[1].Shape))
		gp := SliceOf(gy, region)
		return []*T{gx, gp}
	case "Concat":
		r := make([]*T, len(in))
		base := 0
		for i, t := range in {
			full := CompleteIndex(nil, gy.Shape)
			full[op.Dim] = Range{base, base + t.Shape[op.Dim]}
			r[i] = SliceOf(gy, full)
			base += t.Shape[op.Dim]
		}
		return r
	}
	panic("ref.VJP: unknown op " + op.K)
}

/* ---------- programs (operation DAGs) ---------- */

// Node is one operation of a straight-line program; In are tensor ids
// (leaves first, then nodes in program order).
type Node struct {
	Op Op    `json:"op"`
	In []int `json:"in"`
}

type Program struct {
	Leaves  []*T   `json:"leaves"`
	Tracked []bool `json:"tracked"`
	Nodes   []Node `json:"nodes"`
	// TrOverride, when set, gives the tracked flag of every tensor directly
	// (histories with back-propagations in the middle, see C08).
	TrOverride []bool `json:"tr_override,omitempty"`
	// Ctor, when set, names the public constructor that creates leaf i on the
	// real side ("" = TensorOf; "Full", "Zeros", "Ones" for constant leaves, "Eye").
	Ctor []string `json:"ctor,omitempty"`
}

func (p *Program) NTensors() int { return len(p.Leaves) + len(p.Nodes) }

// Forward evaluates the program on the model. ok=false if any op is invalid.
func (p *Program) Forward() (vals []*T, ok bool) {
	vals = make([]*T, 0, p.NTensors())
	vals = append(vals, p.Leaves...)
	for _, n := range p.Nodes {
		in := make([]*T, len(n.In))
		for k, id := range n.In {
			in[k] = vals[id]
		}
		v, ok := Eval(n.Op, in)
		if !ok {
			return nil, false
		}
		vals = append(vals, v)
	}
	return vals, true
}

// TrackedAll gives the model tracked flag of every tensor of a pure program
// (no back-propagation in between): a result of a differentiable operation is
// tracked iff some operand is; comparison results are untracked.
func (p *Program) TrackedAll() []bool {
	if p.TrOverride != nil {
		return p.TrOverride
	}
	tr := make([]bool, 0, p.NTensors())
	tr = append(tr, p.Tracked...)
	for _, n := range p.Nodes {
		t := false
		if !n.Op.IsComparison() {
			for _, id := range n.In {
				t = t || tr[id]
			}
		}
		tr = append(tr, t)
	}
	return tr
}

// DifferentiableAll checks every node at the forward values.
func (p *Program) DifferentiableAll(vals []*T) bool {
	L := len(p.Leaves)
	for i, n := range p.Nodes {
		in := make([]*T, len(n.In))
		for k, id := range n.In {
			in[k] = vals[id]
		}
		if !Differentiable(n.Op, in, vals[L+i]) {
			return false
		}
	}
	return true
}

// Backward is the model reverse pass: the total derivative of sum(seed*root)
// with respect to every tensor. grads[i] == nil iff tensor i receives no
// gradient (untracked, or not reachable from the root through tracked
// tensors). edges = number of (consumer -> tracked operand) edges walked.
func (p *Program) Backward(vals []*T, root int, seed *T, avg bool) (grads []*T, edges int) {
	tr := p.TrackedAll()
	grads = make([]*T, p.NTensors())
	if !tr[root] {
		return grads, 0
	}
	if seed == nil {
		seed = FullOf(vals[root].Shape, 1)
	}
	grads[root] = seed.Clone()
	L := len(p.Leaves)
	for id := root; id >= L; id-- {
		if grads[id] == nil {
			continue
		}
		n := p.Nodes[id-L]
		in := make([]*T, len(n.In))
		for k, j := range n.In {
			in[k] = vals[j]
		}
		gs := VJP(n.Op, in, vals[id], grads[id], avg)
		for k, j := range n.In {
			if !tr[j] {
				continue
			}
			edges++
			if grads[j] == nil {
				grads[j] = gs[k].Clone()
			} else {
				for i := range grads[j].V {
					grads[j].V[i] += gs[k].V[i]
				}
			}
		}
	}
	return grads, edges
}

// HasExpansion reports whether some tracked operand of some node reachable
// from root is implicitly or explicitly expanded by a factor > 1 (the
// situation in which the known finding broadcast_avg can show).
func (p *Program) HasExpansion(vals []*T, root int) bool {
	tr := p.TrackedAll()
	L := len(p.Leaves)
	for id := root; id >= L; id-- {
		n := p.Nodes[id-L]
		switch n.Op.K {
		case "Add", "Sub", "Mul", "Div", "Broadcast":
			for _, j := range n.In {
				if tr[j] && Size(vals[j].Shape) != Size(vals[id].Shape) {
					return true
				}
			}
		case "Dot":
			full, _, _ := DotShapes(vals[n.In[0]].Shape, vals[n.In[1]].Shape)
			for _, j := range n.In {
				if tr[j] && Size(vals[j].Shape) != Size(full) {
					return true
				}
			}
		case "MatMul":
			sa, sb, _, _ := MatMulShapes(vals[n.In[0]].Shape, vals[n.In[1]].Shape)
			if tr[n.In[0]] && Size(vals[n.In[0]].Shape) != Size(sa) {
				return true
			}
			if tr[n.In[1]] && Size(vals[n.In[1]].Shape) != Size(sb) {
				return true
			}
		}
	}
	return false
}
