package ref

import "math"

// Composite operations: the library's components (activations, losses, FC)
// modelled by the formulas of the property statements. Forward and VJP are the
// analytic formulas; Decompose mirrors the implementation's composition out of
// primitive operations and is used ONLY to recognise the listed known finding
// (mean instead of sum in Broadcast's backward rule) on composite graphs.

const LossEps = 1e-12

// EqTolerance is the library's absolute equality tolerance (C03): values closer
// than this are "equal" for Eq/Ne/Equals, and therefore ties for ElMax/ElMin.
const EqTolerance = 1e-240

func IsComposite(k string) bool {
	switch k {
	case "Relu", "LeakyRelu", "Sigmoid", "TanhAct", "Softmax", "MSE", "BCE", "CE", "FC":
		return true
	}
	return false
}

func clip(x, lo, hi float64) float64 { return math.Max(lo, math.Min(x, hi)) }

func compositeArity(k string) int {
	switch k {
	case "MSE", "BCE", "CE":
		return 2
	case "FC":
		return 3
	}
	return 1
}

func compositeShape(op Op, in [][]int) ([]int, bool) {
	if len(in) != compositeArity(op.K) {
		return nil, false
	}
	switch op.K {
	case "Relu", "LeakyRelu", "Sigmoid", "TanhAct":
		return CopyShape(in[0]), true
	case "Softmax":
		if op.Dim < 0 || len(in[0]) <= op.Dim {
			return nil, false
		}
		return CopyShape(in[0]), true
	case "MSE", "BCE":
		if len(in[0]) != 1 || len(in[1]) != 1 || in[0][0] != in[1][0] {
			return nil, false
		}
		return []int{}, true
	case "CE":
		if len(in[0]) != 2 || !SameShape(in[0], in[1]) {
			return nil, false
		}
		return []int{}, true
	case "FC": // x [B,D], W [O], B [O]
		if len(in[0]) != 2 || len(in[1]) != 1 || !SameShape(in[1], in[2]) {
			return nil, false
		}
		return []int{in[0][0], in[1][0]}, true
	}
	return nil, false
}

func compositeEval(op Op, in []*T) *T {
	x := in[0]
	switch op.K {
	case "Relu":
		return Map(x, func(v float64) float64 { return math.Max(0, v) })
	case "LeakyRelu":
		return Map(x, func(v float64) float64 { return math.Max(0, v) + op.F*math.Min(0, v) })
	case "Sigmoid":
		return Map(x, func(v float64) float64 { return 1 / (1 + math.Exp(-v)) })
	case "TanhAct":
		return Map(x, math.Tanh)
	case "Softmax":
		r := New(x.Shape)
		Fibres(x, op.Dim, func(ro int, offs []int) {
			s := 0.
			for _, o := range offs {
				s += math.Exp(x.V[o])
			}
			for _, o := range offs {
				r.V[o] = math.Exp(x.V[o]) / s
			}
		})
		return r
	case "MSE":
		s := 0.
		for i := range x.V {
			d := in[1].V[i] - x.V[i]
			s += d * d
		}
		return &T{Shape: []int{}, V: []float64{s / float64(len(x.V))}}
	case "BCE":
		s := 0.
		for i := range x.V {
			t := clip(in[1].V[i], 0, 1)
			p := clip(x.V[i], LossEps, 1-LossEps)
			s += t*math.Log(p) + (1-t)*math.Log(1-p)
		}
		return &T{Shape: []int{}, V: []float64{-s / float64(len(x.V))}}
	case "CE":
		s := 0.
		for i := range x.V {
			t := clip(in[1].V[i], 0, 1)
			p := clip(x.V[i], LossEps, 1-LossEps)
			s += t * math.Log(p)
		}
		return &T{Shape: []int{}, V: []float64{-s / float64(x.Shape[0])}}
	case "FC":
		B, D, O := x.Shape[0], x.Shape[1], in[1].Shape[0]
		r := New([]int{B, O})
		for b := 0; b < B; b++ {
			s := 0.
			for d := 0; d < D; d++ {
				s += x.V[b*D+d]
			}
			for o := 0; o < O; o++ {
				r.V[b*O+o] = in[1].V[o]*s + in[2].V[o]
			}
		}
		return r
	}
	panic("compositeEval " + op.K)
}

// compositeDifferentiable: away from the kinks the statement excludes.
// (Leaky)Relu at exactly 0 is handled by the tie weights Op.Tie (see VJP).
func compositeDifferentiable(op Op, in []*T) bool {
	switch op.K {
	case "BCE", "CE":
		for _, p := range in[0].V {
			if p == LossEps || p == 1-LossEps {
				return false
			}
		}
	}
	return true
}

// TargetDifferentiable: whether the loss is differentiable w.r.t. its targets
// (clipping of targets at exactly 0 or 1 is a kink).
func TargetDifferentiable(op Op, in []*T) bool {
	switch op.K {
	case "BCE", "CE":
		for _, t := range in[1].V {
			if t == 0 || t == 1 {
				return false
			}
		}
	}
	return true
}

func compositeVJP(op Op, in []*T, out *T, gy *T) []*T {
	x := in[0]
	switch op.K {
	case "Relu", "LeakyRelu":
		m := 0.
		if op.K == "LeakyRelu" {
			m = op.F
		}
		g := New(x.Shape)
		for i, v := range x.V {
			switch {
			case v > EqTolerance:
				g.V[i] = gy.V[i]
			case v < -EqTolerance:
				g.V[i] = m * gy.V[i]
			default:
				// at exactly 0 (and within the library's absolute equality
				// tolerance of 0, where its comparisons cannot tell the sides
				// apart): a value between the one-sided derivatives;
				// Tie[i] in [0,1] interpolates from m (0) to 1 (1); default 1/2
				lam := 0.5
				if op.Tie != nil {
					lam = op.Tie[i]
				}
				g.V[i] = (m + lam*(1-m)) * gy.V[i]
			}
		}
		return []*T{g}
	case "Sigmoid":
		return []*T{Zip(gy, out, func(g, s float64) float64 { return g * s * (1 - s) })}
	case "TanhAct":
		return []*T{Zip(gy, out, func(g, t float64) float64 { return g * (1 - t*t) })}
	case "Softmax":
		g := New(x.Shape)
		Fibres(x, op.Dim, func(ro int, offs []int) {
			dot := 0.
			for _, o := range offs {
				dot += out.V[o] * gy.V[o]
			}
			for _, o := range offs {
				g.V[o] = out.V[o] * (gy.V[o] - dot)
			}
		})
		return []*T{g}
	case "MSE":
		n := float64(len(x.V))
		gp, gt := New(x.Shape), New(x.Shape)
		for i := range x.V {
			gp.V[i] = gy.V[0] * 2 * (x.V[i] - in[1].V[i]) / n
			gt.V[i] = -gp.V[i]
		}
		return []*T{gp, gt}
	case "BCE", "CE":
		n := float64(x.Shape[0])
		gp, gt := New(x.Shape), New(x.Shape)
		for i := range x.V {
			t := clip(in[1].V[i], 0, 1)
			p := x.V[i]
			inside := p > LossEps && p < 1-LossEps
			pc := clip(p, LossEps, 1-LossEps)
			tIn := in[1].V[i] > 0 && in[1].V[i] < 1
			if op.K == "BCE" {
				if inside {
					gp.V[i] = gy.V[0] * ((1-t)/(1-p) - t/p) / n
				}
				if tIn {
					gt.V[i] = -gy.V[0] * (math.Log(pc) - math.Log(1-pc)) / n
				}
			} else {
				if inside {
					gp.V[i] = -gy.V[0] * (t / p) / n
				}
				if tIn {
					gt.V[i] = -gy.V[0] * math.Log(pc) / n
				}
			}
		}
		return []*T{gp, gt}
	case "FC":
		B, D, O := x.Shape[0], x.Shape[1], in[1].Shape[0]
		gx, gw, gb := New(x.Shape), New(in[1].Shape), New(in[2].Shape)
		for b := 0; b < B; b++ {
			s := 0.
			for d := 0; d < D; d++ {
				s += x.V[b*D+d]
			}
			gxs := 0.
			for o := 0; o < O; o++ {
				g := gy.V[b*O+o]
				gw.V[o] += g * s
				gb.V[o] += g
				gxs += g * in[1].V[o]
			}
			for d := 0; d < D; d++ {
				gx.V[b*D+d] = gxs
			}
		}
		return []*T{gx, gw, gb}
	}
	panic("compositeVJP " + op.K)
}

// Decompose mirrors how the implementation composes a component out of
// primitive operations. in are the operand tensor ids, next the id the first
// new node will get; the last returned node is the component's result.
func Decompose(op Op, in []int, next int, inShapes [][]int) []Node {
	switch op.K {
	case "Softmax":
		return []Node{
			{Op: Op{K: "Exp"}, In: []int{in[0]}},                       // next
			{Op: Op{K: "SumAlong", Dim: op.Dim}, In: []int{next}},      // next+1
			{Op: Op{K: "UnSqueeze", Dim: op.Dim}, In: []int{next + 1}}, // next+2
			{Op: Op{K: "Div"}, In: []int{next, next + 2}},
		}
	case "FC":
		return []Node{
			{Op: Op{K: "UnSqueeze", Dim: 1}, In: []int{in[1]}},   // w [O,1]           next
			{Op: Op{K: "UnSqueeze", Dim: 1}, In: []int{in[0]}},   // x [B,1,D]         next+1
			{Op: Op{K: "MatMul"}, In: []int{next, next + 1}},     // [B,O,D]           next+2
			{Op: Op{K: "SumAlong", Dim: 2}, In: []int{next + 2}}, // [B,O]             next+3
			{Op: Op{K: "Add"}, In: []int{next + 3, in[2]}},
		}
	}
	return nil
}

// Expand replaces decomposable composite nodes by their primitive mirror.
// idmap maps the original tensor ids to ids in the expanded program. Other
// composite nodes are kept (their analytic VJP is used).
func (p *Program) Expand() (*Program, []int) {
	q := &Program{Leaves: p.Leaves, Tracked: p.Tracked}
	idmap := make([]int, p.NTensors())
	for i := range p.Leaves {
		idmap[i] = i
	}
	vals, _ := p.Forward()
	L := len(p.Leaves)
	for i, n := range p.Nodes {
		in := make([]int, len(n.In))
		shapes := make([][]int, len(n.In))
		for k, id := range n.In {
			in[k] = idmap[id]
			shapes[k] = vals[id].Shape
		}
		if d := Decompose(n.Op, in, q.NTensors(), shapes); d != nil {
			q.Nodes = append(q.Nodes, d...)
		} else {
			q.Nodes = append(q.Nodes, Node{Op: n.Op, In: in})
		}
		idmap[L+i] = q.NTensors() - 1
	}
	return q, idmap
}
