#!/bin/bash
# tools/regress_seeds.sh [ids...]  — for every kept seeded change: apply to /repo, run the quick check of its
# target property (must exit 1 with a VIOLATION line), revert. Prints one line per seed and a summary.
export GOFLAGS=-mod=mod GOPROXY=off GOSUMDB=off GOTOOLCHAIN=local
cd /verif/seeded || exit 2
ids=${@:-$(ls -d C*-* | sort -V)}
ok=0; bad=0
if [ -n "$(git -C /repo status --short)" ]; then echo "ABORT: /repo not clean"; exit 2; fi
for id in $ids; do
	p=${id%%-*}
	git -C /repo apply /verif/seeded/$id/patch.diff 2>/dev/null || { echo "$id APPLY-FAILED"; bad=$((bad+1)); continue; }
	timeout 1800 /verif/run.sh $p quick > /tmp/regress.$$.log 2>&1; rc=$?
	git -C /repo apply -R /verif/seeded/$id/patch.diff 2>/dev/null; git -C /repo checkout -- . ; git -C /repo clean -fdq
	if [ $rc -eq 1 ] && grep -q "^VIOLATION property=$p" /tmp/regress.$$.log; then ok=$((ok+1)); echo "$id detected by $p"; else bad=$((bad+1)); echo "$id NOT DETECTED by $p (rc=$rc)"; fi
done
rm -f /tmp/regress.$$.log
git -C /verif checkout -- evidence 2>/dev/null
echo "seeds detected by their target check: $ok, not detected: $bad"
[ $bad -eq 0 ]
