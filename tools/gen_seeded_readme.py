#!/usr/bin/env python3
import json, glob, os
rows = []
for d in sorted(glob.glob("/verif/seeded/C*-*")):
    m = json.load(open(d + "/meta.json"))
    rows.append(m)
out = ["# Seeded property-breaking changes", "",
       "Each directory holds one change produced by a fresh sub-agent that was given only the text of one",
       "property and its own scratch worktree of /repo (nothing from /verif): `patch.diff`, the agent's",
       "demonstration (`demo/`, fails with the change, passes without), its `notes.md`, and `meta.json`.",
       "Every change was confirmed here with `tools/try_seed.sh`: applies to /repo, compiles, the repository's own",
       "suite passes, the demonstration fails with it and passes without it. None is committed to /repo.",
       "",
       "| id | property | mechanism | needs to manifest | checks reporting VIOLATION (quick tier) |",
       "|----|----------|-----------|-------------------|------------------------------------------|"]
for m in rows:
    out.append("| %s | %s | %s | %s | %s |" % (m["id"], m["property"], m["mechanism"], m["needs_to_manifest"], " ".join(m["checks_reporting_violation"])))
open("/verif/seeded/README.md", "w").write("\n".join(out) + "\n")
print(len(rows), "seeds")
