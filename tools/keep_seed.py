#!/usr/bin/env python3
"""keep_seed.py <srcdir> <id> <property> <mechanism> <needs>
Copies a confirmed seeded change (patch.diff, demo/, notes.md, result.txt written by
tools/try_seed.sh) to /verif/seeded/<id>/ and writes meta.json."""
import json, os, shutil, sys, re
src, sid, prop, mech, needs = sys.argv[1:6]
dst = "/verif/seeded/" + sid
if os.path.exists(dst):
    shutil.rmtree(dst)
os.makedirs(dst)
shutil.copy(src + "/patch.diff", dst + "/patch.diff")
if os.path.isdir(src + "/demo"):
    shutil.copytree(src + "/demo", dst + "/demo", ignore=shutil.ignore_patterns("*.out", "demo"))
    gm = dst + "/demo/go.mod"
    if os.path.exists(gm):
        s = open(gm).read()
        s = re.sub(r"(replace github.com/sahandsafizadeh/qeep => ).*", r"\1/repo", s)
        open(gm, "w").write(s)
for f in ("notes.md", "demo_flags"):
    if os.path.exists(src + "/" + f):
        shutil.copy(src + "/" + f, dst + "/" + f)
res = open(src + "/result.txt").read() if os.path.exists(src + "/result.txt") else ""
det = re.search(r"detected_by:(.*)", res)
detected = re.findall(r"(C\d+)\(rc=1\)", det.group(1)) if det else []
broken = re.findall(r"(C\d+)\(rc=2\)", det.group(1)) if det else []
meta = {
    "id": sid,
    "property": prop,
    "mechanism": mech,
    "needs_to_manifest": needs,
    "origin": "fresh sub-agent given only the property text and its own scratch worktree of /repo",
    "confirmed": {
        "suite_passes_with_change": "suite: passes" in res,
        "demo_fails_with_change": bool(re.search(r"demo with change: rc=[1-9]", res)),
        "demo_passes_without_change": "demo without change: rc=0" in res,
    },
    "what_was_run": "tools/try_seed.sh: git -C /repo apply patch.diff; go build ./... ; go test -vet=off -count=1 ./... ; demo (go run . with replace => /repo); /verif/run.sh <Cxx> quick for the listed checks; git -C /repo apply -R; demo again",
    "checks_reporting_violation": detected,
    "checks_broken_by_change": broken,
    "target_property_detected": prop in detected,
    "raw_result": res,
}
json.dump(meta, open(dst + "/meta.json", "w"), indent=1)
print("kept", dst, "detected by", detected, "target detected:", prop in detected)
