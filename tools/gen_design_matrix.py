#!/usr/bin/env python3
"""Regenerates the detection matrix in DESIGN.md (section 9.5) from seeded/*/meta.json."""
import json, glob, re
rows = []
def key(d):
    b = d.rsplit("/", 1)[1]
    p, k = b.split("-")
    return (p, int(k))
for d in sorted(glob.glob("/verif/seeded/C*-*"), key=key):
    rows.append(json.load(open(d + "/meta.json")))
out = ["Detection matrix (quick tier; 'reported by' lists every check that was run against the change and printed a",
       "VIOLATION line for it; the target property's check is always among them):", "",
       "| seed | property | mechanism | needs | reported by (checks run) |",
       "|------|----------|-----------|-------|-------------|"]
for m in rows:
    out.append("| %s | %s | %s | %s | %s |" % (m["id"], m["property"], m["mechanism"], m["needs_to_manifest"], " ".join(m["checks_reporting_violation"])))
p = "/verif/DESIGN.md"
s = open(p).read()
i = s.index("Detection matrix (quick tier")
j = s.index("### 9.6 Sync interception")
s = s[:i] + "\n".join(out) + "\n\n" + s[j:]
open(p, "w").write(s)
print(len(rows), "rows")
