#!/bin/bash
# tools/try_seed.sh <dir containing patch.diff and demo/> <property id> [checks to run; default: all]
# Applies a seeded change to /repo, confirms it compiles and passes the repository's suite, runs the
# demonstration (must fail), runs the quick checks, reverts /repo, runs the demonstration again (must pass).
export GOFLAGS=-mod=mod GOPROXY=off GOSUMDB=off GOTOOLCHAIN=local
D=$(cd "$1" && pwd); P=$2; shift 2
CHECKS=${@:-C01 C02 C03 C04 C05 C06 C07 C08 C09 C10 C11 C12 C13 C14 C15 C16 C17 C18 C19 C20}
OUT=$D/result.txt
: > $OUT
say() { echo "$@" | tee -a $OUT; }
if [ -n "$(git -C /repo status --short)" ]; then say "ABORT: /repo not clean"; exit 2; fi
if ! git -C /repo apply --check "$D/patch.diff" 2>>$OUT; then say "ABORT: patch does not apply"; exit 2; fi
git -C /repo apply "$D/patch.diff"
revert() { git -C /repo apply -R "$D/patch.diff" 2>/dev/null; git -C /repo checkout -- . ; }
trap revert EXIT
say "files: $(git -C /repo status --short | tr '\n' ' ')"
if (cd /repo && go build ./... && go vet -tags verif ./... >/dev/null 2>&1; go build -tags verif ./...) >>$OUT 2>&1; then say "build: ok"; else say "build: FAILED"; exit 1; fi
if (cd /repo && go test -vet=off -count=1 ./... 2>&1 | grep -v "no test files" | grep -v "^ok" ) | grep -q . ; then say "suite: FAILS with the change (seed rejected)"; (cd /repo && go test -vet=off -count=1 ./... 2>&1 | grep -v "^ok\|no test files" | head -20) >> $OUT; exit 1; else say "suite: passes"; fi
rundemo() {
	rm -rf /tmp/seedrun && mkdir -p /tmp/seedrun && cp -r "$D/demo" /tmp/seedrun/demo
	(cd /tmp/seedrun/demo && sed -i -E 's#(replace github.com/sahandsafizadeh/qeep => ).*#\1/repo#' go.mod && cp /repo/go.sum . && timeout 600 go run ${DEMO_FLAGS} . > /tmp/seedrun/out.txt 2>&1); rc=$?
	rm -rf /tmp/seedrun/demo
	return $rc
}
DEMO_FLAGS=$(cat "$D/demo_flags" 2>/dev/null)
if [ -n "$DEMO_FLAGS" ]; then export GORACE=halt_on_error=1; fi
rundemo; say "demo with change: rc=$? (expect non-zero)"; tail -5 /tmp/seedrun/out.txt >> $OUT
DET=""
for c in $CHECKS; do
	/verif/run.sh $c quick > /tmp/seedrun.$c.log 2>&1; rc=$?
	if [ $rc -ne 0 ]; then DET="$DET $c(rc=$rc)"; echo "--- $c rc=$rc" >> $OUT; grep -m3 -A1 "^VIOLATION\|BROKEN" /tmp/seedrun.$c.log | cut -c1-600 >> $OUT; fi
done
say "detected_by:$DET"
case "$DET" in *"$P("*) say "target property $P: DETECTED";; *) say "target property $P: MISSED";; esac
revert; trap - EXIT
git -C /verif checkout -- evidence 2>/dev/null
rundemo; say "demo without change: rc=$? (expect 0)"
rm -rf /tmp/seedrun /tmp/seedrun.*.log
