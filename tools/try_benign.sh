#!/bin/bash
# tools/try_benign.sh <patch.diff> <lane name> [checks...]
# False-alarm probe: applies a property-PRESERVING change to a scratch copy of /repo (lane), runs the repository's
# suite there and then the quick checks of a scratch copy of /verif against it. Every check must exit 0.
# Nothing in /repo or /verif is touched; the lane lives under /tmp/lanes/<name> and is removed at the end.
export GOFLAGS=-mod=mod GOPROXY=off GOSUMDB=off GOTOOLCHAIN=local
PATCH=$(readlink -f "$1"); LANE=/tmp/lanes/$2; shift 2
CHECKS=${@:-C01 C02 C03 C04 C05 C06 C07 C08 C09 C10 C11 C12 C13 C14 C15 C16 C17 C18 C19 C20}
rm -rf "$LANE"; mkdir -p "$LANE/verif"
git -C /repo worktree prune
git clone -q /repo "$LANE/repo" || exit 2
(cd /verif && tar cf - --exclude=.git --exclude=seeded --exclude=replays --exclude=engine/bin .) | tar xf - -C "$LANE/verif"
if ! git -C "$LANE/repo" apply "$PATCH"; then echo "ABORT: patch does not apply"; rm -rf "$LANE"; exit 2; fi
echo "files: $(git -C "$LANE/repo" status --short | tr '\n' ' ')"
if ! (cd "$LANE/repo" && go build ./... && go build -tags verif ./...); then echo "build: FAILED"; rm -rf "$LANE"; exit 2; fi
if (cd "$LANE/repo" && go test -vet=off -count=1 ./... 2>&1 | grep -v "no test files" | grep -v "^ok") | grep -q .; then echo "suite: FAILS (change rejected)"; rm -rf "$LANE"; exit 2; fi
echo "suite: passes"
ALARMS=""
for c in $CHECKS; do
	QMC_REPO="$LANE/repo" timeout 2400 "$LANE/verif/run.sh" $c quick > "$LANE/$c.log" 2>&1; rc=$?
	grep -h "^$c tier=" "$LANE/$c.log" | tail -1
	if [ $rc -ne 0 ] || grep -q "^VIOLATION" "$LANE/$c.log"; then
		ALARMS="$ALARMS $c(rc=$rc)"; echo "--- $c rc=$rc"; grep -m4 -A1 "^VIOLATION\|BROKEN\|FAILED" "$LANE/$c.log" | cut -c1-700
		mkdir -p /tmp/benign_logs; cp "$LANE/$c.log" "/tmp/benign_logs/$(basename $LANE).$c.log"
	fi
done
grep -h '"mode"' "$LANE/verif/engine/bin/ov/overlay.stats.json" 2>/dev/null | head -2
echo "alarms:${ALARMS:- none}"
rm -rf "$LANE"
