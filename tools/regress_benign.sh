#!/bin/bash
# tools/regress_benign.sh [bundle dirs under /verif/benign ...]   false-alarm regression: every kept
# property-preserving change (benign/<B>/all.diff, benign/M/*.diff) on its own scratch lane; every quick check must
# exit 0 (tools/try_benign.sh). Two lanes at a time. Prints one line per bundle; exit 1 if any check raised an alarm.
cd /verif/benign || exit 2
list=${@:-$(ls -d B* M)}
patches=""
for b in $list; do
	if [ -f $b/all.diff ]; then patches="$patches $b/all.diff"; else patches="$patches $(ls $b/*.diff)"; fi
done
bad=0; n=0
for p in $patches; do
	lane=rb-$(echo $p | tr '/.' '__')
	( /verif/tools/try_benign.sh $p $lane > /tmp/$lane.out 2>&1; echo "$p: $(grep '^alarms' /tmp/$lane.out || echo 'alarms: (run failed)')" ) &
	n=$((n+1)); if [ $((n % 2)) -eq 0 ]; then wait; fi
done
wait
for p in $patches; do lane=rb-$(echo $p | tr '/.' '__'); grep -q '^alarms: none' /tmp/$lane.out || bad=1; done
[ $bad -eq 0 ]
