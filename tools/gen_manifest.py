#!/usr/bin/env python3
"""Generates /verif/MANIFEST.json from the table below and validates it."""
import json, subprocess, sys

HOOK_COMMITS = ["e2c5f5d"]

E1 = "E1 bounded-exhaustive configuration enumeration vs Go reference model"
E2 = "E2 explicit-state search over API histories on real objects (replay-built successors)"
E3 = "E3 preemption-bounded controlled scheduler + free-running -race pass"

CHECKS = {
 "C03": dict(engine="E1", ref="§5 C03",
   technique="bounded-exhaustive enumeration of every shape / broadcast pair / value class within the bound, executed on the real code and compared with a reference model",
   text="Every element-wise operation on every shape of the bound, every (A,B) pair broadcasting to every target shape, every value-class tuple over small tensors is executed on the real code and compared element by element with an independent flat reference model (plus the implicit-vs-explicit broadcasting differential). Inside the bound the coverage is complete; index/carry logic only depends on rank and on sizes being 1, 2 or >=3, which the bound covers.",
   note="Trusted: Go math functions as scalar definitions, the reference model (checked against finite differences in selftest). Bounded ranks/sizes and value classes, not all float64."),
 "C04": dict(engine="E1", ref="§5 C04",
   technique="bounded-exhaustive enumeration of m,n,k and all broadcast-compatible batch-shape pairs, real code vs triple-loop reference model, plus algebraic identities",
   text="All MatMul/Dot/Transpose configurations within the bound (m,n,k in 1..3, every broadcast-compatible batch pair, ranks up to 6) run on the real code with all-distinct irregular values and are compared with the model's triple loop; A·I=A, I·A=A, (A·B)^T=B^T·A^T and T∘T=id are checked on the same cases.",
   note="Trusted: reference model. Bounded shapes; generic values."),
 "C05": dict(engine="E1", ref="§5 C05",
   technique="bounded-exhaustive enumeration of shapes x dims x value modes, real reducers vs reference statistics",
   text="Every global reducer on every shape and every ...Along(dim) for every dim of every shape within the bound is compared with the statistic of the model fibre, under generic, all-negative, constant-fibre and tied-extremum data.",
   note="Trusted: reference model. Bounded shapes; listed value modes."),
 "C06": dict(engine="E1", ref="§5 C06",
   technique="bounded-exhaustive enumeration with all-distinct labels of every index list / patch position / reshape / concat within the bound, bit-exact comparison with the reference model and round-trip checks",
   text="Element-moving operations never inspect the floats, so one all-distinct labelling per configuration decides the element mapping for all values; every Slice index list, every Patch source/position/index form, every equal-count Reshape, every dim of Squeeze/UnSqueeze/Flatten, every Broadcast source and every 2-3 operand Concat within the bound is compared bit-exactly, and the round trips of the statement are executed on the real code.",
   note="Trusted: reference model; value-parametricity argument. Bounded shapes."),
}

NOT_YET = {}
ALL = ["C%02d" % i for i in range(1, 21)]

def main():
    checks = []
    for pid in ALL:
        if pid not in CHECKS:
            continue
        c = CHECKS[pid]
        eng = {"E1": E1, "E2": E2, "E3": E3}[c["engine"]]
        checks.append({
            "property_id": pid,
            "quick_cmd": "/verif/run.sh %s quick" % pid,
            "thorough_cmd": "/verif/run.sh %s thorough" % pid,
            "evidence_file": "/verif/evidence/%s.json" % pid,
            "replay_cmd_template": "/verif/run.sh replay {path}",
            "engine": eng,
            "level_claimed": {"category": "model_checking", "text": c["text"], "design_ref": c["ref"]},
            "level_note": c["note"],
            "technique": c["technique"],
        })
    na = []
    for pid in ALL:
        if pid not in CHECKS:
            na.append({"property_id": pid, "reason": NOT_YET.get(pid, "check not built yet in this session (work in progress; planned in DESIGN.md §5)")})
    m = {
        "version": 1,
        "setup_cmd": "/verif/run.sh setup",
        "hooks": {
            "guard": "verif",
            "enable": "go build -tags verif (module /verif/engine, replace github.com/sahandsafizadeh/qeep => /repo)",
            "baseline_off_cmd": "/verif/run.sh baseline-off",
            "source_commits": HOOK_COMMITS,
            "add_only": True,
        },
        "engines": [
            {"name": "E1", "path": "/verif/engine", "serves_properties": [p for p in ALL if p in CHECKS and CHECKS[p]["engine"] == "E1"], "kind_free_text": E1},
            {"name": "E2", "path": "/verif/engine", "serves_properties": [p for p in ALL if p in CHECKS and CHECKS[p]["engine"] == "E2"], "kind_free_text": E2},
            {"name": "E3", "path": "/verif/engine", "serves_properties": [p for p in ALL if p in CHECKS and CHECKS[p]["engine"] == "E3"], "kind_free_text": E3},
        ],
        "checks": checks,
        "notes": "One binary (engine/bin/qmc) rebuilt from /repo's working tree by every command. Exit 0 = held on everything explored, 1 = VIOLATION line(s), 2 = broken check. Known findings: /verif/KNOWN_FINDINGS.txt.",
        "not_applicable": na,
    }
    json.dump(m, open("/verif/MANIFEST.json", "w"), indent=1)
    print("wrote MANIFEST.json with", len(checks), "checks,", len(na), "not_applicable")

if __name__ == "__main__":
    main()
