#!/usr/bin/env python3
"""Generates /verif/MANIFEST.json from the table below and validates it."""
import json, subprocess, sys

HOOK_COMMITS = ["e2c5f5d", "a9e1325"]
FIX_COMMITS = ["92d05d9","2f27094","fb921a5","7155879","c3211c8","1a593ad","1bc8a7f","47c46e8","98166ae","adef25d"]

E1 = "E1 bounded-exhaustive configuration enumeration vs Go reference model"
E2 = "E2 explicit-state search over API histories on real objects (replay-built successors)"
E3 = "E3 preemption-bounded controlled scheduler + free-running -race pass"

PROMOTED = {"C03","C04","C05","C10","C12","C14","C16","C17","C18"}
SCALARARG = {"C02","C03","C06","C14","C15","C17","C18"}
SPECIALDATA = {"C02","C04","C06","C07","C08","C12","C13","C14","C15","C16","C20"}
SWEPT = {"C01","C02","C03","C04","C05","C06","C07","C11","C12","C13","C14","C15","C16","C17","C19"}

CHECKS = {
 "C03": dict(engine="E1", ref="§5 C03",
   technique="bounded-exhaustive enumeration of every shape / broadcast pair / value class within the bound, executed on the real code and compared with a reference model",
   text="Every element-wise operation on every shape of the bound, every (A,B) pair broadcasting to every target shape, every value-class tuple over small tensors is executed on the real code and compared element by element with an independent flat reference model (plus the implicit-vs-explicit broadcasting differential). Inside the bound the coverage is complete; index/carry logic only depends on rank and on sizes being 1, 2 or >=3, which the bound covers.",
   note="Trusted: Go math functions as scalar definitions, the reference model (checked against finite differences in selftest). Bounded ranks/sizes and value classes, not all float64."),
 "C04": dict(engine="E1", ref="§5 C04",
   technique="bounded-exhaustive enumeration of m,n,k and all broadcast-compatible batch-shape pairs, real code vs triple-loop reference model, plus algebraic identities",
   text="All MatMul/Dot/Transpose configurations within the bound (m,n,k in 1..3, every broadcast-compatible batch pair, ranks up to 6) run on the real code with all-distinct irregular values and are compared with the model's triple loop; A·I=A, I·A=A, (A·B)^T=B^T·A^T and T∘T=id are checked on the same cases.",
   note="Trusted: reference model. Bounded shapes; generic values."),
 "C05": dict(engine="E1", ref="§5 C05",
   technique="bounded-exhaustive enumeration of shapes x dims x value modes, real reducers vs reference statistics",
   text="Every global reducer on every shape and every ...Along(dim) for every dim of every shape within the bound is compared with the statistic of the model fibre, under generic, all-negative, constant-fibre and tied-extremum data.",
   note="Trusted: reference model. Bounded shapes; listed value modes."),
 "C06": dict(engine="E1", ref="§5 C06",
   technique="bounded-exhaustive enumeration with all-distinct labels of every index list / patch position / reshape / concat within the bound, bit-exact comparison with the reference model and round-trip checks",
   text="Element-moving operations never inspect the floats, so one all-distinct labelling per configuration decides the element mapping for all values; every Slice index list, every Patch source/position/index form, every equal-count Reshape, every dim of Squeeze/UnSqueeze/Flatten, every Broadcast source and every 2-3 operand Concat within the bound is compared bit-exactly, and the round trips of the statement are executed on the real code.",
   note="Trusted: reference model; value-parametricity argument. Bounded shapes."),
 "C01": dict(engine="E2", ref="§5 C01",
   technique="explicit enumeration of all operation DAGs (straight-line programs) up to a node bound x tracked masks x roots, plus sequences and deep families, each executed on the real code and compared with a reference reverse pass; rule applications counted through a hook against a polynomial budget",
   text="Every straight-line program up to the operation bound over an alphabet that exercises each kind of backward rule (operand-reading, result-reading, other-operand-reading, n-ary, shape-changing), with operands drawn from all earlier tensors so that every fan-out/reconvergence pattern occurs, is built and back-propagated on the real code from every root; every tensor's gradient (nil-ness, shape, value) is compared with the model's topological reverse pass; sequences of back-propagations over graphs sharing leaves must add up; the verif hook counts backward-rule applications against (E+1)^2.",
   note="Trusted: reference reverse pass (validated against finite differences). Bounds: <=3 (4, 5 on a sub-alphabet) operations, two [2]-leaves, families to depth 44 (64), staged sequences (graph built after the previous back-propagation)."),
 "C02": dict(engine="E1", ref="§5 C02",
   technique="bounded-exhaustive enumeration of (operation, operand shapes, arguments, tracked subset, upstream weighting) configurations, real back-propagation vs analytic VJP of the reference model",
   text="For each of the 33 differentiable operations every configuration within the bound (every dim, exponent, index form, Patch source/position, Reshape target, Concat arity, tracked subset, two value assignments, two upstream weightings) is back-propagated on the real code; BackPropagate must succeed and every tracked operand must receive a finite gradient of its own shape equal to the model VJP.",
   note="Trusted: model VJPs (selftest vs finite differences on every run). Bounds: ranks <=3 quick, <=5 thorough."),
 "C07": dict(engine="E1", ref="§5 C07",
   technique="bounded-exhaustive enumeration of all (source,target) broadcast pairs and all implicitly broadcasting operand pairs, real gradients vs sum-over-copies model; listed known finding recognised by an exact alternative model",
   text="Every explicit Broadcast pair and every Add/Sub/Mul/Div/Dot/MatMul operand pair within the bound is back-propagated; the expanded operand's gradient must have its own shape and equal the sum over copies. The genuine defect (mean instead of sum) is a listed known finding: a case counts as KNOWN-FINDING only if the observed gradients equal the mean-model exactly; factor-1 cases and everything else must match the exact model.",
   note="Known finding KF-1 (broadcast_avg) pinned by the repository's own TestBroadcast. Bounds: target rank <=3 quick, <=5 thorough."),
 "C08": dict(engine="E2", ref="§5 C08",
   technique="explicit-state breadth-first search over API-call histories; each transition executes the real library by replaying the history on fresh objects; conformance of every tensor with the abstract tracked/spent model in every visited state",
   text="All interleavings of tensor creation, unary/binary/n-ary/comparison operations, BackPropagate and ResetGradContext up to the pool/depth bound that satisfy the property's preconditions are explored; after every transition every tensor is compared with the model (gradient nil-ness and value, tracked/spent flags through the hook, forward values, behavioural spent probe).",
   note="Bounds: pool <=5 depth 5 (thorough pool 5 depth 7, pool 6 depth 6). Hook reads private flags."),
 "C12": dict(engine="E1", ref="§5 C12",
   technique="bounded-exhaustive enumeration of prediction/target value-class tuples and tracked combinations, real loss vs scalar formula",
   text="All tuples of the prediction/target value classes (including exactly 0, 1, outside [0,1], within 1e-12 of the clipping bounds, magnitude 1e6) for small batches and all class pairs at all position pairs for larger ones, under all four tracking combinations.",
   note="Value classes, batch <=4, classes <=3."),
 "C14": dict(engine="E1", ref="§5 C14",
   technique="bounded-exhaustive enumeration of shapes x activation configs (every Softmax dim, every LeakyRelu slope incl. nil) x value classes, real Forward vs formula",
   text="Every activation configuration on every shape of the bound and on every value-class tuple of small inputs is compared with the defining formula; Softmax additionally sums to 1 along the configured dimension.",
   note="Bounds: rank <=4 (5), sizes {1,2,3}, |x|<=700."),
 "C17": dict(engine="E1", ref="§5 C17",
   technique="bounded-exhaustive enumeration of shapes x learning rates x gradient origins, real Update vs w - lr*g, with identity/immutability checks and all error paths",
   text="Every shape/learning-rate/gradient-origin configuration within the bound: new tensor equals w - lr*g, the old object and its gradient are untouched, error paths replace nothing.",
   note="Bounded shapes, generic values."),
 "C18": dict(engine="E2", ref="§5 C18",
   technique="enumeration of all constructor-call sequences up to a length bound under a seeded global source; conformance of every call's elements with the seeded gonum stream using the statement's exact parameters",
   text="All call sequences up to the bound are executed after seeding; each call's elements must be exactly the next draws of the gonum distribution with the statement's parameters, which decides shape, tracking, support, scale constants, freshness and independence deterministically (no statistical test decides).",
   note="Trusted: gonum samplers and x/exp/rand. Fallback necessary conditions if the implementation leaves that stream."),
 "C19": dict(engine="E2", ref="§5 C19",
   technique="explicit-state BFS over Accumulate/Result histories with invalid calls interleaved, real metric replayed per transition, plus exhaustive re-partitioning of every short data sequence",
   text="Every history up to the depth bound over all valid batches of size <=2 (3) on a 4-label alphabet and six kinds of invalid call is executed on a fresh Accuracy; Result and the hook counters must equal matched/total of the model after every transition; every consecutive partition of every sequence up to length 5 (6) must give the same Result.",
   note="State (total, correct) deduplicated; label alphabet {0,1,2.5,-1}."),
 "C11": dict(engine="E2", ref="§5 C11",
   technique="deviation-bounded exhaustive enumeration of training histories (0 or 1 deviation from the default step at every step/weight) executed on the real layer, activation, loss, optimizer objects and compared step by step with the gradient-descent trajectory of an analytic model",
   text="Every model FC->activation->loss within the dimension bound, every learning rate of the alphabet, three initialisations and every single-deviation history (reset omitted, reset(false), double update, skipped update at every step and weight) is run for 3-4 steps on the real components; after each step loss, weights, shapes and (through the hook) freshness of the reset contexts are compared with the model; omitted resets must surface as Update errors that replace nothing.",
   note="Known finding KF-1 for batch>1 / Softmax width>1 (trajectory must then equal the mean-model trajectory at every step). Bounds: B,D,O<=2 (3), 3-4 steps, <=1 deviation."),
 "C13": dict(engine="E2", ref="§5 C13",
   technique="bounded-exhaustive enumeration of prediction/target value-class tuples x value-preserving upstream programs x tracked-target flag, plus all <=2-operation upstream programs; real back-propagation vs analytic loss derivative composed with the reference reverse pass",
   text="Predictions of every value class (exact 0 and 1, within 1e-13 of the bounds, interior) reach the loss as a leaf and as an interior node through six value-preserving programs and through every small upstream program; the prediction gradient must be the analytic derivative (finite zero where clipped), of the prediction's shape, and every upstream tensor must receive the chain-rule value.",
   note="Analytic loss VJPs validated by finite differences. Predictions exactly at the clipping bounds excluded as in the statement."),
 "C15": dict(engine="E2", ref="§5 C15",
   technique="bounded-exhaustive enumeration of activation configs x shapes x value classes x upstream forms x downstream forms; real back-propagation vs derivative formulas; sub-gradient at 0 inferred and range-checked",
   text="Every activation (every Softmax dim) on every shape of the bound, with exact zeros and +-700 among the inputs, placed at a leaf, after value-preserving and arbitrary small upstream programs and before 0-1 further operations; the input gradient must equal upstream times the derivative of the statement, be finite and have the input's shape.",
   note="Known finding KF-1 for Softmax width>1. At an input of exactly 0 any (Leaky)Relu derivative between the one-sided ones is accepted."),
 "C16": dict(engine="E1", ref="§5 C16",
   technique="bounded-exhaustive enumeration of batch/feature/output counts, tracked flags and upstream weightings; all short histories of parameter replacement through the Weights() pointers interleaved with Forward; real layer vs affine formula and its derivatives",
   text="For every B,D,O within the bound the layer's output and the gradients of W, B and x are compared with the formula of the statement; row independence is checked bit-exactly; default (seeded stream) and custom/failing initializers are exercised; every history of up to 4-5 replacement/Forward events must use the tensors currently behind the pointers.",
   note="Known finding KF-1 for W/B gradients with batch>1. Bounds: dimensions <=3 (4)."),
 "C20": dict(engine="E3", ref="§5 C20",
   technique="stateless model checking of the real code under a hand-written cooperative scheduler: exhaustive enumeration of all thread interleavings at hooked points up to a preemption bound (iterated 0,1,2[,3]) for every pair of thread bodies (library sync/atomic operations and goroutines are intercepted through a build-time overlay shim: blocked threads are disabled, deadlock = no enabled thread), oracle = agreement with the sequential run + unchanged shared state + no deadlock; plus a separate free-running pass under the Go race detector",
   text="For every pair (and selected triples) of 18 thread bodies that cover forward programs, layer/activation/loss evaluation, graph construction on shared tracked parameters, private build-and-back-propagate graphs sharing only untracked tensors and random constructors, every schedule up to the completed preemption bound is executed deterministically on the real library; every thread must obtain exactly its sequential result and no shared tensor's private state may change. Because cooperative hand-offs hide unsynchronised accesses from the race detector, the same bodies also run free on real goroutines in a -race build.",
   note="Bounds: 2-3 goroutines, <=4 calls per body, 2x2 tensors, preemption bound 2 (3) where the schedule count fits the budget, at least 1. Scheduling points only at hooked sites (sequential consistency between them); the race pass covers accesses between points. Library locks/atomics/wait groups/goroutines become scheduling points through the overlay shim; channel operations are not intercepted: if the library's current source contains any, no schedule is enumerated at all - every scenario only has to finish on free-running goroutines, the run reports exhaustive:false, and the free-running -race pass decides (DESIGN 9.11). Not reached: all numbers of goroutines."),
 "C10": dict(engine="E2", ref="§5 C10",
   technique="exhaustive enumeration of (operation configuration) write-set inspections through a private-state hook, and differential exploration of every single-element mutation of every caller-visible slice at every one of three moments of a call/op/back-propagate history, compared with the unmutated twin",
   text="Every public operation configuration of a small shape set and every component is run with a deep before/after inspection of all operands (elements as actually nested, dims, flags, gradient identity/value, edges) across the call, further use of the result and BackPropagate; and for every slice that crosses the API (passed in or handed out) every element is overwritten by every alternative value at each of three later moments, and all subsequent observations must equal those of the untouched twin.",
   note="Mutation alphabet per slice kind; three mutation moments; small shapes. Hook reads private state."),
 "C09": dict(engine="E1", ref="§5 C09",
   technique="bounded-exhaustive enumeration of argument tuples (small integers, nil, foreign implementations, all ragged nested trees up to depth 4, invalid configs) for every public entry point, each call executed under recover and a hook step budget and compared with a validity model",
   text="Every public constructor, tensor method and component entry point is called on every argument tuple of the stated small domain (8.3 million calls in the quick tier); each call must return without panicking or running away, return an error exactly when the validity model says the documented precondition is violated, return no result with an error, return the defined shape (and well-formed nested data) otherwise, and leave its operands untouched when it rejects.",
   note="Validity model written from the definedness rules; unspecified (no-panic only) for foreign Tensor implementations and non-finite distribution parameters. Wall-clock watchdog only as a last-resort hang guard."),
}

NOT_YET = {}
ALL = ["C%02d" % i for i in range(1, 21)]

def main():
    checks = []
    for pid in ALL:
        if pid not in CHECKS:
            continue
        c = CHECKS[pid]
        eng = {"E1": E1, "E2": E2, "E3": E3}[c["engine"]]
        tech, note = c["technique"], c["note"]
        if pid in SWEPT:
            tech += "; plus exhaustive length sweeps (every length 1..40/300, powers of two with neighbours, integer constants of the library's current source), grid sweeps over pairs/triples of medium sizes and near-threshold element counts, and soak histories with garbage collections, all against the same reference model (DESIGN 9.7-9.9)"
            note += " Sweeps: one long dimension at a time, medium pairs/triples, code-derived sizes; not every shape."
        if pid in PROMOTED:
            note += " The quick command runs the thorough bounds of this property (they take under about half a minute); the thorough command adds the deep shape set (sizes up to 4/5/8 in ranks <= 4/3/2) where the check enumerates the standard shape set (DESIGN 9.11)."
        if pid in SPECIALDATA:
            tech += "; operand DATA also from a list of special tensors (all zeros, all ones, zero-sum rows, interleaved zero rows, one operand above the other, values closer than the equality tolerance, all-zero upstream gradients, rearranged multisets on one component object) that a data-dependent shortcut would single out (DESIGN 9.11)"
        if pid in SCALARARG:
            tech += "; scalar arguments (factors, exponents, constants, distribution parameters) also from a list of values that no type narrower than float64 holds (DESIGN 9.11)"
        checks.append({
            "property_id": pid,
            "quick_cmd": "/verif/run.sh %s quick" % pid,
            "thorough_cmd": "/verif/run.sh %s thorough" % pid,
            "evidence_file": "/verif/evidence/%s.json" % pid,
            "replay_cmd_template": "/verif/run.sh replay {path}",
            "engine": eng,
            "level_claimed": {"category": "model_checking", "text": c["text"], "design_ref": c["ref"]},
            "level_note": note,
            "technique": tech,
        })
    na = []
    for pid in ALL:
        if pid not in CHECKS:
            na.append({"property_id": pid, "reason": NOT_YET.get(pid, "check not built yet in this session (work in progress; planned in DESIGN.md §5)")})
    m = {
        "version": 1,
        "setup_cmd": "/verif/run.sh setup",
        "hooks": {
            "guard": "verif",
            "enable": "go build -tags \"verif vsync\" -overlay <generated> (module /verif/engine, replace github.com/sahandsafizadeh/qeep => /repo). The tag verif enables the hook commits; the overlay (engine/tools/mkoverlay, nothing committed to /repo) maps the sync / sync/atomic shim into the module and rewrites sync imports and go statements of the library's files so that the controlled scheduler sees them; fallback: -tags verif without overlay",
            "baseline_off_cmd": "/verif/run.sh baseline-off",
            "source_commits": HOOK_COMMITS,
            "add_only": True,
        },
        "engines": [
            {"name": "E1", "path": "/verif/engine", "serves_properties": [p for p in ALL if p in CHECKS and CHECKS[p]["engine"] == "E1"], "kind_free_text": E1},
            {"name": "E2", "path": "/verif/engine", "serves_properties": [p for p in ALL if p in CHECKS and CHECKS[p]["engine"] == "E2"], "kind_free_text": E2},
            {"name": "E3", "path": "/verif/engine", "serves_properties": [p for p in ALL if p in CHECKS and CHECKS[p]["engine"] == "E3"], "kind_free_text": E3},
        ],
        "checks": checks,
        "notes": "One binary (engine/bin/qmc) rebuilt from /repo's working tree by every command (C20 additionally a -race build); sizes used by the sweeps include the integer constants of that tree's source. Exit 0 = held on everything explored, 1 = VIOLATION line(s), 2 = broken check. Known findings: /verif/KNOWN_FINDINGS.txt.",
        "not_applicable": na,
    }
    json.dump(m, open("/verif/MANIFEST.json", "w"), indent=1)
    print("wrote MANIFEST.json with", len(checks), "checks,", len(na), "not_applicable")

if __name__ == "__main__":
    main()
