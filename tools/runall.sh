#!/bin/sh
# runs every check of a tier, prints one line each
tier=${1:-quick}
for c in C01 C02 C03 C04 C05 C06 C07 C08 C09 C10 C11 C12 C13 C14 C15 C16 C17 C18 C19 C20; do
	/verif/run.sh $c $tier > /tmp/runall.$c.log 2>&1
	rc=$?
	echo "$c rc=$rc $(grep -c '^VIOLATION' /tmp/runall.$c.log) violations, $(grep -c '^KNOWN-FINDING' /tmp/runall.$c.log) known; $(grep "^$c tier" /tmp/runall.$c.log | cut -c1-140)"
done
