#!/bin/sh
# run.sh <Cxx> <quick|thorough>   rebuild from the repository's working tree (tag verif) and run one check
# run.sh replay <path>            re-run one recorded case against the current tree
# run.sh setup                    offline build + reference-model selftest
# run.sh baseline-off             the repository's own suite with the guard OFF
# Registered commands use /verif/run.sh against /repo. For background sweeps on snapshots,
# QMC_REPO=<dir> points the build at another checkout and the script works from its own directory.
export GOFLAGS=-mod=mod GOPROXY=off GOSUMDB=off GOTOOLCHAIN=local
HERE=$(cd "$(dirname "$0")" && pwd)
REPO=${QMC_REPO:-/repo}
export QMC_VERIF="$HERE"
cd "$HERE/engine" || exit 2
MODFLAG=""
if [ "$REPO" != "/repo" ]; then
	sed "s#=> /repo#=> $REPO#" go.mod > go.alt.mod
	cp go.sum go.alt.sum
	MODFLAG="-modfile=go.alt.mod"
fi
build() {
	mkdir -p bin "$HERE/evidence"
	go build $MODFLAG -tags verif -o bin/qmc . >bin.build.log 2>&1 || { cat bin.build.log >&2; echo "BUILD FAILED (the tree under $REPO does not compile with -tags verif)" >&2; exit 2; }
}
buildrace() {
	go build $MODFLAG -race -tags verif -o bin/qmc-race . >bin.build.log 2>&1 || { cat bin.build.log >&2; echo "RACE BUILD FAILED" >&2; exit 2; }
}
case "$1" in
setup)
	build
	buildrace
	./bin/qmc selftest || exit 2
	;;
baseline-off)
	cd "$REPO" && go test -vet=off -count=1 ./...
	;;
replay)
	build
	exec ./bin/qmc replay "$2"
	;;
*)
	build
	if [ "$1" = "C20" ]; then
		buildrace
	fi
	exec ./bin/qmc check "$1" --tier "${2:-quick}"
	;;
esac
