#!/bin/sh
# run.sh <Cxx> <quick|thorough>   rebuild from the repository's working tree (tag verif) and run one check
# run.sh replay <path>            re-run one recorded case against the current tree
# run.sh setup                    offline build + reference-model selftest
# run.sh baseline-off             the repository's own suite with the guard OFF
# Registered commands use /verif/run.sh against /repo. For background sweeps on snapshots,
# QMC_REPO=<dir> points the build at another checkout and the script works from its own directory.
export GOFLAGS=-mod=mod GOPROXY=off GOSUMDB=off GOTOOLCHAIN=local
HERE=$(cd "$(dirname "$0")" && pwd)
REPO=${QMC_REPO:-/repo}
export QMC_VERIF="$HERE"
export QMC_REPO_DIR="$REPO"
cd "$HERE/engine" || exit 2
MODFLAG=""
if [ "$REPO" != "/repo" ]; then
	sed "s#=> /repo#=> $REPO#" go.mod > go.alt.mod
	cp go.sum go.alt.sum
	MODFLAG="-modfile=go.alt.mod"
fi
# The checks are built with an overlay (tools/mkoverlay): the sync / sync/atomic shim is mapped into the
# library's module and every file of the library that imports sync or contains a go statement is replaced by a
# rewritten copy, so that locks, atomics, wait groups and goroutines of the library - present or introduced by a
# change - are scheduling points / threads of the controlled scheduler. If the rewritten tree does not compile
# (a construct the rewriter does not handle), the build falls back: go statements left alone, then no overlay.
OV="$HERE/engine/bin/ov"
gobuild() { # gobuild <out> [extra flags]
	out=$1; shift
	: > bin.build.log
	if [ -x bin/mkoverlay ] || go build -o bin/mkoverlay ./tools/mkoverlay >>bin.build.log 2>&1; then
		for mode in "" "-nogo"; do
			if ./bin/mkoverlay -repo "$REPO" -shim "$HERE/engine/_shim" -out "$OV" $mode >>bin.build.log 2>&1 &&
				go build $MODFLAG "$@" -tags "verif vsync" -overlay "$OV/overlay.json" -o "$out" . >>bin.build.log 2>&1; then
				return 0
			fi
		done
	fi
	echo '{"mode":"none"}' > "$OV/overlay.stats.json" 2>/dev/null
	go build $MODFLAG "$@" -tags verif -o "$out" . >>bin.build.log 2>&1
}
build() {
	mkdir -p bin "$OV" "$HERE/evidence"
	go build -o bin/mkoverlay ./tools/mkoverlay >/dev/null 2>&1
	gobuild bin/qmc || { cat bin.build.log >&2; echo "BUILD FAILED (the tree under $REPO does not compile with -tags verif)" >&2; exit 2; }
}
buildrace() {
	gobuild bin/qmc-race -race || { cat bin.build.log >&2; echo "RACE BUILD FAILED" >&2; exit 2; }
}
case "$1" in
setup)
	build
	buildrace
	./bin/qmc selftest || exit 2
	;;
baseline-off)
	cd "$REPO" && go test -vet=off -count=1 ./...
	;;
replay)
	build
	exec ./bin/qmc replay "$2"
	;;
*)
	build
	if [ "$1" = "C20" ]; then
		buildrace
	fi
	exec ./bin/qmc check "$1" --tier "${2:-quick}"
	;;
esac
