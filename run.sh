#!/bin/sh
# /verif/run.sh <Cxx> <quick|thorough>   rebuild from /repo's working tree (tag verif) and run one check
# /verif/run.sh replay <path>            re-run one recorded case against the current tree
# /verif/run.sh setup                    offline build + reference-model selftest
# /verif/run.sh baseline-off             the repository's own suite with the guard OFF
export GOFLAGS=-mod=mod GOPROXY=off GOSUMDB=off GOTOOLCHAIN=local
cd /verif/engine || exit 2
build() {
	go build -tags verif -o bin/qmc . >bin.build.log 2>&1 || { mkdir -p bin; cat bin.build.log >&2; echo "BUILD FAILED (the tree under /repo does not compile with -tags verif)" >&2; exit 2; }
}
case "$1" in
setup)
	mkdir -p bin /verif/evidence
	build
	go build -race -tags verif -o bin/qmc-race . >bin.build.log 2>&1 || { cat bin.build.log >&2; echo "RACE BUILD FAILED" >&2; exit 2; }
	./bin/qmc selftest || exit 2
	;;
baseline-off)
	cd /repo && go test -vet=off -count=1 ./...
	;;
replay)
	build
	exec ./bin/qmc replay "$2"
	;;
*)
	mkdir -p bin /verif/evidence
	build
	if [ "$1" = "C20" ]; then
		go build -race -tags verif -o bin/qmc-race . >bin.build.log 2>&1 || { cat bin.build.log >&2; echo "RACE BUILD FAILED" >&2; exit 2; }
	fi
	exec ./bin/qmc check "$1" --tier "${2:-quick}"
	;;
esac
